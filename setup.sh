#!/bin/sh
# Build the offline tool environment for the checks: an overlay venv on top of /venv
# (h5py, numpy, watchdog for replays of the real code) + crosshair-tool + z3-solver from the wheelhouse.
set -e
cd "$(dirname "$0")"
V=/verif/.venv
[ -n "$VERIF_VENV" ] && V="$VERIF_VENV"
if [ ! -x "$V/bin/python" ] || ! "$V/bin/python" -c "import z3, crosshair, h5py, numpy" 2>/dev/null; then
  rm -rf "$V"
  /venv/bin/python -m venv "$V"
  SP=$("$V/bin/python" -c "import sysconfig; print(sysconfig.get_paths()['purelib'])")
  echo "import site; site.addsitedir('/venv/lib/python3.12/site-packages')" > "$SP/_overlay.pth"
  PIP_NO_INDEX=1 "$V/bin/pip" install -q --no-index --find-links /opt/veriftools/wheels crosshair-tool z3-solver
fi
"$V/bin/python" -c "import z3, crosshair, h5py, numpy; print('verif env ok: z3', z3.get_version_string())"
