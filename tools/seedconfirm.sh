#!/bin/sh
# usage: tools/seedconfirm.sh <seed-dir-name>
# confirm a seeded change in a scratch worktree of /repo HEAD: demo exits 0 without it, 1 with it, the test-suite passes with it
S=/verif/seeded/$1
WT=/tmp/seedcf_$$
git -C /repo worktree add -q --detach $WT HEAD || exit 3
/verif/tools/srctest.sh $WT --python $S/demo.py >/tmp/seedcf_$1_demo0.log 2>&1; echo "$1 demo on unchanged sources: exit $?"
git -C $WT apply $S/patch.diff || { echo "$1 patch does not apply"; git -C /repo worktree remove --force $WT; exit 3; }
/verif/tools/srctest.sh $WT --python $S/demo.py >/tmp/seedcf_$1_demo1.log 2>&1; echo "$1 demo on changed sources: exit $?"
echo "$1 test-suite on changed sources: $(/verif/tools/srctest.sh $WT | tail -1)"
git -C /repo worktree remove --force $WT
