#!/bin/sh
# development helper: run checks against a seeded change in a scratch worktree (VERIF_REPO), leaving /repo untouched
# usage: tools/seedcheck.sh <seed-id> <check ids...>
S=/verif/seeded/$1; shift
WT=/tmp/seedck_$$
git -C /repo worktree add -q --detach $WT HEAD || exit 3
[ -f /repo/python/digital_rf/_version.py ] && cp /repo/python/digital_rf/_version.py $WT/python/digital_rf/
git -C $WT apply $S/patch.diff || { echo "patch does not apply"; git -C /repo worktree remove --force $WT; exit 3; }
for c in "$@"; do
  (cd /verif && VERIF_REPO=$WT VERIF_SEED_OUT=/tmp/seedck_out timeout 3000 ./check $c quick > /tmp/seedck_$(basename $S)_$c.log 2>&1; echo "seed $(basename $S) check $c exit $?"; grep -E "^VIOLATION|^KNOWN|quick:" /tmp/seedck_$(basename $S)_$c.log | cut -c1-220)
done
git -C /repo worktree remove --force $WT
