#!/verif/.venv/bin/python
"""Confirm every seeded change and run the listed checks against it; writes seeded/<id>/meta.json.

For each seed (seeded/<id>/patch.diff + demo.py + notes.md):
  1. scratch worktree of /repo HEAD: demo exits 0 without the patch, 1 with it; the test-suite (built from the patched sources) passes
  2. the listed checks run against a scratch worktree carrying the patch (VERIF_REPO=<worktree>); /repo itself is never touched
     (`tools/seedtest.sh` does the same through `git -C /repo apply` / `git -C /repo checkout -- .`)
usage: tools/seedall.py [-j N] [seed ids...]
"""
import json, os, subprocess, sys, time
from concurrent.futures import ThreadPoolExecutor

VERIF = os.path.dirname(os.path.dirname(os.path.abspath(__file__)))
SEEDS = {
    # id: (property, checks to run, what the change breaks, what it needs to manifest)
    'C01': ('C01', ['C01'], 'index rows of a multi-block write are overwritten by the next write into the same file (next_index_avail++)',
            'gapped mode; an already open file receives a call with >= 2 blocks and then another call'),
    'C01b': ('C01', ['C01', 'C08'], "reader drops the file whose last millisecond contains the query's first sample (>= became >)",
             'rate >= 1 kHz; a read that starts in the last millisecond of a file'),
    'C01c': ('C01', ['C01', 'C07'], 'extension: source pointer of blocks 2..N in continuous block-by-block mode ignores the sub-channel stride', 'is_continuous, num_subchannels >= 2, rf_write_blocks with >= 2 blocks'),
    'C02c': ('C02', ['C02', 'C10'], 'dataset / index / dataspace closes removed before H5Fclose at writer close: the rename precedes the real flush', 'process killed inside close() between the rename and the release of the handles'),
    'C05c': ('C05', ['C05'], 'length check of the two index arrays removed in Python; the extension only rejects a shorter block array', 'len(block_sample_arr) > len(global_sample_arr)'),
    'C06c': ('C06', ['C06', 'C11'], 'init_utc_timestamp computed as (start / n) * d (remainder term dropped)', 'denominator > 1 and a start index with (start % n) * d >= n'),
    'C08c': ('C08', ['C08'], '_get_last_sample uses the first index row instead of the last', 'gapped channel whose last file has more than one index row'),
    'C09c': ('C09', ['C09', 'C08'], '_read closes the cached file before trying to open the next one: after a failed open the cache names a closed file', 'long-lived reader, read probing a missing file after the cached one, then another read of the cached file'),
    'C10c': ('C10', ['C10', 'C02'], 'digital_rf_close_hdf5_file: a failed rename removes the tmp file and returns 0', 'the rollover rename itself fails'),
    'C12c': ('C12', ['C12'], "metadata reader orders a file's sample indices as strings", 'one file holding indices with different numbers of digits'),
    'C14c': ('C14', ['C14'], 'subdirectory window slice uses forward fill only for metadata channels', 'RF channel, start time strictly inside a subdirectory span'),
    'C16c': ('C16', ['C16'], '_modify_record stores the new record before the size expirer computes the size delta', 'size limit; a tracked file reported again with a different size'),
    'C19c': ('C19', ['C19', 'C05'], 'rf_write counts len() of the caller array instead of the cast array', 'complex writer, 1 sub-channel, flat interleaved real input of 2N values'),
    'C20c': ('C20', ['C20', 'C12'], 'metadata writer keeps the last file open and unflushed between write() calls', 'reader in another process than the writer'),
    'C03d': ('C03', ['C03'], 'python get_unix_time: microsecond = int(picosecond / 1e12 * 1000000) (two float roundings)', 'a sample exactly on certain microsecond boundaries (about 1% of them)'),
    'C04d': ('C04', ['C04'], 'subdirectory grid restarts at each UTC midnight (sample_sec - (sample_sec % 86400) % cadence)', 'subdir_cadence_secs that does not divide 86400'),
    'C07d': ('C07', ['C07'], 'H5Pset_fill_value is given a native integer type although the buffer holds the byte-swapped pattern', 'continuous mode, real signed >i2/>i4/>i8, an unwritten slot'),
    'C11d': ('C11', ['C11', 'C08', 'C01'], '_combine_blocks no longer sorts the blocks collected from several top-level directories', 'same channel in >= 2 top-level directories whose order differs from time order, one read spanning both'),
    'C13d': ('C13', ['C13'], 'metadata reader: inclusive last second used as the exclusive stop of np.arange (last file of a subdirectory not listed)', 'file cadence 1 s; sample in the last second of a subdirectory'),
    'C15d': ('C15', ['C15'], "end anchor moved from the RE_* strings into the compiled listing patterns: the watcher's full-path patterns lose it", 'a path with extra characters after .h5'),
    'C17d': ('C17', ['C17'], 'mirror decides "destination is current" by size and mtime instead of content', 'pre-existing destination file of the same size, not older, different content'),
    'C18d': ('C18', ['C18'], 'cp/mv/ln forward include_drf_properties as include_dmd_properties to the listing', 'one of the properties flags given and a metadata channel in the tree'),
    'C01e': ('C01', ['C01', 'C08'], '_read: stop row of a read ending inside a block drops the block base row', 'file with >= 2 index rows; a read ending strictly inside a later block'),
    'C04e': ('C04', ['C04'], 'file millisecond computed with a double division (picosecond / 1e9): rounds instead of truncating', 'a write beginning within ~122 ns before a file boundary (rates above ~8 MHz)'),
    'C05e': ('C05', ['C05', 'C19'], 'rf_write treats next_sample=0 as "not given" (truthiness instead of `is None`)', 'explicit next_sample == 0 while the cursor is above 0'),
    'C06e': ('C06', ['C06'], 'per-file sample_rate_numerator attribute created as 32-bit unsigned', 'sample_rate_numerator >= 2**32'),
    'C08e': ('C08', ['C08'], 'read_vector_raw accepts a single block that starts after the requested start (only the tail is checked)', 'request starting in a gap / before the first sample and ending inside the next block'),
    'C09e': ('C09', ['C09', 'C08'], '_get_bounds pre-checks os.access instead of tolerating a failing open', 'first / last listed file vanishes or cannot be opened between listing and opening'),
    'C10e': ('C10', ['C10'], 'status of the data H5Dwrite overwritten by the status of the index write', 'failing data write on a pass that also writes index rows, index write succeeds'),
    'C12e': ('C12', ['C12', 'C13'], 'metadata reader candidate files: the file before the start file is included; the start file is then read unfiltered', 'multi-file range read whose start file holds a sample below the start'),
    'C14e': ('C14', ['C14'], 'ilsdrf replaces the tzinfo of aware datetimes instead of converting', 'starttime / endtime given as aware datetimes with a non-zero UTC offset'),
    'C15e': ('C15', ['C15'], 'moved events: the time window is tested on the source name when both names match', 'rename between two matching names on opposite sides of the window'),
    'C16e': ('C16', ['C16'], 'duration expirer returns early for single-file groups and skips the next expirer in the chain (size limit)', 'size + duration limits; a new file that is alone in its group pushes the total over the size limit'),
    'C19e': ('C19', ['C19'], 'digital_rf_get_last_file_written strips the first "tmp." found anywhere in the path', 'channel directory path containing "tmp."'),
    'C01f': ('C01', ['C01', 'C09', 'C08'], "reader remembers candidate files that were missing when probed and never probes them again (negative cache in _read)", 'one long-lived reader: a read beyond the current bounds before a file is published, then a read of that file after publication'),
    'C02f': ('C02', ['C02'], 'drf_properties.h5: the staged tmp file is renamed to its final name before H5Fclose (close hoisted behind the rename)', 'new channel; process killed between the rename and the end of H5Fclose'),
    'C05f': ('C05', ['C05'], 'validation loop of create_rf_data_index stops at the first block beyond the current file: a malformed later block is detected only after earlier files were written', 'C API; multi-block call crossing a file boundary with the malformed entry after the first block of the next file'),
    'C06f': ('C06', ['C06', 'C11'], 'properties verification compares the rate quotient instead of numerator and denominator', 'second session on an existing channel with an equivalent, unreduced fraction (200/2 vs 100/1)'),
    'C07f': ('C07', ['C07', 'C01'], 'continuous un-chunked files reuse the dataspace of the first file of the session: later files get its row count', 'non-integer samples per file (200/3 Hz, 400 ms); a longer-window file created first, a shorter-window one later'),
    'C08f': ('C08', ['C08', 'C01'], '_combine_blocks tracks "block in progress" by truthiness of the block key: a block starting at sample 0 loses its first piece', 'channel with data at sample index 0 and a query yielding >= 2 pieces'),
    'C10f': ('C10', ['C10'], 'roll-over: a failed H5Dclose / H5Fclose of the previous file no longer aborts the call (only a failed rename does)', 'I/O fault in the close of a full file at roll-over, and that call is the last one on the writer'),
    'C11f': ('C11', ['C11', 'C08'], 'read() stops visiting top-level directories once the collected blocks cover both ends of the request', '>= 3 interleaved sessions over 2 top-level directories (X, Y, X), one read with its ends in X and its interior in Y'),
    'C12f': ('C12', ['C12', 'C13'], 'metadata writer caches the subdirectory across the files of one write call (> instead of >=): a file at the start of the next subdirectory lands in the previous one', 'batch write spanning a subdirectory boundary, next group in the first file of the following subdirectory'),
    'C14f': ('C14', ['C14'], 'window end: one bisect at endtime + 1 ms instead of stepping over entries equal to endtime', 'endtime with sub-millisecond resolution and a file less than 1 ms after it'),
    'C16f': ('C16', ['C16'], '_add_record no longer calls _modify_record for an already tracked path: the size expirer keeps the old size', 'size limit; the same path added twice with a different size'),
    'C17f': ('C17', ['C17', 'C16'], 'sorted insertion rewritten: a record older than everything queued lands at index 1', 'move mode; event of an older metadata file handled after a newer one (count=1 ringbuffer deletes the newest)'),
    'C19f': ('C19', ['C19', 'C05'], 'extension rf_write returns next_sample + vector_length instead of the library cursor', 'zero-length rf_write with an explicit next_sample beyond the next available sample'),
    'C20f': ('C20', ['C20', 'C12'], "_add_metadata treats a KeyError (missing column) like an unreadable file: the file is deleted when old enough", 'column-restricted read; a sample lacking that column; file older than one cadence'),
    'C03f': ('C03', ['C03'], 'gmtime replaced by an inline days-to-civil computation with the Julian-century constant (doe / 36525)', 'a time on March 1 of a non-leap century year (2100-03-01, 2200-03-01, ...)'),
    'C13f': ('C13', ['C13', 'C12'], 'metadata writer caches the current subdirectory on the writer object and recomputes it only when the file time passes its end', 'a write into a subdirectory earlier than the one of a previous write on the same writer object'),
    'C15f': ('C15', ['C15'], 'event filter compares integer milliseconds: the start bound is floored to whole milliseconds', 'starttime with a sub-millisecond part and a file less than 1 ms before it'),
    'C18f': ('C18', ['C18'], 'ln --symbolic creates relative links computed from the path text', 'destination reached through a symlinked directory with a different depth'),
    'C04f': ('C04', ['C04', 'C03'], 'gmtime replaced by a hand-written calendar conversion whose leap-day compensation is off by one (Feb 29 comes out as Mar 1)', 'a subdirectory start on Feb 29 of a leap year'),
    'C09f': ('C09', ['C09', 'C02', 'C10'], 'writer close no longer closes the index dataset and dataspaces before H5Fclose: the real flush happens after the rename', 'a reader touching the last file between the rename and the release of the handles during close()'),
    'C01g': ('C01', ['C01', 'C19', 'C05'], 'continuous un-chunked mode: cursor not advanced over a gap inside the open file (global_index = next_global_index removed)', 'continuous, no compression; a write after a gap inside the open file that ends inside the same file, then a write relying on the cursor'),
    'C02g': ('C02', ['C02', 'C09'], 'roll-over no longer closes the rf_data dataset and dataspace of the previous file before H5Fclose: the rename precedes the real flush', 'process killed between the roll-over rename and the deferred close of the previous file'),
    'C05g': ('C05', ['C05', 'C19'], 'rf_write_blocks: offsets-past-the-end pre-check became `any(b > len)`: a last offset equal to len(arr) is accepted', 'is_continuous writer, >= 2 blocks, last block offset == len(arr)'),
    'C06g': ('C06', ['C06'], 'session UUID copied with a bound of 36 characters', 'uuid_str longer than 36 characters'),
    'C07g': ('C07', ['C07'], 'H5Pset_fill_time(NEVER) when the first write covers max_chunk_size samples (not the capacity of this file)', 'non-integer samples per file; an (n+1)-slot file created by a write of exactly n samples'),
    'C10g': ('C10', ['C10'], 'un-chunked writers close the index dataset right after creating it, result unchecked', 'transient I/O fault on exactly the write that carries the index chunk'),
    'C11g': ('C11', ['C11', 'C02'], '"is this the open file" test compares only the basename: a second write into a refused period skips creation and the finished-name guard', 'restart into a finalized period, two refused writes, then a write into a free period'),
    'C12g': ('C12', ['C12'], '_recursive_items drops the enclosing names on every descent (k + "/" instead of prefix + k + "/")', 'metadata value with a sub-sub-dictionary (>= 3 levels)'),
    'C14g': ('C14', ['C14'], 'files of a subdirectory sorted by name instead of by time', 'one subdirectory holding names that do not sort lexicographically by time (digit count of the seconds field changes, mixed prefixes)'),
    'C16g': ('C16', ['C16'], '_remove_from_queue pops the front entry when its time key matches (paths not compared)', 'two tracked files of one group with the same time key; the first inserted one is removed, the other reported again'),
    'C17g': ('C17', ['C17'], 'mirror handler passes include_drf_properties as include_dmd_properties to the event handler', 'exactly one of include_drf / include_dmd is False'),
    'C20g': ('C20', ['C20', 'C13', 'C12'], 'metadata reader _get_file_list stops enumerating at the first subdirectory that does not exist (break instead of continue)', 'two metadata writes in non-adjacent subdirectories and a read across the gap'),
    'C02': ('C02', ['C02', 'C09'], 'existence check of the finished name skipped when the subdirectory was "just created" (in effect always)',
            'a second session writing into a period whose finalized file exists'),
    'C02b': ('C02', ['C02'], 'a failed exclusive create on an existing tmp name no longer marks the writer failed: close publishes the stale tmp file',
             'tmp.rf@X.h5 left by a killed recorder; restart into period X; writer closed'),
    'C03': ('C03', ['C03'], 'picosecond remainder term dropped in digital_rf_get_timestamp_floor', 'numerator that does not divide 1e12 and a sub-second remainder'),
    'C03b': ('C03', ['C03'], 'ceil kernel: the round-up test is applied to the already divided remainder (ceiling lost)', 'a timestamp whose fractional sample part lies in (0, 1/d)'),
    'C04b': ('C04', ['C04', 'C03'], 'ceil kernel nanosecond stage reduces modulo the numerator instead of the denominator: a sample exactly on a file boundary goes to the previous file',
             'rational rate with d > 1 and n > (d-1)*1000, file boundary with non-zero milliseconds, a sample exactly on it'),
    'C04': ('C04', ['C04'], 'subdirectory second narrowed to 32-bit int', 'sample time at or after 2038-01-19'),
    'C05': ('C05', ['C05'], 'Python overlap pre-check made cumulative instead of per block', '>= 3 blocks where an earlier gap hides a later overlap (continuous mode commits 2 blocks before C rejects)'),
    'C05b': ('C05', ['C05', 'C19'], 'cursor after a multi-block call into an open file ignores the gap inside the file: a later overlapping write is accepted',
             'gapped writer, file already open, call with >= 2 blocks and a gap inside that file, then a write before the true end'),
    'C06': ('C06', ['C06'], 'phantom index row for a block starting exactly on the first sample of the next file (> became >=)', 'rf_write_blocks with a block starting exactly at a file boundary'),
    'C06b': ('C06', ['C06', 'C01'], 'inner block rows are no longer rebased by dataset_index when appended to an open file', 'chunked layout; multi-block call landing in an already open file'),
    'C07': ('C07', ['C07'], 'imaginary fill value of byte-swapped complex int32 is host-order', '>i4 complex, continuous un-chunked, a never-written slot'),
    'C07b': ('C07', ['C07', 'C01'], 'continuous un-chunked mode: writer cursor not reset when an open file receives a write after an in-file gap: later writes land too late',
             'continuous mode without compression; an in-file gap followed by >= 2 more writes into the same file'),
    'C08': ('C08', ['C08', 'C01'], "reader drops the file whose last millisecond contains the query's first sample", 'query start in the final millisecond of a file'),
    'C08b': ('C08', ['C08'], '_read stops before a block that starts exactly at the inclusive end sample (>= instead of >)', 'query end == first sample of an index row'),
    'C09': ('C09', ['C09', 'C02'], 'existence check tests the tmp name instead of the finished name: a restarted writer replaces a finalized file', 'second writer session inside the span of a finalized file'),
    'C09b': ('C09', ['C09', 'C14'], 'file-name regex matched against the joined path: tmp. files are listed and enter the reader bounds', 'a complete tmp.rf@ file present when the reader looks'),
    'C10': ('C10', ['C10'], 'has_failure guard dropped from digital_rf_write_blocks_hdf5', 'an I/O failure, then a further rf_write_blocks call'),
    'C10b': ('C10', ['C10', 'C02'], 'index dataset / dataspaces no longer closed before H5Fclose at writer close: the real flush happens after the rename', 'a write failure while the last file is flushed at close'),
    'C11': ('C11', ['C11', 'C08'], 'get_bounds merge loop: elif instead of if (a directory updates first OR last, never both)', 'a later top-level directory holding both the earliest and the latest samples'),
    'C11b': ('C11', ['C11', 'C02', 'C09'], 'finished-name guard builds the name with strstr over the whole path: a channel path containing "rf" defeats the guard',
             'channel directory path containing "rf" (e.g. drf_data/ch0); restart into a finalized period'),
    'C12': ('C12', ['C12'], 'dict-form batch write splits a str value of length N per sample (bytes/str guard swapped)', 'N >= 2 samples and a str value of exactly length N'),
    'C12b': ('C12', ['C12'], 'forward fill reads the newest candidate file unfiltered (is_edge only for the oldest file)', 'ffill read whose start file holds a sample later than start'),
    'C13': ('C13', ['C13'], 'writer file key shifted by half a sample: OBSOLETE, no longer applies after fix cb6247c (exact integer placement); see C13b', 'n/a'),
    'C13b': ('C13', ['C13'], 'writer file index computed with float64 true division', 'rate >= ~8.4 MHz, sample within ~1e-7 s before a file boundary'),
    'C14': ('C14', ['C14'], 'forward-fill look-back stops at a subdirectory that holds only non-matching entries', 'metadata channel, start time, an earlier subdirectory holding only stray / tmp. files'),
    'C14b': ('C14', ['C14'], 'ilsdrf prunes every timestamp-named directory from the walk, not only the subdirectories of a channel', 'channels below a timestamp-named non-channel directory'),
    'C15': ('C15', ['C15'], 'dispatch: end-time test only reached when no start time is set', 'both start and end time set; event for a file after the end time'),
    'C15b': ('C15', ['C15'], 'properties regex chosen by include_dmd instead of include_dmd_properties', 'include_dmd_properties differs from include_dmd'),
    'C16': ('C16', ['C16'], 'on_moved adds the destination before removing the source', 'moved event between two tracked names while at the limit'),
    'C16b': ('C16', ['C16'], 'sorted insertion puts a record older than everything queued at index 1 instead of the front', 'a file older than every tracked file of its channel reported while the queue is non-empty'),
    'C17': ('C17', ['C17'], 'metadata ringbuffer handler dispatched before the copying handler in move mode', 'move mode, late event for an older metadata file'),
    'C17b': ('C17', ['C17'], 'error path of mirror_to_dest removes the staged tmp file (in move mode the only copy)', 'move mode; OSError while tmp.<name> holds the moved data (late event for the vanished source, failed rename)'),
    'C18': ('C18', ['C18'], 'destination path by prefix slicing instead of relpath', '-c channel given in non-normal form (ch0/, ./ch0)'),
    'C18b': ('C18', ['C18'], 'cp / mv skip a listed file when the destination has a same-size, not-older file', 'pre-existing destination file of the same size and newer mtime with different content'),
    'C19': ('C19', ['C19'], 'leading gap of an rf_write_blocks call not counted in the gap total', 'rf_write_blocks whose first index is past the next available sample'),
    'C19b': ('C19', ['C19', 'C05'], 'cursor after a call = first sample in last file + samples written (gaps inside the last file ignored)', 'gapped mode, call with a gap inside its last file'),
    'C20': ('C20', ['C20'], 'get_digital_metadata builds the metadata reader with accept_empty=False (deletes dmd_properties.h5 of an empty channel)', 'metadata channel without fields yet; a read query'),
    'C20b': ('C20', ['C20'], 'metadata reader caches the first sample of the earliest file', 'reader queried, then an earlier sample written into the same earliest file, then queried again'),
}


def sh(cmd, timeout=6000):
    r = subprocess.run(cmd, shell=True, stdout=subprocess.PIPE, stderr=subprocess.STDOUT, text=True, timeout=timeout)
    return r.returncode, r.stdout


def one(sid):
    prop, checks, breaks, needs = SEEDS[sid]
    d = os.path.join(VERIF, 'seeded', sid)
    meta = dict(seed=sid, property=prop, breaks=breaks, needs_to_manifest=needs, files=['patch.diff', 'demo.py', 'notes.md'])
    head = sh('git -C /repo rev-parse --short HEAD')[1].strip()
    meta['repo_head'] = head
    rc, out = sh('%s/tools/seedconfirm.sh %s' % (VERIF, sid))
    lines = [l for l in out.splitlines() if l.startswith(sid + ' ')]
    meta['confirmation'] = dict(command='tools/seedconfirm.sh %s  (scratch worktree of /repo HEAD; demo without / with the patch; test-suite built from the patched sources)' % sid,
                                output=lines)
    applies = not any('does not apply' in l for l in lines)
    meta['applies_to_head'] = applies
    meta['detection'] = {}
    if applies:
        for c in checks:
            t0 = time.time()
            rc, out = sh('%s/tools/seedcheck.sh %s %s' % (VERIF, sid, c))
            viol = [l[:200] for l in out.splitlines() if l.startswith('VIOLATION')]
            ex = [l for l in out.splitlines() if l.startswith('seed ')]
            code = int(ex[0].rsplit(' ', 1)[1]) if ex else None
            meta['detection'][c] = dict(command='tools/seedcheck.sh %s %s  (./check %s quick with VERIF_REPO=<worktree carrying the patch>)' % (sid, c, c),
                                        exit=code, detected=(code == 1 and bool(viol)), violations=viol[:4], wall_s=round(time.time() - t0))
    meta['detected'] = any(v['detected'] for v in meta['detection'].values()) if applies else None
    json.dump(meta, open(os.path.join(d, 'meta.json'), 'w'), indent=1)
    return sid, meta['detected'], {c: v['exit'] for c, v in meta['detection'].items()}


def main():
    args = sys.argv[1:]; j = 2
    if args[:1] == ['-j']: j = int(args[1]); args = args[2:]
    ids = args or sorted(SEEDS)
    with ThreadPoolExecutor(max_workers=j) as tp:
        for sid, det, codes in tp.map(one, ids):
            print(sid, 'detected' if det else ('NOT DETECTED' if det is False else 'n/a'), codes, flush=True)


if __name__ == '__main__':
    main()
