#!/bin/sh
# run every registered thorough command once, sequentially, from the directory this script's checkout lives in (used with `vp run`:
# evidence and logs land in the snapshot, /verif/evidence is not touched)
cd "$(dirname "$0")/.."
mkdir -p thorough_logs
for c in ${@:-C13 C03 C18 C17 C15 C04 C07 C12 C08 C16 C11 C20 C19 C02 C06 C05 C01 C14 C10 C09}; do
  s=$(date +%s); ./check $c thorough > thorough_logs/$c.log 2>&1; echo "$c exit $? $(( $(date +%s) - s ))s $(grep -c '^VIOLATION' thorough_logs/$c.log) violations $(grep -E 'thorough:' thorough_logs/$c.log | tail -n 1 | cut -c1-160)"
done
echo thorough-done
