#!/bin/sh
# usage: /tmp/srctest.sh <worktree> [pytest args...]   -- build the package from <worktree> sources and run the repo's test-suite against it
# (the plain `pytest` in the repo imports the copy installed in /venv, which does not see source edits)
set -e
WT="$1"; shift
D=$(mktemp -d /tmp/srctest-XXXXXX)
trap 'rm -rf "$D"' EXIT
mkdir -p "$D/pkg"
cp -r "$WT/python/digital_rf" "$D/pkg/digital_rf"
cp /venv/lib/python3.12/site-packages/digital_rf/_version.py "$D/pkg/digital_rf/_version.py"
PYINC=$(/venv/bin/python -c "import sysconfig; print(sysconfig.get_paths()['include'])")
NPINC=$(/venv/bin/python -c "import numpy; print(numpy.get_include())")
SUF=$(/venv/bin/python -c "import sysconfig; print(sysconfig.get_config_var('EXT_SUFFIX'))")
gcc -O1 -fPIC -shared -I"$WT/c/include" -I/usr/include/hdf5/serial -L/usr/lib/x86_64-linux-gnu/hdf5/serial -I"$PYINC" -I"$NPINC" \
    "$WT/python/lib/py_rf_write_hdf5.c" "$WT/c/lib/rf_write_hdf5.c" -o "$D/pkg/digital_rf/_py_rf_write_hdf5$SUF" -lhdf5_serial -lm
if [ "$1" = "--python" ]; then shift; cd "$WT" && PYTHONPATH="$D/pkg" /venv/bin/python "$@"; exit $?; fi
cd "$WT" && PYTHONPATH="$D/pkg" /venv/bin/python -m pytest -q -p no:cacheprovider --timeout=900 python/tests "$@" 2>&1 | tail -5
