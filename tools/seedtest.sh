#!/bin/sh
# usage: tools/seedtest.sh <seed-dir-name> <check ids...>
# 1. confirm the seeded change in a scratch worktree of /repo HEAD: demo passes without it, fails with it, test-suite passes with it
# 2. apply it to /repo, run the given checks (quick), undo it
S=/verif/seeded/$1; shift
WT=/tmp/seedwt_$$
git -C /repo worktree add -q --detach $WT HEAD || exit 3
echo "== demo on unchanged sources"; /verif/tools/srctest.sh $WT --python $S/demo.py >/tmp/seed_demo0.log 2>&1; echo "exit $?"
git -C $WT apply $S/patch.diff || { echo "patch does not apply"; git -C /repo worktree remove --force $WT; exit 3; }
echo "== demo on changed sources"; /verif/tools/srctest.sh $WT --python $S/demo.py >/tmp/seed_demo1.log 2>&1; echo "exit $?"; tail -2 /tmp/seed_demo1.log | cut -c1-200
echo "== test-suite on changed sources"; /verif/tools/srctest.sh $WT | tail -1
git -C /repo worktree remove --force $WT
git -C /repo apply $S/patch.diff || exit 3
for c in "$@"; do
  echo "== check $c on changed /repo"
  (cd /verif && timeout 3000 ./check $c quick > /tmp/seed_$c.log 2>&1; echo "check exit $?"; grep -E "^VIOLATION|^KNOWN|quick:" /tmp/seed_$c.log | cut -c1-220)
done
git -C /repo checkout -- .
git -C /repo status --short | head -3
