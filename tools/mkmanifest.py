#!/usr/bin/env python3
"""Generate /verif/MANIFEST.json from the table below (kept in one place so it stays valid and consistent)."""
import json, os, sys

HERE = os.path.dirname(os.path.dirname(os.path.abspath(__file__)))
ALL = ['C%02d' % i for i in range(1, 21)]

# property -> dict(level, text, note, technique, design_ref, thorough(bool))
CHECKS = {
    'C03': dict(
        level='proof',
        text='Bounded-domain proof by symbolic execution of the real LLVM IR of digital_rf_get_timestamp_floor / '
             'digital_rf_get_sample_ceil / digital_rf_get_unix_time_rational with index, numerator and denominator all symbolic over the '
             'full word domain of the property (k<2^63, n<2^32, d<=1e9, n*d<2^64, year<9999): z3 shows second/picosecond/ceil equal the exact '
             'rational values and that no 64-bit operation wraps; monotonicity and the inverse law are decided per concrete rate (linear twin, '
             'complete). The Python wrapper int(ps/1e6) is decided with an exact IEEE round-to-nearest-even encoding in LIA. Loop-free code, so '
             'no unwinding bound is involved. Floating point introduced into a kernel is modelled exactly (IEEE RNE in LIA), and a calendar breakdown '
             'computed by the code itself (no libc gmtime) is decided against a characterisation of the proleptic Gregorian calendar for every second '
             'from 1970 to year 9999 (1980..2100 if the code loops over years).',
        note='Trusted: z3, the IR executor (vlib/llsym.py; validated each run against the real build on seeded inputs and solver witnesses via '
             'ctypes), libc gmtime / CPython datetime calendar arithmetic, PyArg_ParseTuple glue.',
        technique='symbolic execution of LLVM IR to SMT (z3 Int/NIA with Euclid variables; per-rate LIA twins; IEEE RNE as LIA)',
        design_ref='DESIGN.md section 4 C03'),
    'C04': dict(
        level='model_checking',
        text='Symbolic execution of the real IR of digital_rf_get_subdir_file (time kernels replaced by their specifications only after those '
             'are re-proved on the same IR in the same run) with rate numerator/denominator, both cadences, start index and sample index ALL '
             'symbolic: z3 shows, by division-free characterisations of exact rational time, that the calendar second handed to gmtime and the '
             'S.mmm of the basename are the cadence-aligned floors of the exact sample time, that samples_left / max_samples_this_file delimit '
             'exactly the samples whose exact time lies in the file window, that the error return is unreachable and nothing wraps. Complete '
             'linear twins per (rate, cadence) configuration (incl. rates >= 1e9 Hz with 1 ms files) back the NIA queries. The cadence rule is '
             'decided on both constructors (C: IR execution with float instructions havoc; Python: guard conditions read from the AST, '
             'equivalence by z3).',
        note='Trusted: z3, vlib/llsym.py IR semantics, gmtime injectivity/calendar, snprintf model driven by the format constants in the IR. '
             'Witnesses incl. first/last sample of a file and seeded boundary cases are replayed on the real build through ctypes.',
        technique='symbolic execution of LLVM IR to SMT (z3 NIA/LIA, Euclid variables, compositional summaries) + AST-to-SMT for the Python guard',
        design_ref='DESIGN.md section 4 C04'),
    'C01': dict(
        level='model_checking',
        text='Compositional, bounded: (W0) digital_rf_create_rf_data_index / digital_rf_get_global_sample executed from IR with every argument '
             'symbolic == declarative CutSpec (index_len 1..3); (W1) the whole C write path executed from IR over an abstract HDF5/POSIX '
             'environment for histories of up to 2 (thorough 3) calls in one path, in gapped, continuous+chunked and continuous modes and through '
             'both C entry points: for an arbitrary vector position j the solver shows it is written exactly once, from vector+j*elemsize, '
             'into the file whose window contains its index, at a row that the file\'s final index maps back to exactly that index. File windows '
             'are abstracted by the partition lemma proved for all rates/cadences in the same run (C04), so the claim is rate-independent. '
             '(R1/R2) CrossHair confirms over all paths that the real _read / _combine_blocks return Blocks(Sem(index)) and the maximal merge. '
             '(X) one solver witness per path shape of the regular-window twins is run on the real build: C writer -> files -> real reader == '
             'reference model. (E) the Python extension (python/lib/py_rf_write_hdf5.c) is executed from its own IR with symbolic numpy arrays: it hands '
             'the library exactly the caller\'s blocks (data pointer = base + block offset x row stride, next sample, length, order). '
             '(W2) inductive step: one call from ANY writer state satisfying the representation invariant Inv_W (a file open, symbolic cursor / row count / '
             'index rows / sequence number), every accepted call shown to re-establish Inv_W, so the per-call obligations hold for call number k of a '
             'history of any length. (P) CrossHair runs the real DigitalRFWriter.__init__ / _cast_input_array over every dtype descriptor (numpy replaced by '
             'a validated descriptor-level stand-in): the array handed to the extension has exactly the element representation declared to the C library. '
             'Bounds: <=3 blocks (thorough 4), <=3 files per call (thorough 4), <=3 index rows per file on the reader side.',
        note='Trusted: z3, CrossHair, vlib/llsym.py IR semantics, environment stubs (fresh channel, no faults), HDF5 storing what H5Dwrite is '
             'given. N1 (reader candidate file list vs writer naming) is decided in checks/readerside.py.',
        technique='symbolic execution of LLVM IR to SMT (z3) with compositional summaries + CrossHair on the real Python reader',
        design_ref='DESIGN.md section 4 C01'),
    'C05': dict(
        level='model_checking',
        text='W0 shows rows_to_write == -1 <=> Malformed(g, b, vlen, cursor) with all arguments symbolic; the whole C write path is then executed '
             'with ARBITRARY block arrays after zero or one accepted call (all modes, both C entry points, NULL data, zero-length calls): on '
             'every path a call is rejected iff it is malformed, a rejected call issues no mutating HDF5/file-system operation and leaves the '
             'cursor and open-file state unchanged, and a malformed call is never accepted. The same is decided for an arbitrary call from ANY state '
             'satisfying the representation invariant Inv_W (inductive step: rejection atomicity for call number k of any history).',
        note='Trusted: z3, IR executor, stubs. chunk_size may be fixed by a rejected first call (not observable per the property). The Python '
             'pre-validation is decided in checks/pylayer.py.',
        technique='symbolic execution of LLVM IR to SMT (z3), path-chained call histories',
        design_ref='DESIGN.md section 4 C05'),
    'C06': dict(
        level='model_checking',
        text='On every path of the write-path histories (see C01) the solver shows each created file has a well-formed index (>=1 row, offset 0, '
             'strictly increasing, d(offset)<=d(sample), last offset inside the stored rows, all samples inside the file window, rows <= window '
             'capacity), exactly the 19 documented attributes with the writer\'s parameters, and sequence numbers 0,1,2.. in file-time order; W0 '
             'shows the rows handed to HDF5 are well formed for all arguments; the constructor stores the session start timestamp == floor(start*d/n) '
             '(per rate, with its 80-bit floating point divisions - if any - modelled exactly); digital_rf_handle_metadata (create) writes exactly the 15 '
             'channel attributes. CrossHair confirms over all paths (16 directory-state cases) that the real recreate_properties_file never '
             'overwrites an existing properties file and otherwise writes exactly those 15 attributes with the values of a finalized data file '
             'opened read-only. Witness histories are run on the real build and every file\'s index compared semantically; the properties file '
             'is regenerated from each data file of four real channels and compared with the original.',
        note='Trusted: z3, CrossHair, IR executor, stubs; attribute values are what is handed to H5Awrite.',
        technique='symbolic execution of LLVM IR to SMT (z3) over an event-trace model of the files + CrossHair on recreate_properties_file',
        design_ref='DESIGN.md sections 4 C06, 9.2'),
    'C08': dict(
        level='model_checking',
        text='CrossHair (per-path z3 queries) on the real reader functions with list-backed stand-ins for h5py datasets: Confirmed over all '
             'paths that lengths-only and data reads both equal Blocks(Sem(index)) clipped to the range (<=3 index rows), sub_channel selects '
             'that column, reading a range equals merging any split of it, two-file reads skip vanished files, bounds are min/max of Sem of the '
             'first/last readable file and merge across directories, read()/get_continuous_blocks() forward identical ranges, and the vector '
             'read returns exactly the single fully covering block or raises IOError (lengths 1..4 incl. 1).',
        note='Trusted: CrossHair/z3, the stand-ins (shape/slicing semantics of h5py datasets), OrderedDict replaced by an ordered list mapping.',
        technique='CrossHair symbolic execution of the real Python functions (z3), counterexamples replayed on the real build',
        design_ref='DESIGN.md section 4 C08'),
    'C19': dict(
        level='model_checking',
        text='On every path of the write-path histories the solver shows: after each accepted call the cursor is one past the highest index '
             'written; last-file / last-directory getters name the file containing the most recently written sample; has_failure stays 0; a '
             'rejected or zero-length call leaves the cursor unchanged. Witnesses are run on the real build.',
        note='Trusted: z3, IR executor, stubs. Python counters: checks/pylayer.py.',
        technique='symbolic execution of LLVM IR to SMT (z3), path-chained call histories',
        design_ref='DESIGN.md section 4 C19'),
    'C14': dict(
        level='model_checking',
        text='E-RX: the file-name grammars (RF, metadata, combined, properties, subdirectory) are shown equal to their intended languages, '
             'mutually disjoint where required and never accepting tmp.-prefixed names (z3 regex emptiness, all strings). E-CH: CrossHair '
             'confirms over all paths that _decorated_list_slice selects exactly the inclusive window (+ forward fill, ties included) for up '
             'to 3 sorted entries, and that _yield_matching_files on an in-memory channel (3 subdirectories, symbolic existence of up to 4 '
             'files, symbolic window, each subdirectory possibly vanishing) yields exactly the in-window files in time order, plus the latest '
             'earlier metadata file, never a stray tmp. file, never raises, and that reversing only reverses the order (26 per-case harnesses). '
             'The ilsdrf tree walk is run on an in-memory tree (nested, legacy metadata.h5 and timestamp-nested channels, stray / tmp. / '
             'non-channel files, symbolic presence of 6 files) for every include-flag combination, recursive / reverse and three start paths: '
             'exactly the qualifying files of every channel, once, properties per their own flags, directories in sorted order.',
        note='Trusted: z3, CrossHair, the in-memory os.listdir / os.walk, a pure-Python bisect (stdlib reference implementation) and an '
             'integer-backed timedelta-like bound. Window slicing and tree walk are decided separately (the walk without a time window).',
        technique='z3 regular-expression emptiness + CrossHair symbolic execution of the real listing functions',
        design_ref='DESIGN.md section 4 C14'),
    'C15': dict(
        level='proof',
        text='E-RX: for each of the 15 effective include-flag combinations the union of the regexes the real DigitalRFEventHandler compiles '
             '(read from the object, incl. IGNORECASE) is compared with the language of listable paths built from the regexes the real lister '
             'consults under the same flags (observed by instrumenting _yield_matching_files / ilsdrf): both inclusions are z3 regex-emptiness '
             'queries over the property\'s bounded path grammar, all unsat; tmp.-prefixed names are rejected by both. E-CH: CrossHair confirms '
             'over all paths the inclusive window on secs*1000+frac, the untimed / match_time=False bypass, move -> created/deleted/moved '
             'conversion and that directory events are dropped, on the real dispatch() with stub matchers.',
        note='Trusted: z3 sequence/regex theory, the re->z3 translation (validated against Python re on seeded strings every run), CrossHair, '
             'watchdog event classes. Domain restrictions are those of the property (format case, format depth).',
        technique='z3 regular-expression emptiness over Python re patterns + CrossHair on the real dispatch',
        design_ref='DESIGN.md section 4 C15'),
    'C16': dict(
        level='model_checking',
        text='CrossHair (per-path z3 queries) on the real handler classes built by the factory: for every pair of notifications (add / modify / '
             'remove of any of 4 files in 2 channels, duplicates and unknown files included) under each single limit, and for every triple '
             'under all three limits (12 per-case harnesses), Confirmed over all paths that the bookkeeping equals the truth (records <-> '
             'queues bijection, per-channel time order, tracked size == sum of tracked sizes), a file is deleted only if it is the oldest '
             'tracked file of its channel and some limit is exceeded at that moment, removal notifications delete nothing, and every limit '
             'holds again after a reported file was handled; two reports followed by a moved (renamed) event with any source and destination '
             'under count and size limits: every deletion is judged against the files that really exist. The re-verification after an observer '
             'restart (_verify_ringbuffer_files) is run for any tracked set x any on-disk set x stale sizes: books == disk afterwards, nothing '
             'deleted on the basis of stale sizes. z3 regex emptiness shows the path '
             'filter can never match properties or tmp. files.',
        note='Trusted: CrossHair/z3, the os stub; records injected directly (time key from the concrete file names, symbolic sizes). Longer '
             'histories are outside the claim.',
        technique='CrossHair symbolic execution of the real ringbuffer classes + z3 regex emptiness',
        design_ref='DESIGN.md section 4 C16'),
    'C02': dict(
        level='model_checking',
        text='Protocol-level bounded model checking of the real C writer: on every path of the write-path histories (see C01; every prefix of a '
             'recorded event trace is a crash point) z3 shows that a data file comes into existence only by an exclusive create of '
             'dir/<subdir>/tmp.<name of its window> after the final name was seen absent, is renamed tmp.X -> X exactly once and only after '
             'its two datasets and the file were closed, is never named by a later event, and that after close no tmp file of this writer is '
             'left; in a later session on a directory where any finalized file and any stale tmp. file may already exist, only files this '
             'writer created and closed are ever renamed to a final name. The channel properties file is shown to be staged (tmp + rename after close). z3 regex emptiness shows no reader / lister / '
             'watcher grammar accepts a tmp. name. Real recordings under strace validate the event model (exclusive creates, closes before renames) and '
             'serve as the replay of protocol-order counterexamples.',
        note='Trusted: z3, IR executor, stubs; HDF5 writes only to the file it was asked to create and the file is complete after H5Fclose; '
             'rename is atomic. Content of finalized files: C01/C06.',
        technique='symbolic execution of LLVM IR to SMT (z3) over event-trace prefixes + z3 regex emptiness + strace validation of the stubs',
        design_ref='DESIGN.md section 4 C02'),
    'C12': dict(
        level='model_checking',
        text='CrossHair (per-path z3 queries) on the real metadata reader and writer over an in-memory HDF5 store: Confirmed over all paths that '
             'bounds are the smallest/largest index written (group names ordered as strings, as h5py lists them), range reads return exactly '
             'the in-range samples ascending with their own values, forward fill adds exactly the latest sample at or before the start, '
             'read_latest returns the highest index, column selection forms, that a write creates one group per index in the file of that '
             'index, refuses an existing index with IOError leaving the stored sample unchanged, closes every file it opened, and that the '
             'dict form distributes only length-N non-string values. Bounds: <=3 samples, <=3 files, indices < 1000 in the harness channel.',
        note='Trusted: CrossHair/z3, the in-memory HDF5 store and numpy shim, insertion-ordered mapping for OrderedDict; file placement is C13.',
        technique='CrossHair symbolic execution of the real Python functions (z3), counterexamples replayed on the real build',
        design_ref='DESIGN.md section 4 C12'),
    'C13': dict(
        level='proof',
        text='The numeric expressions of the real writer (file-index key, file and subdirectory timestamps) and reader (candidate window, '
             'subdirectory/file loops, mask, name format) are read from the AST on every run and translated to SMT; numpy.longdouble and '
             'Python float (int / int true division) steps, when present, are modelled exactly (IEEE round-to-nearest-even encoded in LIA per binade). z3 shows for every index with time '
             'in 1980..2100, per (rate, cadence) configuration, that the writer stores sample k in <prefix>@mfile(k).h5 under the subdirectory '
             'of mfile(k), that the reader\'s loops yield that file for every range containing k, and that a single-sample query looks in exactly '
             'that file.',
        note='Trusted: z3, the AST translator (unsupported syntax => inconclusive), numpy.longdouble = x87 80-bit. Counterexamples are replayed '
             'with the real DigitalMetadataWriter/Reader.',
        technique='Python AST to SMT (z3 LIA, exact IEEE-754 rounding model), per-configuration queries',
        design_ref='DESIGN.md section 4 C13'),
    'C07': dict(
        level='model_checking',
        text='digital_rf_set_fill_value is executed from IR with the HDF5 type queries (class, size, sign, byte order) and is_complex symbolic: on '
             'each of the paths the buffer handed to H5Pset_fill_value, read in the declared byte order of the declared type, is shown to be a '
             'NaN (floats), the most negative value (signed), zero (unsigned), in both components of complex types, and every supported cell is '
             'accepted. The constructor is executed (float instructions havoc) to show needs_chunking <=> compression or checksum or not '
             'continuous. The continuous-mode write-path histories show: unchunked files get the full-window dataset, each sample lands at row '
             'index - first(F), exactly one index row (first(F), 0), a file is created only by a call that writes one of its slots; chunked '
             'continuous mode behaves as gapped mode. Witness histories are run on the real build incl. the fill of unwritten slots.',
        note='Trusted: z3, IR executor, stubs; little-endian host; HDF5 applies the fill value it was given.',
        technique='symbolic execution of LLVM IR to SMT (z3), constant-buffer interpretation per path',
        design_ref='DESIGN.md section 4 C07'),
    'C10': dict(
        level='fault_enumeration',
        text='The C write path is executed from IR in fault mode: every fallible environment call (mkdir, H5Fcreate, H5Dcreate2, H5Dset_extent, '
             'H5Dwrite of data and of the index, H5Dclose, H5Fclose, rename, remove) returns a symbolic status under the two single-fault '
             'schedules of the property (fails once / fails persistently from one point on) with the fault position a solver variable; '
             'because many results are not branched on by the code, each possible fault position of a path is examined under the assumption '
             'that it happened. z3 shows: a file one of whose operations failed is never renamed to its final name; an accepted sample that '
             'does not end up in an intact published file is reported no later than the first call after the failure; after has_failure the '
             'writer refuses further writes; files finalized before the fault are not touched. The real build is then run under an '
             'LD_PRELOAD fault injector (write / rename / mkdir failing at each of 17 positions incl. the final flush, once or persistently; small recordings that stay in '
             'the HDF5 caches and large ones whose H5Dwrite reaches the OS directly) to validate the model. The same schedules are run from ANY writer state satisfying '
             'the representation invariant Inv_W (2 calls + close), so the fault may strike during call k of a history of any length.',
        note='Trusted: z3, IR executor, stubs; an OS failure surfaces as the failure of some HDF5/libc call of the writer. Histories: 2 calls '
             '(thorough 3) + close, <= 2 files per call.',
        technique='symbolic execution of LLVM IR to SMT (z3) with symbolic fault schedules + fault-injection replay on the real build',
        design_ref='DESIGN.md section 4 C10'),
    'C17': dict(
        level='model_checking',
        text='CrossHair (per-path z3 queries) on the real mirror_to_dest with copy, move and the real LinkWithFallback on an in-memory file system '
             'whose existence bits and content identities are symbolic (source possibly vanished, older/identical/different destination, stale '
             'tmp file, 1..3 duplicated or late events): Confirmed over all paths that the destination ends with the source content, the '
             'final name is only ever written by rename from the tmp. name, an intact copy exists in source or destination at every logged '
             'moment (move = copy then unlink), and a vanished source changes nothing. The handler set built by the real DigitalRFMirror.__init__ '
             'is checked per method (what is copied, what is moved, the count-1 metadata ringbuffer dispatched after the copying handler).',
        note='Trusted: CrossHair/z3, the in-memory file system model of os/shutil/filecmp; event selection is C15, deletion rule is C16.',
        technique='CrossHair symbolic execution of the real mirror code over a symbolic file system model',
        design_ref='DESIGN.md section 4 C17'),
    'C18': dict(
        level='model_checking',
        text='CrossHair on the real _run_cp / _run_mv / _run_ln / _parse_srcdest_args with an in-memory file system and a stub listing: for every '
             'form of the channel option and every subset of two listed files, exactly the listed files arrive at the same relative path with '
             'the same content (or as hard / symbolic links), directories are created as needed, cp/ln leave the source unchanged, mv removes '
             'exactly what it transferred, nothing else appears, and the listing is called with the same selection options.',
        note='Trusted: CrossHair/z3, the file system model. Which files a listing selects is C14; identical bytes read identically (C01).',
        technique='CrossHair symbolic execution of the real command loops over a file system model',
        design_ref='DESIGN.md section 4 C18'),
    'C20': dict(
        level='model_checking',
        text='CrossHair on the real metadata writer / reader and RF reader over in-memory h5py / os stand-ins that log opens, closes and mutating '
             'calls: when write() returns every file it opened is closed and every group exists; a reader created before a write and one created '
             'after both report the new sample at once (bounds, range read, read_latest; no cached state); constructing a metadata reader, '
             'reading metadata, RF reads, bounds and get_digital_metadata mutate nothing on a valid tree (the only deleting branches are shown '
             'to require an unreadable old file, or the documented accept_empty=False mode). A real tree is hashed before and after queries.',
        note='Trusted: CrossHair/z3, the stand-ins. Interleavings are at call granularity as the property states.',
        technique='CrossHair symbolic execution of the real Python functions with logging I/O stand-ins',
        design_ref='DESIGN.md section 4 C20'),
    'C09': dict(
        level='other',
        text='Claimed by reduction, not by schedule exploration: free-running two-process schedules are not enumerated. The property is reduced '
             'to premises under which the schedule does not matter, each decided by a solver on the real code: (i) on every prefix of every '
             'write-path trace (E-LL, see C02) the set of finalized files only grows, each is complete and never touched again, a finalized '
             'name is never created or renamed over even when files of earlier sessions exist; (ii) CrossHair confirms that a reader pass '
             'opens only files readable at that moment, skips vanished / unreadable ones without raising (reads, bounds, listings with a '
             'vanishing subdirectory) and returns exactly the blocks of the files it opened; (iii) z3 regex emptiness: tmp. names are outside '
             'every reader / lister grammar. Hence any reader pass returns Blocks(F) for some F_before <= F <= F_after, monotone in time.',
        note='Trusted: the reduction argument itself, atomic rename, H5Fclose completing the file, z3, CrossHair, stubs.',
        technique='reduction to protocol obligations (symbolic execution of LLVM IR, z3) + CrossHair on the reader + z3 regex emptiness',
        design_ref='DESIGN.md section 4 C09'),
    'C11': dict(
        level='model_checking',
        text='digital_rf_handle_metadata (verify branch) is executed from IR with all 12 stored attributes and all writer parameters symbolic: the '
             'session is accepted iff all are equal, any mismatch refuses it, and no mutating operation is issued either way. The write path is '
             'executed on a channel where the existence of every finalized file name is an arbitrary boolean: a data file is created only if '
             'its final name was seen absent, a tmp file is renamed only onto that name, a write needing a finalized period is rejected '
             'without a fatal failure and later free periods stay writable. CrossHair confirms the reader merge across top-level directories '
             '(bounds = min/max over directories with data; one read accumulates all directories; adjacent blocks merge). A real two-session '
             'recording validates refusal, unchanged bytes, continued usability and parameter mismatch.',
        note='Trusted: z3, IR executor, stubs (H5F_ACC_EXCL on the tmp name), CrossHair.',
        technique='symbolic execution of LLVM IR to SMT (z3) with symbolic file-system state + CrossHair on the reader',
        design_ref='DESIGN.md section 4 C11'),
}

NOT_YET = 'check not built yet in this revision of /verif (planned, see DESIGN.md section 4)'
NA = {}


def main():
    checks = []
    for pid in ALL:
        c = CHECKS.get(pid)
        if not c: continue
        e = dict(property_id=pid, quick_cmd='./check %s quick' % pid, thorough_cmd='./check %s thorough' % pid,
                 evidence_file='/verif/evidence/%s.json' % pid, replay_cmd_template='./check %s --replay {path}' % pid,
                 engine='vlib', level_claimed=dict(category=c['level'], text=c['text'], design_ref=c['design_ref']),
                 level_note=c['note'], technique=c['technique'])
        checks.append(e)
    na = [dict(property_id=pid, reason=NA.get(pid, NOT_YET)) for pid in ALL if pid not in CHECKS]
    man = dict(
        version=1,
        setup_cmd='sh /verif/setup.sh',
        hooks=dict(guard='DIGITAL_RF_VERIF', enable='none needed: checks read /repo source and IR and replay through the public API / ctypes',
                   baseline_off_cmd='cd /repo && /venv/bin/python -m pytest -ra -q -p no:cacheprovider --timeout=900 --continue-on-collection-errors',
                   source_commits=[], add_only=True),
        engines=[dict(name='vlib', path='/verif/vlib', serves_properties=sorted(CHECKS),
                      kind_free_text='solver-based checking of the real code: LLVM-IR symbolic executor -> z3 (llsym), CrossHair on the real '
                                     'Python functions with I/O stubs, Python re -> z3 regex, IEEE rounding as LIA; counterexamples replayed on '
                                     'the real build')],
        checks=checks,
        notes='exit 0 = all obligations discharged within stated bounds; exit 1 = replay-confirmed violation; exit 2 = inconclusive/harness error. '
              'Known findings: /verif/known_findings.json.',
        not_applicable=na)
    with open(os.path.join(HERE, 'MANIFEST.json'), 'w') as f:
        json.dump(man, f, indent=1)
    print('MANIFEST.json: %d checks, %d not applicable' % (len(checks), len(na)))


if __name__ == '__main__':
    main()
