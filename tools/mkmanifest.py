#!/usr/bin/env python3
"""Generate /verif/MANIFEST.json from the table below (kept in one place so it stays valid and consistent)."""
import json, os, sys

HERE = os.path.dirname(os.path.dirname(os.path.abspath(__file__)))
ALL = ['C%02d' % i for i in range(1, 21)]

# property -> dict(level, text, note, technique, design_ref, thorough(bool))
CHECKS = {
    'C03': dict(
        level='proof',
        text='Bounded-domain proof by symbolic execution of the real LLVM IR of digital_rf_get_timestamp_floor / '
             'digital_rf_get_sample_ceil / digital_rf_get_unix_time_rational with index, numerator and denominator all symbolic over the '
             'full word domain of the property (k<2^63, n<2^32, d<=1e9, n*d<2^64, year<9999): z3 shows second/picosecond/ceil equal the exact '
             'rational values and that no 64-bit operation wraps; monotonicity and the inverse law are decided per concrete rate (linear twin, '
             'complete). The Python wrapper int(ps/1e6) is decided with an exact IEEE round-to-nearest-even encoding in LIA. Loop-free code, so '
             'no unwinding bound is involved.',
        note='Trusted: z3, the IR executor (vlib/llsym.py; validated each run against the real build on seeded inputs and solver witnesses via '
             'ctypes), libc gmtime / CPython datetime calendar arithmetic, PyArg_ParseTuple glue.',
        technique='symbolic execution of LLVM IR to SMT (z3 Int/NIA with Euclid variables; per-rate LIA twins; IEEE RNE as LIA)',
        design_ref='DESIGN.md section 4 C03'),
    'C04': dict(
        level='model_checking',
        text='Symbolic execution of the real IR of digital_rf_get_subdir_file (time kernels replaced by their specifications only after those '
             'are re-proved on the same IR in the same run) with rate numerator/denominator, both cadences, start index and sample index ALL '
             'symbolic: z3 shows, by division-free characterisations of exact rational time, that the calendar second handed to gmtime and the '
             'S.mmm of the basename are the cadence-aligned floors of the exact sample time, that samples_left / max_samples_this_file delimit '
             'exactly the samples whose exact time lies in the file window, that the error return is unreachable and nothing wraps. Complete '
             'linear twins per (rate, cadence) configuration (incl. rates >= 1e9 Hz with 1 ms files) back the NIA queries. The cadence rule is '
             'decided on both constructors (C: IR execution with float instructions havoc; Python: guard conditions read from the AST, '
             'equivalence by z3).',
        note='Trusted: z3, vlib/llsym.py IR semantics, gmtime injectivity/calendar, snprintf model driven by the format constants in the IR. '
             'Witnesses incl. first/last sample of a file and seeded boundary cases are replayed on the real build through ctypes.',
        technique='symbolic execution of LLVM IR to SMT (z3 NIA/LIA, Euclid variables, compositional summaries) + AST-to-SMT for the Python guard',
        design_ref='DESIGN.md section 4 C04'),
}

NOT_YET = 'check not built yet in this revision of /verif (planned, see DESIGN.md section 4)'
NA = {}


def main():
    checks = []
    for pid in ALL:
        c = CHECKS.get(pid)
        if not c: continue
        e = dict(property_id=pid, quick_cmd='./check %s quick' % pid, thorough_cmd='./check %s thorough' % pid,
                 evidence_file='/verif/evidence/%s.json' % pid, replay_cmd_template='./check %s --replay {path}' % pid,
                 engine='vlib', level_claimed=dict(category=c['level'], text=c['text'], design_ref=c['design_ref']),
                 level_note=c['note'], technique=c['technique'])
        checks.append(e)
    na = [dict(property_id=pid, reason=NA.get(pid, NOT_YET)) for pid in ALL if pid not in CHECKS]
    man = dict(
        version=1,
        setup_cmd='sh /verif/setup.sh',
        hooks=dict(guard='DIGITAL_RF_VERIF', enable='none needed: checks read /repo source and IR and replay through the public API / ctypes',
                   baseline_off_cmd='cd /repo && /venv/bin/python -m pytest -ra -q -p no:cacheprovider --timeout=900 --continue-on-collection-errors',
                   source_commits=[], add_only=True),
        engines=[dict(name='vlib', path='/verif/vlib', serves_properties=sorted(CHECKS),
                      kind_free_text='solver-based checking of the real code: LLVM-IR symbolic executor -> z3 (llsym), CrossHair on the real '
                                     'Python functions with I/O stubs, Python re -> z3 regex, IEEE rounding as LIA; counterexamples replayed on '
                                     'the real build')],
        checks=checks,
        notes='exit 0 = all obligations discharged within stated bounds; exit 1 = replay-confirmed violation; exit 2 = inconclusive/harness error. '
              'Known findings: /verif/known_findings.json.',
        not_applicable=na)
    with open(os.path.join(HERE, 'MANIFEST.json'), 'w') as f:
        json.dump(man, f, indent=1)
    print('MANIFEST.json: %d checks, %d not applicable' % (len(checks), len(na)))


if __name__ == '__main__':
    main()
