#!/verif/.venv/bin/python
"""development helper: run only the inductive-step configurations of the thorough tier (valid, rejection, fault) and print their cost"""
import sys, os, time
sys.path.insert(0, os.path.dirname(os.path.dirname(os.path.abspath(__file__))))
from vlib import wrun
from checks import wcommon
specs = [s for s in wcommon.valid_specs('thorough') + wcommon.reject_specs('thorough') + wcommon.fault_specs('thorough') if s.get('pre') == 'open']
quick = set(s['name'] for s in wcommon.valid_specs('quick') + wcommon.reject_specs('quick') + wcommon.fault_specs('quick'))
specs = [s for s in specs if s['name'] not in quick]
print(len(specs), 'configurations', flush=True)
t0 = time.time()
res = wrun.run_all(specs)
for sp, r in sorted(zip(specs, res), key=lambda x: -x[1]['wall']):
    bad = [nm[:60] for nm, (v, m) in r['results'].items() if v != 'unsat']
    print('%7.1fs paths=%5d %s %s %s' % (r['wall'], r['paths'], sp['name'], 'ERR ' + r['error'][-200:] if r['error'] else '', bad), flush=True)
print('total wall', time.time() - t0)
