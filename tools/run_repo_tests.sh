#!/bin/sh
# Run the pinned test suite against /repo's *sources* (the suite normally imports the copy installed in /venv, which
# never sees edits to /repo): package = /repo/python/digital_rf + extension rebuilt from /repo, version file from the install.
set -e
D=$(mktemp -d /tmp/drf-srctest-XXXXXX)
trap 'rm -rf "$D"' EXIT
cd /verif && VERIF_SCRATCH_BASE="$D" .venv/bin/python - "$D" <<'PY'
import sys, shutil, glob; sys.path.insert(0, '/verif')
from vlib import build
d = build.build_ext()
shutil.copytree(build.PYPKG, sys.argv[1] + '/pkg/digital_rf')
for f in glob.glob(d + '/_py_rf_write_hdf5*.so'): shutil.copy(f, sys.argv[1] + '/pkg/digital_rf/')
shutil.copy('/venv/lib/python3.12/site-packages/digital_rf/_version.py', sys.argv[1] + '/pkg/digital_rf/_version.py')
PY
cd /repo && PYTHONPATH="$D/pkg" /venv/bin/python -m pytest -ra -q -p no:cacheprovider --timeout=900 --continue-on-collection-errors "$@" | tail -5
