"""E-RX: Python `re` pattern -> z3 regular expression (continuation-passing translation handling what occurs in digital_rf:
literals, classes, bounded/unbounded repeats, groups, alternation, negative lookahead, `$`, prefix `match`, re.IGNORECASE).
Every question is posed as emptiness of ONE string variable in a regex (z3's derivative-based procedure answers in milliseconds)."""
import re, time
import z3
try:
    import re._parser as sre_parse, re._constants as sc
except ImportError:           # python < 3.11
    import sre_parse, sre_constants as sc

RS = z3.ReSort(z3.StringSort())
ANYCHAR = z3.AllChar(RS)
SIGSTAR = z3.Full(RS)
EPS = z3.Re("")
NL = z3.Re("\n")


def lit(c, icase):
    ch = chr(c)
    if icase and ch.lower() != ch.upper():
        return z3.Union(z3.Re(ch.lower()), z3.Re(ch.upper()))
    return z3.Re(ch)


def charset(items, icase):
    parts = []; neg = False
    for op, av in items:
        if op == sc.NEGATE: neg = True
        elif op == sc.LITERAL: parts.append(lit(av, icase))
        elif op == sc.RANGE:
            lo, hi = chr(av[0]), chr(av[1])
            r = z3.Range(lo, hi)
            if icase and (lo.isalpha() or hi.isalpha()):
                r = z3.Union(r, z3.Range(lo.lower(), hi.lower()), z3.Range(lo.upper(), hi.upper()))
            parts.append(r)
        elif op == sc.CATEGORY:
            if av == sc.CATEGORY_DIGIT: parts.append(z3.Range('0', '9'))
            elif av == sc.CATEGORY_NOT_DIGIT: parts.append(z3.Intersect(ANYCHAR, z3.Complement(z3.Range('0', '9'))))
            else: raise NotImplementedError('category %r' % (av,))
        else:
            raise NotImplementedError('class item %r' % (op,))
    r = parts[0] if len(parts) == 1 else z3.Union(*parts)
    if neg: r = z3.Intersect(ANYCHAR, z3.Complement(r))
    return r


def T(seq, K, icase):
    """regex for: seq followed by continuation K"""
    seq = list(seq)
    if not seq: return K
    (op, av), rest = seq[0], seq[1:]
    if op == sc.LITERAL: return z3.Concat(lit(av, icase), T(rest, K, icase))
    if op == sc.NOT_LITERAL: return z3.Concat(z3.Intersect(ANYCHAR, z3.Complement(lit(av, icase))), T(rest, K, icase))
    if op == sc.ANY: return z3.Concat(z3.Intersect(ANYCHAR, z3.Complement(NL)), T(rest, K, icase))
    if op == sc.IN: return z3.Concat(charset(av, icase), T(rest, K, icase))
    if op == sc.SUBPATTERN:
        return T(list(av[3]) + rest, K, icase)
    if op == sc.BRANCH:
        return z3.Union(*[T(list(b) + rest, K, icase) for b in av[1]])
    if op in (sc.MAX_REPEAT, sc.MIN_REPEAT):
        lo, hi, sub = av
        body = T(list(sub), EPS, icase)       # no lookaround inside repeats in these patterns
        if hi == sc.MAXREPEAT:
            r = z3.Concat(*([body] * lo + [z3.Star(body)])) if lo > 0 else z3.Star(body)
        else:
            r = z3.Loop(body, lo, hi)
        return z3.Concat(r, T(rest, K, icase))
    if op == sc.ASSERT_NOT:
        direction, sub = av
        if direction != 1: raise NotImplementedError('lookbehind')
        X = T(list(sub), SIGSTAR, icase)
        return z3.Intersect(T(rest, K, icase), z3.Complement(X))
    if op == sc.ASSERT:
        direction, sub = av
        if direction != 1: raise NotImplementedError('lookbehind')
        return z3.Intersect(T(rest, K, icase), T(list(sub), SIGSTAR, icase))
    if op == sc.AT:
        if av == sc.AT_END:          # $ : at the end, or just before a final newline
            return z3.Intersect(T(rest, K, icase), z3.Union(EPS, NL))
        if av == sc.AT_END_STRING:
            return z3.Intersect(T(rest, K, icase), EPS)
        raise NotImplementedError('anchor %r' % (av,))
    raise NotImplementedError('regex op %r' % (op,))


def match_lang(pattern, flags=0):
    """language of the strings s for which re.compile(pattern, flags).match(s) succeeds (prefix match)"""
    p = sre_parse.parse(pattern, flags)
    seq = list(p)
    if seq and seq[0] == (sc.AT, sc.AT_BEGINNING): seq = seq[1:]
    return T(seq, SIGSTAR, bool(flags & re.I))


def fullmatch_lang(pattern, flags=0):
    p = sre_parse.parse(pattern, flags)
    seq = list(p)
    if seq and seq[0] == (sc.AT, sc.AT_BEGINNING): seq = seq[1:]
    return T(seq, EPS, bool(flags & re.I))


def empty(regex, timeout_s=60, stats=None):
    """-> ('unsat', None) if the language is empty, ('sat', witness string), or ('unknown', None)"""
    p = z3.String('p')
    s = z3.Solver(); s.set('timeout', int(timeout_s * 1000)); s.add(z3.InRe(p, regex))
    t0 = time.time(); r = s.check(); dt = time.time() - t0
    if stats is not None: stats.add(dt)
    if r == z3.sat:
        v = s.model()[p]
        return 'sat', v.as_string() if v is not None else ''
    return ('unsat', None) if r == z3.unsat else ('unknown', None)


def unescape(zs):
    """z3 string literal escapes (\\u{..}) -> python str"""
    return re.sub(r'\\u\{([0-9a-fA-F]+)\}', lambda m: chr(int(m.group(1), 16)), zs)
