"""E-LL: path-forking symbolic executor for clang-14 -O0 + mem2reg typed-pointer LLVM IR  ->  z3 Int.

Values   : python int (concrete, canonical unsigned in [0,2^N)) | z3 ArithRef (same range) | bool / z3 BoolRef for i1
           Ptr(region, path) for pointers | FPV for floating point (havoc: no FP reasoning) | SymStr for char buffers
Memory   : region -> {path-key: value}; unknown int cells are created lazily as fresh symbolic values
Division : by constant -> z3 div/mod; by symbolic divisor -> shared Euclid variables  a = q*b + r, 0 <= r < b
Overflow : add/sub wrap with ite; mul is the plain product when the solver proves a*b < 2^N under the path condition,
           (a*b) mod 2^N otherwise
Explore  : DFS by re-execution with a decision prefix; a z3 solver decides branch feasibility (incremental, with a
           fresh non-incremental fallback on `unknown`)
C assert / exit / unreachable / NULL dereference / division by possibly-zero end the path with an AssertFail verdict.
"""
import re, time, itertools, functools
import z3


def M(bits):
    return 1 << bits


# ----------------------------------------------------------------------------- parsing helpers

def split_top(s, sep=','):
    out, depth, cur = [], 0, []
    i, n = 0, len(s)
    while i < n:
        c = s[i]
        if c == '"':
            j = s.index('"', i + 1)
            cur.append(s[i:j + 1]); i = j + 1; continue
        if c in '([{<':
            depth += 1
        elif c in ')]}>':
            depth -= 1
        if c == sep and depth == 0:
            out.append(''.join(cur).strip()); cur = []
        else:
            cur.append(c)
        i += 1
    if cur:
        t = ''.join(cur).strip()
        if t:
            out.append(t)
    return out


class Ty:
    __slots__ = ('kind', 'bits', 'to', 'n', 'elem', 'name', 'fields')

    def __init__(self, kind, bits=None, to=None, n=None, elem=None, name=None, fields=None):
        self.kind, self.bits, self.to, self.n, self.elem, self.name, self.fields = kind, bits, to, n, elem, name, fields

    def __repr__(self):
        k = self.kind
        if k == 'int': return 'i%d' % self.bits
        if k == 'ptr': return repr(self.to) + '*'
        if k == 'arr': return '[%d x %r]' % (self.n, self.elem)
        if k == 'struct': return self.name or '{...}'
        return k


FLOAT_KINDS = ('float', 'double', 'x86_fp80', 'fp128', 'half')


@functools.lru_cache(maxsize=None)
def parse_type(s):
    s = s.strip()
    stars = 0
    while s.endswith('*'):
        s = s[:-1].strip(); stars += 1
    if s.endswith(')') and not s.startswith('('):
        t = Ty('func')
    elif re.fullmatch(r'i\d+', s):
        t = Ty('int', bits=int(s[1:]))
    elif s in FLOAT_KINDS or s in ('void', 'label', 'metadata'):
        t = Ty(s)
    elif s.startswith('['):
        m = re.fullmatch(r'\[(\d+) x (.*)\]', s)
        t = Ty('arr', n=int(m.group(1)), elem=parse_type(m.group(2)))
    elif s.startswith('%'):
        t = Ty('struct', name=s)
    elif s.startswith('{'):
        t = Ty('struct', fields=tuple(parse_type(x) for x in split_top(s[1:-1].strip())))
    elif s == '...':
        t = Ty('vararg')
    else:
        raise ValueError('type? ' + s)
    for _ in range(stars):
        t = Ty('ptr', to=t)
    return t


ATTRS = r'\b(noundef|nocapture|readonly|writeonly|noalias|nonnull|signext|zeroext|returned|immarg|align \d+|dereferenceable\(\d+\))\b'


class Instr:
    __slots__ = ('dest', 'op', 'text', 'dec')

    def __init__(self, dest, op, text):
        self.dest, self.op, self.text, self.dec = dest, op, text, None


class Func:
    def __init__(self, name, params, ret):
        self.name, self.params, self.ret = name, params, ret
        self.blocks = {}; self.entry = None


class Module:
    def __init__(self, text):
        self.structs = {}; self.globals = {}; self.funcs = {}; self.decls = set()
        self._parse(text)

    def _parse(self, text):
        lines = text.split('\n')
        i = 0
        while i < len(lines):
            ln = lines[i]
            m = re.match(r'(%[\w.]+) = type (.*)$', ln)
            if m:
                body = m.group(2).strip()
                self.structs[m.group(1)] = body if body.startswith('{') else None
                i += 1; continue
            m = re.match(r'(@[\w.$]+) = (.*)$', ln)
            if m:
                self.globals[m.group(1)] = m.group(2); i += 1; continue
            m = re.match(r'declare .*?(@[\w.$]+)\(', ln)
            if m:
                self.decls.add(m.group(1)); i += 1; continue
            m = re.match(r'define (.*?)(@[\w.$]+)\((.*)\) .*\{$', ln)
            if m:
                retty = re.sub(r'\b(dso_local|internal)\b', '', re.sub(ATTRS, '', m.group(1))).strip()
                params = []
                for p in split_top(m.group(3)):
                    if not p or p == '...': continue
                    name = p.split()[-1]
                    tyS = re.sub(ATTRS, '', p[:p.rindex(name)]).strip()
                    params.append((tyS, name))
                f = Func(m.group(2), params, retty)
                i += 1
                label = None
                while lines[i] != '}':
                    ln = lines[i]
                    mm = re.match(r'([\w.]+):', ln)
                    if mm:
                        label = mm.group(1); f.blocks[label] = []
                        if f.entry is None: f.entry = label
                    elif ln.strip() and not ln.lstrip().startswith(';'):
                        if label is None:
                            label = str(len(params)); f.blocks[label] = []; f.entry = label
                        t = ln.strip()
                        while t.endswith('['):
                            i += 1
                            while lines[i].strip() != ']':
                                t += ' ' + lines[i].strip(); i += 1
                            t += ']'
                        t = re.sub(r', ![\w.]+ !\d+', '', t)
                        md = re.match(r'(%[\w.]+) = (.*)$', t)
                        dest, rest = (md.group(1), md.group(2)) if md else (None, t)
                        rest = re.sub(r'^(tail |musttail |notail )', '', rest)
                        f.blocks[label].append(Instr(dest, rest.split()[0], rest))
                    i += 1
                self.funcs[f.name] = f
            i += 1

    def struct_fields(self, name):
        body = self.structs[name]
        return [parse_type(x) for x in split_top(body.strip()[1:-1].strip())]


# ----------------------------------------------------------------------------- values

class Ptr:
    __slots__ = ('region', 'path')

    def __init__(self, region, path=()):
        self.region, self.path = region, tuple(path)

    def __repr__(self):
        return 'Ptr(%s,%s)' % (self.region, self.path)

    def __eq__(self, o):
        return isinstance(o, Ptr) and self.region == o.region and len(self.path) == len(o.path) and \
            all(_same(a, b) for a, b in zip(self.path, o.path))

    def __hash__(self):
        return hash(self.region)


NULL = Ptr(None)


def _same(a, b):
    if isinstance(a, int) and isinstance(b, int): return a == b
    if isinstance(a, (int, str)) or isinstance(b, (int, str)):
        if isinstance(a, str) or isinstance(b, str): return a == b
    try:
        d = z3.simplify(a - b)
        return z3.is_int_value(d) and d.as_long() == 0
    except Exception:
        return a is b


class FPV:
    """opaque floating point value (havoc)"""
    __slots__ = ('tag',)

    def __init__(self, tag): self.tag = tag

    def __repr__(self): return 'FP<%s>' % (self.tag,)


class SymStr:
    """abstract C string: list of parts; part = python str | ('d', term, width) | ('opaque', id, 0)"""

    def __init__(self, parts=()):
        self.parts = list(parts)

    def copy(self): return SymStr(self.parts)

    def __repr__(self):
        return 'S<' + ''.join(p if isinstance(p, str) else '{%s:%s}' % (p[1], p[2]) for p in self.parts) + '>'

    def norm(self):
        out = []
        for p in self.parts:
            if isinstance(p, str):
                if p == '': continue
                if out and isinstance(out[-1], str): out[-1] += p
                else: out.append(p)
            else:
                out.append(p)
        self.parts = out
        return self

    def is_concrete(self):
        return all(isinstance(p, str) for p in self.parts)

    def text(self):
        return ''.join(self.parts)


class PathEnd(Exception): pass
class Infeasible(Exception): pass
class AssertFail(Exception): pass
class Inconclusive(Exception): pass


def zid(t):
    return t if isinstance(t, (int, str, bool)) else ('z', t.get_id())


# ----------------------------------------------------------------------------- executor

class Exec:
    def __init__(self, mod, stubs, summaries=None, max_steps=400000, timeout_ms=4000, fallback_ms=120000):
        self.mod, self.stubs, self.summaries = mod, stubs, dict(summaries or {})
        self.max_steps, self.timeout_ms, self.fallback_ms = max_steps, timeout_ms, fallback_ms
        self.nq = 0; self.tq = 0.0; self.nfallback = 0; self.npaths = 0; self.ndecisions = 0
        self._keep = []

    # ---- exploration driver
    def explore(self, fname, setup, on_path, max_paths=200000, deadline=None):
        """setup(ex) -> args; on_path(ex, status, ret) called at the end of every feasible path
        (status 'ret' | 'assert_fail'). Returns number of paths."""
        todo = [[]]
        npaths = 0
        while todo:
            if deadline is not None and time.time() > deadline:
                raise Inconclusive('exploration deadline in %s after %d paths' % (getattr(fname, '__name__', fname), npaths))
            prefix = todo.pop()
            self.reset(prefix)
            try:
                args = setup(self)
                ret = fname(self, args) if callable(fname) else self.call(fname, args)
                status = 'ret'
            except AssertFail as e:
                ret = str(e); status = 'assert_fail'
            except Infeasible:
                todo.extend(self.new_alts)      # alternatives discovered before the path was cut are still explored
                continue
            todo.extend(self.new_alts)
            npaths += 1; self.npaths += 1
            on_path(self, status, ret)
            if npaths >= max_paths:
                raise Inconclusive('path budget %d exhausted in %s' % (max_paths, getattr(fname, '__name__', fname)))
        return npaths

    def reset(self, prefix=()):
        self.solver = z3.Solver(); self.solver.set('timeout', self.timeout_ms)
        self.mem = {}; self.region_n = 0; self.events = []; self.decisions = list(prefix); self.dpos = 0
        self.steps = 0; self.fresh_n = 0; self.pc = []; self.euclid = {}; self.new_alts = []
        self.env = None; self.user = {}; self._keep = []; self.notes = []; self.ovf = []

    # ---- solver helpers
    def assume(self, c):
        if c is True: return
        if c is False: raise Infeasible()
        self.solver.add(c); self.pc.append(c)

    def check(self, extra=None):
        """-> z3.sat / z3.unsat ; raises Inconclusive on unknown"""
        self.nq += 1; t0 = time.time()
        if extra is not None:
            self.solver.push(); self.solver.add(extra)
        r = self.solver.check()
        if extra is not None:
            self.solver.pop()
        if r == z3.unknown:
            from .smt import robust_check
            r, s2 = robust_check(self.pc + ([extra] if extra is not None else []), self.fallback_ms / 1000.0); self.nfallback += 1
            if r == z3.unknown:
                self.tq += time.time() - t0
                raise Inconclusive('solver unknown: ' + s2.reason_unknown())
        self.tq += time.time() - t0
        return r

    def sat(self, extra=None):
        return self.check(extra) == z3.sat

    def model(self, extra=None):
        """model of path condition (+extra) or None"""
        from .smt import robust_check
        self.nq += 1; t0 = time.time()
        r, s2 = robust_check(self.pc + ([extra] if extra is not None else []), self.fallback_ms / 1000.0); self.tq += time.time() - t0
        if r == z3.sat: return s2.model()
        if r == z3.unknown: raise Inconclusive('solver unknown (model): ' + s2.reason_unknown())
        return None

    def valid(self, claim):
        """True iff claim holds on every model of the path condition"""
        if claim is True: return True
        if claim is False: return not self.sat()
        return not self.sat(z3.Not(claim))

    def fresh(self, name, bits=64):
        self.fresh_n += 1
        v = z3.Int('%s!%d' % (name, self.fresh_n))
        self.assume(z3.And(v >= 0, v < M(bits)))
        return v

    def fresh_bool(self, name):
        self.fresh_n += 1
        return z3.Bool('%s!%d' % (name, self.fresh_n))

    def decide(self, cond):
        """branch on z3 Bool / python bool; returns python bool (forks the exploration)"""
        if isinstance(cond, bool): return cond
        cond = z3.simplify(cond)
        if z3.is_true(cond): return True
        if z3.is_false(cond): return False
        if self.dpos < len(self.decisions):
            d = self.decisions[self.dpos]; self.dpos += 1
            self.assume(cond if d else z3.Not(cond))
            return d
        self.ndecisions += 1
        t_ok = self.sat(cond)
        f_ok = self.sat(z3.Not(cond)) if t_ok else True
        if t_ok and f_ok:
            self.new_alts.append(self.decisions[:self.dpos] + [False])
            self.decisions.append(True); self.dpos += 1
            self.assume(cond); return True
        if t_ok:
            self.decisions.append(True); self.dpos += 1
            self.assume(cond); return True
        self.decisions.append(False); self.dpos += 1
        self.assume(z3.Not(cond)); return False

    # ---- memory
    def new_region(self, kind, ty=None, init=None):
        self.region_n += 1
        rid = '%s#%d' % (kind, self.region_n)
        self.mem[rid] = {'ty': ty, 'cells': dict(init or {})}
        return rid

    def key(self, path):
        out = []
        for p in path:
            if isinstance(p, (int, str)): out.append(p)
            else:
                p = z3.simplify(p)
                if z3.is_int_value(p): out.append(p.as_long())
                else:
                    self._keep.append(p); out.append(('z', p.get_id()))
        return tuple(out)

    def load(self, ptr, ty=None):
        if not isinstance(ptr, Ptr): raise AssertFail('load through non-pointer %r' % (ptr,))
        if ptr.region is None: raise AssertFail('null deref load')
        cells = self.mem[ptr.region]['cells']
        k = self.key(ptr.path)
        if k not in cells:
            cells[k] = self.default_value(ptr, ty, k)
        return cells[k]

    def store(self, ptr, val):
        if not isinstance(ptr, Ptr): raise AssertFail('store through non-pointer')
        if ptr.region is None: raise AssertFail('null deref store')
        self.mem[ptr.region]['cells'][self.key(ptr.path)] = val

    def peek(self, region, path, default=None):
        return self.mem[region]['cells'].get(self.key(path), default)

    def default_value(self, ptr, ty, k):
        nm = 'm_%s_%s' % (ptr.region, '_'.join(str(x) for x in k))
        if ty is None: return self.fresh(nm, 64)
        if ty.kind == 'int':
            if ty.bits == 1: return self.fresh_bool(nm)
            return self.fresh(nm, ty.bits)
        if ty.kind == 'ptr': return NULL
        if ty.kind in FLOAT_KINDS: return FPV(nm)
        raise RuntimeError('default for %r at %r' % (ty, ptr))

    # ---- ints
    # ovf_mode 'wrap': exact modular semantics.  'obligation': the plain result is used and a no-wrap proof
    # obligation (text, condition) is recorded in self.ovf for the harness to discharge (sound only if all are).
    ovf_mode = 'wrap'
    euclid_const = True     # constant divisors also get Euclid variables (linear; much easier for z3 than div/mod terms)

    def wrap_add(self, a, b, bits):
        if isinstance(a, int) and isinstance(b, int): return (a + b) % M(bits)
        s = a + b
        if self.ovf_mode == 'obligation':
            self.ovf.append(('add', s < M(bits))); return s
        if self.ovf_mode == 'lazy' and not self.sat(s >= M(bits)): return s
        return z3.If(s < M(bits), s, s - M(bits))

    def wrap_sub(self, a, b, bits):
        if isinstance(a, int) and isinstance(b, int): return (a - b) % M(bits)
        if self.ovf_mode == 'obligation':
            self.ovf.append(('sub', a >= b)); return a - b
        if self.ovf_mode == 'lazy' and not self.sat(a < b): return a - b
        return z3.If(a >= b, a - b, a - b + M(bits))

    def wrap_mul(self, a, b, bits):
        if isinstance(a, int) and isinstance(b, int): return (a * b) % M(bits)
        p = a * b
        if self.ovf_mode == 'obligation':
            self.ovf.append(('mul', p < M(bits))); return p
        if isinstance(a, int) and a == 0 or isinstance(b, int) and b == 0: return 0
        if not self.sat(p >= M(bits)):
            return p
        self.notes.append(('mul_may_wrap', bits))
        return p % M(bits)

    def udivrem(self, a, b):
        if isinstance(a, int) and isinstance(b, int):
            if b == 0: raise AssertFail('div by zero')
            return a // b, a % b
        if isinstance(b, int):
            if b == 0: raise AssertFail('div by zero')
            if not self.euclid_const:
                return a / b, a % b
        elif self.sat(b == 0): raise AssertFail('possible div by zero')
        k = (zid(a), zid(b))
        if k not in self.euclid:
            self.fresh_n += 1
            q = z3.Int('q!%d' % self.fresh_n); r = z3.Int('r!%d' % self.fresh_n)
            self.assume(z3.And(a == q * b + r, r >= 0, r < b, q >= 0))
            self.euclid[k] = (q, r, a, b)
        return self.euclid[k][0], self.euclid[k][1]

    def signed(self, a, bits):
        if isinstance(a, int): return a - M(bits) if a >= M(bits - 1) else a
        return z3.If(a >= M(bits - 1), a - M(bits), a)

    def unsigned(self, a, bits):
        if isinstance(a, int): return a % M(bits)
        return z3.If(a < 0, a + M(bits), a)

    # ---- operands (decoded once per instruction)
    def dec_operand(self, tyS, tok):
        tok = tok.strip()
        if tok.startswith('%'):
            return lambda env, _n=tok: env[_n]
        if tok == 'null': return lambda env: NULL
        if tok == 'true': return lambda env: True
        if tok == 'false': return lambda env: False
        if tok in ('undef', 'poison', 'zeroinitializer'): return lambda env: 0
        ty = parse_type(tyS)
        if re.fullmatch(r'-?\d+', tok):
            v = int(tok)
            if ty.kind == 'int':
                v = v % M(ty.bits)
                if ty.bits == 1: v = bool(v)
            return lambda env, _v=v: _v
        if tok.startswith('@'):
            return lambda env, _n=tok: self.global_ptr(_n)
        if tok.startswith('getelementptr'):
            m = re.match(r'getelementptr (inbounds )?\((.*)\)$', tok)
            parts = split_top(m.group(2))
            base_ty = parse_type(parts[0])
            bt, bv = parts[1].rsplit(' ', 1)
            base = self.dec_operand(bt, bv)
            idx = [self.dec_operand(*p.rsplit(' ', 1)) for p in parts[2:]]
            return lambda env: self.gep(base(env), base_ty, [i(env) for i in idx])
        if tok.startswith('bitcast'):
            m = re.match(r'bitcast \((.*) to (.*)\)$', tok)
            t, v = m.group(1).rsplit(' ', 1)
            return self.dec_operand(t, v)
        if ty.kind in FLOAT_KINDS:
            return lambda env, _t=tok: FPV(('const', _t))
        raise ValueError('operand? %s %s' % (tyS, tok))

    def global_ptr(self, name):
        rid = 'G' + name
        if rid not in self.mem:
            init = self.mod.globals.get(name)
            cells = {}
            if init is not None:
                m = re.search(r'(?:constant|global) \[(\d+) x i8\] c"(.*)"', init)
                if m:
                    raw = m.group(2)
                    bs = re.sub(r'\\([0-9A-Fa-f]{2})', lambda mm: chr(int(mm.group(1), 16)), raw)
                    cells[()] = SymStr([bs.split('\0')[0]])
                    cells['bytes'] = [ord(c) for c in bs]
                else:
                    m = re.search(r'(?:constant|global) \[(\d+) x (i\d+)\] \[(.*)\]', init)
                    if m:
                        bits = int(m.group(2)[1:])
                        for k, e in enumerate(split_top(m.group(3))):
                            cells[(k,)] = int(e.split()[-1]) % M(bits)
                    else:
                        m = re.search(r'(?:constant|global) \[(\d+) x (i\d+)\] zeroinitializer', init)
                        if m:
                            for k in range(int(m.group(1))): cells[(k,)] = 0
                        else:
                            m = re.search(r'(?:constant|global) (i\d+) (-?\d+)', init)
                            if m: cells[()] = int(m.group(2)) % M(int(m.group(1)[1:]))
            self.mem[rid] = {'ty': None, 'cells': cells, 'init': init}
        return Ptr(rid)

    def gep(self, base, base_ty, idx):
        if not isinstance(base, Ptr): raise AssertFail('gep on non-pointer')
        if base.region is None:
            return NULL
        path = list(base.path)
        first = idx[0]
        if not (isinstance(first, int) and first == 0):
            if path and not isinstance(path[-1], str):
                path[-1] = path[-1] + first
            else:
                path.append(first)
        for ix in idx[1:]:
            path.append(ix)
        return Ptr(base.region, path)

    # ---- exact IEEE-754 model (opt-in: self.fp_exact) for float / double / x86_fp80.
    # A modelled value is FPV(('q', N, D)): the non-negative rational N / D (N integer term or int, D positive python int) that the
    # floating point datum holds EXACTLY.  Every operation computes the exact rational result and applies ONE round-to-nearest-even step
    # at the precision of the result type, encoded in linear integer arithmetic per binade (vlib/fprne.py), the binade chosen by forking.
    # Outside the modelled fragment (negative values, symbolic divisors, symbolic x symbolic products, NaN / infinities) results are havoc.
    FP_PREC = {'float': 24, 'double': 53, 'x86_fp80': 64}

    @staticmethod
    def fp_parse_const(tok):
        """LLVM floating point literal -> Fraction (None if not finite / not understood)"""
        from fractions import Fraction
        import struct
        try:
            if tok.startswith('0xK'):
                h = int(tok[3:], 16); se = h >> 64; mant = h & ((1 << 64) - 1)
                sign = -1 if se >> 15 else 1; e = se & 0x7fff
                if e == 0x7fff: return None
                return sign * Fraction(mant) * Fraction(2) ** ((e if e else 1) - 16383 - 63)
            if tok.startswith('0x') and len(tok) == 18:
                v = struct.unpack('>d', bytes.fromhex(tok[2:]))[0]
                return Fraction(v) if v == v and abs(v) != float('inf') else None
            if tok.startswith('0x'): return None
            return Fraction(float(tok))
        except Exception:
            return None

    def fpq(self, v):
        """(N, D) of a modelled floating point value, else None"""
        if isinstance(v, FPV) and isinstance(v.tag, tuple):
            if v.tag[0] == 'q': return v.tag[1], v.tag[2]
            if v.tag[0] == 'const':
                fr = self.fp_parse_const(v.tag[1])
                if fr is not None and fr >= 0: return fr.numerator, fr.denominator
        return None

    def fp_havoc(self, what):
        self.fresh_n += 1; return FPV('%s!%d' % (what, self.fresh_n))

    def fp_round(self, A, B, P):
        """RNE at precision P of the non-negative rational A / B  (A: int or integer term, B: positive python int)"""
        from fractions import Fraction
        from . import fprne
        if not isinstance(A, int):
            A = z3.simplify(A)
            if z3.is_int_value(A): A = A.as_long()
        if isinstance(A, int):
            q = Fraction(A, B)
            if q == 0: return FPV(('q', 0, 1))
            e = q.numerator.bit_length() - q.denominator.bit_length()
            while Fraction(2) ** e > q: e -= 1
            while Fraction(2) ** (e + 1) <= q: e += 1
            scale = Fraction(2) ** (P - 1 - e); m = q * scale; fl = m.numerator // m.denominator; rem = m - fl
            if rem > Fraction(1, 2) or (rem == Fraction(1, 2) and fl % 2 == 1): fl += 1
            r = Fraction(fl) / scale
            return FPV(('q', r.numerator, r.denominator))
        if B & (B - 1) == 0 and self.valid(A < 2 ** P):
            return FPV(('q', A, B))                 # an integer below 2^P over a power of two is representable: no rounding
        if self.decide(A == 0): return FPV(('q', 0, 1))
        lo, hi = -1100, 1100
        # binade of A/B by forking (binary search over the exponent)
        nb = B.bit_length()
        lo, hi = -nb - 2, 64 + 64 + 2
        while lo < hi:
            mid = (lo + hi + 1) // 2
            ge = (A >= (2 ** mid) * B) if mid >= 0 else (A * (2 ** (-mid)) >= B)
            if self.decide(ge): lo = mid
            else: hi = mid - 1
        Mv = self.fresh('fpM', 80)
        for c in fprne.rne_constraints(A, z3.IntVal(B), lo, P, Mv): self.assume(c)
        k = lo - P + 1
        return FPV(('q', Mv * (2 ** k), 1)) if k >= 0 else FPV(('q', Mv, 2 ** (-k)))

    def fp_binop(self, op, a, b, P):
        qa, qb = self.fpq(a), self.fpq(b)
        if qa is None or qb is None: return self.fp_havoc(op)
        (n1, d1), (n2, d2) = qa, qb
        conc2 = isinstance(n2, int); conc1 = isinstance(n1, int)
        if op == 'fadd':
            return self.fp_round(n1 * d2 + n2 * d1, d1 * d2, P)
        if op == 'fsub':
            A = n1 * d2 - n2 * d1
            if isinstance(A, int):
                return self.fp_round(A, d1 * d2, P) if A >= 0 else self.fp_havoc(op)
            return self.fp_round(A, d1 * d2, P) if self.valid(A >= 0) else self.fp_havoc(op)
        if op == 'fmul':
            if conc1 or conc2: return self.fp_round(n1 * n2, d1 * d2, P)
            return self.fp_havoc(op)
        if op == 'fdiv':
            if conc2:
                if n2 == 0: raise Inconclusive('fp division by zero')
                return self.fp_round(n1 * d2, d1 * n2, P)
            return self.fp_havoc(op)
        return self.fp_havoc(op)

    def fp_to_int(self, v):
        q = self.fpq(v)
        if q is None: return None
        n, d = q
        if d == 1: return n
        return n // d if isinstance(n, int) else n / d

    def fp_cmp(self, pred, a, b):
        qa, qb = self.fpq(a), self.fpq(b)
        if qa is None or qb is None: return None
        x, y = qa[0] * qb[1], qb[0] * qa[1]
        r = {'oeq': x == y, 'ueq': x == y, 'one': x != y, 'une': x != y, 'ogt': x > y, 'ugt': x > y, 'oge': x >= y, 'uge': x >= y,
             'olt': x < y, 'ult': x < y, 'ole': x <= y, 'ule': x <= y}.get(pred)
        return r

    # ---- calls
    def call(self, fname, args):
        if fname in self.summaries:
            return self.summaries[fname](self, *args)
        if fname in self.mod.funcs:
            return self.run(self.mod.funcs[fname], args)
        if fname in self.stubs:
            return self.stubs[fname](self, *args)
        raise Inconclusive('no stub for ' + fname)

    def run(self, f, args):
        env = {}
        for (t, n), a in zip(f.params, args):
            env[n] = a
        label, prev = f.entry, None
        while True:
            nxt = None
            for ins in f.blocks[label]:
                self.steps += 1
                if self.steps > self.max_steps: raise Inconclusive('step budget exceeded in ' + f.name)
                d = ins.dec
                if d is None or d[0] is not self:
                    try:
                        d = ins.dec = (self, self.decode(ins))
                    except Exception as e:
                        raise Inconclusive('cannot decode %s: %s (%s)' % (f.name, ins.text[:160], e))
                r = d[1](env, prev)
                if r is not None:
                    kind, v = r
                    if kind == 'br':
                        nxt = v; break
                    return v
            if nxt is None:
                raise Inconclusive('fell off block %s in %s' % (label, f.name))
            prev, label = label, nxt

    # ---- instruction decoding: returns a closure (env, prev) -> None | ('br', label) | ('ret', value)
    def decode(self, ins):
        op, t, dest = ins.op, ins.text, ins.dest
        D = self.dec_operand
        if op == 'br':
            m = re.match(r'br label %([\w.]+)$', t)
            if m:
                r = ('br', m.group(1)); return lambda env, prev: r
            m = re.match(r'br i1 (.+), label %([\w.]+), label %([\w.]+)$', t)
            c = D('i1', m.group(1)); a, b = ('br', m.group(2)), ('br', m.group(3))
            return lambda env, prev: a if self.decide(c(env)) else b
        if op == 'ret':
            if t == 'ret void': return lambda env, prev: ('ret', None)
            ty, v = t[4:].rsplit(' ', 1)
            o = D(ty, v)
            return lambda env, prev: ('ret', o(env))
        if op == 'phi':
            m = re.match(r'phi (.+?) (\[.*)$', t)
            ty = m.group(1); table = {}
            for pair in split_top(m.group(2)):
                v, lab = pair.strip()[1:-1].rsplit(',', 1)
                table[lab.strip()[1:]] = D(ty, v.strip())
            def f(env, prev):
                env[dest] = table[prev](env)
            return f
        if op in ('add', 'sub', 'mul', 'udiv', 'urem', 'and', 'or', 'xor', 'shl', 'lshr', 'ashr', 'sdiv', 'srem'):
            m = re.match(r'\w+ (?:nuw |nsw |exact )*(i\d+) (.+), (.+)$', t)
            bits = int(m.group(1)[1:])
            A, B = D(m.group(1), m.group(2)), D(m.group(1), m.group(3))
            def f(env, prev):
                a, b = A(env), B(env)
                if op == 'add': r = self.wrap_add(a, b, bits)
                elif op == 'sub': r = self.wrap_sub(a, b, bits)
                elif op == 'mul': r = self.wrap_mul(a, b, bits)
                elif op == 'udiv': r = self.udivrem(a, b)[0]
                elif op == 'urem': r = self.udivrem(a, b)[1]
                elif op in ('sdiv', 'srem') and not (isinstance(a, int) and isinstance(b, int)):
                    # signed division truncates toward zero: decided on magnitudes, the signs chosen by forking
                    sa, sb = self.signed(a, bits), self.signed(b, bits)
                    na = (sa < 0) if isinstance(sa, int) else self.decide(sa < 0)
                    nb = (sb < 0) if isinstance(sb, int) else self.decide(sb < 0)
                    ma = -sa if na else sa; mb = -sb if nb else sb
                    if isinstance(ma, int) and isinstance(mb, int):
                        if mb == 0: raise AssertFail('div by zero')
                        q, rm = ma // mb, ma % mb
                    else:
                        q, rm = self.udivrem(ma, mb)
                    if op == 'sdiv': r = self.unsigned(-q if na != nb else q, bits) if not isinstance(q, int) else ((-q if na != nb else q) % M(bits))
                    else: r = self.unsigned(-rm if na else rm, bits) if not isinstance(rm, int) else ((-rm if na else rm) % M(bits))
                elif bits == 1 and op in ('and', 'or', 'xor'):
                    if isinstance(a, bool) and isinstance(b, bool):
                        r = {'and': a and b, 'or': a or b, 'xor': a != b}[op]
                    else:
                        r = {'and': z3.And, 'or': z3.Or, 'xor': z3.Xor}[op](a, b)
                elif isinstance(a, int) and isinstance(b, int):
                    if op in ('sdiv', 'srem'):
                        sa, sb = self.signed(a, bits), self.signed(b, bits)
                        if sb == 0: raise AssertFail('div by zero')
                        q = abs(sa) // abs(sb) * (1 if (sa >= 0) == (sb >= 0) else -1)
                        r = (q if op == 'sdiv' else sa - q * sb) % M(bits)
                    else:
                        r = {'and': a & b, 'or': a | b, 'xor': a ^ b, 'shl': (a << b) % M(bits), 'lshr': a >> b,
                             'ashr': (self.signed(a, bits) >> b) % M(bits)}[op]
                elif op == 'and' and isinstance(b, int) and (b & (b + 1)) == 0:
                    r = a % (b + 1)
                elif op == 'shl' and isinstance(b, int):
                    r = (a * M(b)) % M(bits)
                elif op == 'lshr' and isinstance(b, int):
                    r = a / M(b)
                else:
                    raise Inconclusive('symbolic bit operation: ' + t)
                env[dest] = r
            return f
        if op == 'icmp':
            m = re.match(r'icmp (\w+) (.+?) ([^ ,]+), (.+)$', t)
            pred, ty = m.group(1), m.group(2)
            A, B = D(ty, m.group(3)), D(ty, m.group(4))
            pty = parse_type(ty)
            def f(env, prev):
                a, b = A(env), B(env)
                if isinstance(a, Ptr) or isinstance(b, Ptr):
                    if not (isinstance(a, Ptr) and isinstance(b, Ptr)):
                        # pointer compared with integer 0 (e.g. hid_t stored in pointer-like field) -- not expected
                        raise Inconclusive('pointer/int compare: ' + t)
                    eq = (a == b)
                    env[dest] = eq if pred == 'eq' else (not eq); return
                bits = pty.bits
                if bits == 1:
                    if isinstance(a, bool) and isinstance(b, bool):
                        env[dest] = (a == b) if pred == 'eq' else (a != b)
                    else:
                        env[dest] = (a == b) if pred == 'eq' else z3.Xor(a, b)
                    return
                if pred[0] == 's':
                    a, b = self.signed(a, bits), self.signed(b, bits)
                p = pred[-2:] if pred not in ('eq', 'ne') else pred
                if p == 'eq': r = a == b
                elif p == 'ne': r = a != b
                elif p == 'lt': r = a < b
                elif p == 'le': r = a <= b
                elif p == 'gt': r = a > b
                else: r = a >= b
                env[dest] = r
            return f
        if op in ('zext', 'sext', 'trunc', 'bitcast', 'ptrtoint', 'inttoptr'):
            m = re.match(r'\w+ (.+?) ([^ ]+) to (.+)$', t)
            fromT, V, toT = parse_type(m.group(1)), D(m.group(1), m.group(2)), parse_type(m.group(3))
            def f(env, prev):
                v = V(env)
                if op in ('bitcast', 'ptrtoint', 'inttoptr'):
                    env[dest] = v; return
                if op == 'zext':
                    if fromT.bits == 1:
                        v = (1 if v else 0) if isinstance(v, bool) else z3.If(v, z3.IntVal(1), z3.IntVal(0))
                    env[dest] = v; return
                if op == 'sext':
                    if fromT.bits == 1:
                        v = (M(toT.bits) - 1 if v else 0) if isinstance(v, bool) else z3.If(v, z3.IntVal(M(toT.bits) - 1), z3.IntVal(0))
                    else:
                        v = self.unsigned(self.signed(v, fromT.bits), toT.bits)
                    env[dest] = v; return
                # trunc
                if toT.bits == 1:
                    env[dest] = (v % 2 == 1) if not isinstance(v, int) else bool(v % 2)
                else:
                    env[dest] = v % M(toT.bits)
            return f
        if op == 'select':
            m = re.match(r'select i1 (.+?), (.+?) ([^ ,]+), (.+?) ([^ ,]+)$', t)
            C = D('i1', m.group(1)); A = D(m.group(2), m.group(3)); B = D(m.group(4), m.group(5))
            def f(env, prev):
                c, a, b = C(env), A(env), B(env)
                if isinstance(c, bool): env[dest] = a if c else b
                elif isinstance(a, (Ptr, FPV, SymStr)) or isinstance(b, (Ptr, FPV, SymStr)):
                    env[dest] = a if self.decide(c) else b
                else:
                    if isinstance(a, bool) or isinstance(b, bool) or z3.is_bool(a) or z3.is_bool(b):
                        a = z3.BoolVal(a) if isinstance(a, bool) else a
                        b = z3.BoolVal(b) if isinstance(b, bool) else b
                    env[dest] = z3.If(c, a, b)
            return f
        if op == 'alloca':
            m = re.match(r'alloca (.+?)(?:, align \d+)?$', t)
            ty = parse_type(m.group(1))
            def f(env, prev):
                env[dest] = Ptr(self.new_region('stack', ty))
            return f
        if op == 'load':
            m = re.match(r'load (?:volatile )?(.+?), (.+?) ([^ ,]+)(?:, align \d+)?$', t)
            ty = parse_type(m.group(1)); P = D(m.group(2), m.group(3))
            def f(env, prev):
                env[dest] = self.load(P(env), ty)
            return f
        if op == 'store':
            m = re.match(r'store (?:volatile )?(.+?) ([^ ,]+), (.+?) ([^ ,]+)(?:, align \d+)?$', t)
            V = D(m.group(1), m.group(2)); P = D(m.group(3), m.group(4))
            def f(env, prev):
                self.store(P(env), V(env))
            return f
        if op == 'getelementptr':
            m = re.match(r'getelementptr (?:inbounds )?(.+)$', t)
            parts = split_top(m.group(1))
            base_ty = parse_type(parts[0])
            bt, bv = parts[1].rsplit(' ', 1)
            B = D(bt, bv); I = [D(*p.rsplit(' ', 1)) for p in parts[2:]]
            def f(env, prev):
                env[dest] = self.gep(B(env), base_ty, [i(env) for i in I])
            return f
        if op == 'call':
            m = re.match(r'call (.+?) (@[\w.$]+)\((.*)\)(?: #\d+)?$', t)
            if not m: raise ValueError('call? ' + t)
            fname, argS = m.group(2), m.group(3)
            if fname.startswith('@llvm.lifetime') or fname.startswith('@llvm.dbg'):
                return lambda env, prev: None
            A = []
            for a in split_top(argS):
                if not a: continue
                a = re.sub(r'\s+', ' ', re.sub(ATTRS, '', a)).strip()
                if a.startswith('metadata'):
                    A.append(lambda env: None); continue
                mm = re.match(r'(.+?) ((?:getelementptr|bitcast) .*)$', a)
                ty, v = (mm.group(1), mm.group(2)) if mm else a.rsplit(' ', 1)
                A.append(D(ty, v))
            def f(env, prev):
                r = self.call(fname, [a(env) for a in A])
                if dest: env[dest] = r
            return f
        if op == 'switch':
            m = re.match(r'switch (i\d+) ([^ ,]+), label %([\w.]+) \[(.*)\]$', t)
            V = D(m.group(1), m.group(2)); bits = int(m.group(1)[1:])
            cases = [(int(cv) % M(bits), lab) for cv, lab in re.findall(r'i\d+ (-?\d+), label %([\w.]+)', m.group(4))]
            default = m.group(3)
            def f(env, prev):
                v = V(env)
                for cv, lab in cases:
                    if (v == cv) if isinstance(v, int) else self.decide(v == cv):
                        return ('br', lab)
                return ('br', default)
            return f
        if op == 'unreachable':
            def f(env, prev): raise AssertFail('unreachable')
            return f
        # ---- floating point: havoc by default; with self.fp_exact the IEEE operations on non-negative values are modelled exactly (see fp_round)
        if op in ('fadd', 'fsub', 'fmul', 'fdiv', 'frem', 'fneg', 'fpext', 'fptrunc', 'uitofp', 'sitofp'):
            mm = re.match(r'(\w+)( nsw| nuw| exact| fast| nnan| ninf| nsz| arcp| contract| afn| reassoc)* (.+?) ([^ ,]+)(?:, ([^ ,]+))?(?: to (.+))?$', t)
            if mm and op in ('uitofp', 'sitofp') and mm.group(6) in self.FP_PREC:
                o = D(mm.group(3), mm.group(4)); P = self.FP_PREC[mm.group(6)]; bits = parse_type(mm.group(3)).bits
                def f(env, prev):
                    if not getattr(self, 'fp_exact', False): env[dest] = self.fp_havoc(op); return
                    x = o(env)
                    if isinstance(x, bool): x = int(x)
                    if op == 'sitofp':
                        neg = (x >= 2 ** (bits - 1)) if isinstance(x, int) else (not self.valid(x < 2 ** (bits - 1)))
                        if neg: env[dest] = self.fp_havoc(op); return
                    env[dest] = self.fp_round(x, 1, P)
                return f
            if mm and op in ('fadd', 'fsub', 'fmul', 'fdiv') and mm.group(3) in self.FP_PREC:
                ty_ = mm.group(3); oa, ob = D(ty_, mm.group(4)), D(ty_, mm.group(5)); P = self.FP_PREC[ty_]
                def f(env, prev):
                    if not getattr(self, 'fp_exact', False): env[dest] = self.fp_havoc(op); return
                    env[dest] = self.fp_binop(op, oa(env), ob(env), P)
                return f
            if mm and op in ('fpext', 'fptrunc') and mm.group(6) in self.FP_PREC:
                o = D(mm.group(3), mm.group(4)); P = self.FP_PREC[mm.group(6)]
                def f(env, prev):
                    q = self.fpq(o(env)) if getattr(self, 'fp_exact', False) else None
                    if q is None: env[dest] = self.fp_havoc(op); return
                    env[dest] = FPV(('q', q[0], q[1])) if op == 'fpext' else self.fp_round(q[0], q[1], P)
                return f
            def f(env, prev):
                env[dest] = self.fp_havoc(op)
            return f
        if op in ('fptoui', 'fptosi'):
            m = re.match(r'\w+ (.+?) ([^ ]+) to (.+)$', t)
            toT = parse_type(m.group(3))
            osrc = D(m.group(1), m.group(2))
            def f(env, prev):
                if getattr(self, 'fp_exact', False):
                    v = self.fp_to_int(osrc(env))
                    if v is not None:
                        env[dest] = v; return
                env[dest] = self.fresh('fp2int', toT.bits)
            return f
        if op == 'fcmp':
            m = re.match(r'fcmp (?:(?:fast|nnan|ninf|nsz|arcp|contract|afn|reassoc) )*(\w+) (.+?) ([^ ,]+), ([^ ,]+)$', t)
            oa = D(m.group(2), m.group(3)) if m else None; ob = D(m.group(2), m.group(4)) if m else None
            def f(env, prev):
                if m and getattr(self, 'fp_exact', False):
                    r = self.fp_cmp(m.group(1), oa(env), ob(env))
                    if r is not None:
                        env[dest] = r; return
                env[dest] = self.fresh_bool('fcmp')
            return f
        raise ValueError('unhandled instruction')
