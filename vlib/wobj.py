"""Helpers for harnesses over Digital_rf_write_object (field names come from /repo/c/include/digital_rf.h)."""
import z3
from . import build
from .llsym import Ptr, NULL, SymStr, M

_F = None
# channel directory of the write-path harnesses; it contains "rf" and "tmp." on purpose: the writer derives names with strstr(.., "rf") /
# strips a "tmp." prefix, which must only ever concern the basename
CHDIR = '/data/tmp.drf/ch'


def F():
    global _F
    if _F is None:
        _F = build.struct_fields()
        need = ['directory', 'sub_directory', 'basename', 'is_complex', 'num_subchannels', 'rank', 'uuid_str', 'subdir_cadence_secs',
                'file_cadence_millisecs', 'global_start_sample', 'sample_rate_numerator', 'sample_rate_denominator', 'is_continuous',
                'needs_chunking', 'chunk_size', 'dtype_id', 'complex_dtype_id', 'global_index', 'present_seq', 'dataset_index',
                'dataset_avail', 'block_index', 'dataset', 'dataspace', 'filespace', 'memspace', 'hdf5_file', 'dataset_prop',
                'index_dataset', 'index_prop', 'next_index_avail', 'has_failure']
        missing = [n for n in need if n not in _F]
        if missing:
            raise RuntimeError('writer struct fields missing from header: %s' % missing)
    return _F


class WObj:
    """a writer object living in executor memory at pointer `ptr`"""

    def __init__(self, ex, ptr=None):
        self.ex = ex
        if ptr is None:
            ptr = Ptr(ex.new_region('wobj'))
        self.ptr = ptr

    def fptr(self, name):
        return Ptr(self.ptr.region, self.ptr.path + (F()[name],))

    def get(self, name, default=None):
        return self.ex.peek(self.ptr.region, self.ptr.path + (F()[name],), default)

    def set(self, name, v):
        self.ex.store(self.fptr(name), v)

    def set_str(self, name, text):
        """char* field pointing at a fresh region holding an abstract string"""
        rid = self.ex.new_region(name)
        self.ex.mem[rid]['cells'][()] = text if isinstance(text, SymStr) else SymStr([text])
        self.set(name, Ptr(rid, (0,)))
        return rid

    def get_str(self, name):
        p = self.get(name)
        if not isinstance(p, Ptr) or p.region is None: return None
        return self.ex.mem[p.region]['cells'].get(self.ex.key(p.path[:-1]))

    def basename(self):
        return self.ex.mem[self.ptr.region]['cells'].get(self.ex.key(self.ptr.path + (F()['basename'],)))

    def fresh_open_state(self, n, d, sc, fc, start, is_continuous, needs_chunking, is_complex=0, nsub=1, max_chunk=None):
        """state right after a successful digital_rf_create_write_hdf5 (as set by the constructor)"""
        self.set_str('directory', CHDIR)
        self.set('sub_directory', NULL)
        self.set_str('uuid_str', 'UUID')
        self.ex.mem[self.ptr.region]['cells'][self.ex.key(self.ptr.path + (F()['basename'],))] = SymStr([''])
        vals = dict(is_complex=is_complex, num_subchannels=nsub, rank=2, subdir_cadence_secs=sc, file_cadence_millisecs=fc,
                    global_start_sample=start, sample_rate_numerator=n, sample_rate_denominator=d,
                    max_chunk_size=max_chunk if max_chunk is not None else self.ex.fresh('max_chunk'),
                    is_continuous=is_continuous, needs_chunking=needs_chunking, chunk_size=0, dtype_id=7001,
                    complex_dtype_id=(7004 if is_complex else 0) if isinstance(is_complex, int) else 7004, global_index=0, present_seq=M(32) - 1, dataset_index=0, dataset_avail=0,
                    block_index=0, dataset=0, dataspace=0, filespace=0, memspace=0, hdf5_file=0, dataset_prop=7002, index_dataset=0,
                    index_prop=7003, next_index_avail=0, marching_dots=0, init_utc_timestamp=self.ex.fresh('init_ts'),
                    last_utc_timestamp=0, has_failure=0)
        for k, v in vals.items():
            if k in F(): self.set(k, v)
        return self
