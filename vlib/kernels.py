"""Proved summaries of the two straight-line time kernels (C03), for use by harnesses of their callers.

prove_time_kernels() re-proves, on the current IR, with all arguments symbolic, that
  digital_rf_get_timestamp_floor(k,n,d) = (floor(k*d/n), floor(((k*d) mod n)*1e12/n))      and never wraps
  digital_rf_get_sample_ceil(s,p,n,d)   = ceil((s*1e12+p)*n/(d*1e12))                      and never wraps
on the domain k<2^63, n<2^32, d<=1e9, n*d<2^64, second<year 9999, p<1e12, result<2^63.
Only if every one of those queries is unsat may the summaries below replace the functions (they check the domain at every use).
"""
import z3
from . import smt, rates
from .llsym import Exec, Ptr, Inconclusive, AssertFail

T12 = 10**12


def run_floor(ex, k, n, d):
    s_r, p_r = ex.new_region('sec'), ex.new_region('ps')
    r = ex.call('@digital_rf_get_timestamp_floor', [k, n, d, Ptr(s_r), Ptr(p_r)])
    return r, ex.peek(s_r, ()), ex.peek(p_r, ())


def run_ceil(ex, s, p, n, d):
    o_r = ex.new_region('out')
    r = ex.call('@digital_rf_get_sample_ceil', [s, p, n, d, Ptr(o_r)])
    return r, ex.peek(o_r, ())


def rate_domain(n, d):
    return [n >= 1, n < 2**32, d >= 1, d <= 10**9, n * d < 2**64]


def prove_time_kernels(mod, stubs, st, timeout=60):
    """-> dict(ok, floor=[(name, verdict, model, dt)], ceil=[...], vars, ex_floor, ex_ceil)"""
    out = dict(ok=True, floor=[], ceil=[])
    ex = Exec(mod, stubs); ex.reset(); ex.ovf_mode = 'obligation'; ex.fp_exact = True
    k, n, d = z3.Ints('k n d')
    for c in [k >= 0, k < 2**63] + rate_domain(n, d): ex.assume(c)
    ret, sec, ps = run_floor(ex, k, n, d)
    Q, R = ex.udivrem(k * d, n)
    Q2, R2 = ex.udivrem(R * T12, n)
    ex.assume(Q < rates.Y9999)
    pc = list(ex.pc)
    impl = [v for (q, r, a, b) in ex.euclid.values() for v in (q, r)]
    lem = smt.sweep_lemmas(pc, impl, [Q, R], timeout_s=5, stats=st)
    claims = [('floor.return_zero', ret == 0), ('floor.second == floor(k*d/n)', sec == Q),
              ('floor.picosecond == floor(rem*1e12/n)', ps == Q2), ('floor.picosecond < 1e12', ps < T12)]
    claims += [('floor.no_wrap[%d:%s]' % (i, o), c) for i, (o, c) in enumerate(ex.ovf)]
    for nm, cl in claims:
        r, m, dt = smt.prove(pc, cl, lem, timeout, st)
        out['floor'].append((nm, r, m, dt)); out['ok'] &= (r == 'unsat')
    out['fvars'] = (k, n, d, R, R2); out['fpc'] = pc
    ex2 = Exec(mod, stubs); ex2.reset(); ex2.ovf_mode = 'obligation'; ex2.fp_exact = True
    s_, p_, n2, d2 = z3.Ints('s p n d')
    for c in [s_ >= 0, s_ < rates.Y9999, p_ >= 0, p_ < T12] + rate_domain(n2, d2): ex2.assume(c)
    ret2, o = run_ceil(ex2, s_, p_, n2, d2)
    QC, RC = ex2.udivrem((s_ * T12 + p_) * n2, d2 * T12)
    spec = QC + z3.If(RC != 0, 1, 0)
    ex2.assume(spec < 2**63)
    pc2 = list(ex2.pc)
    claims = [('ceil.return_zero', ret2 == 0), ('ceil.index == ceil((s+p*1e-12)*n/d)', o == spec)]
    claims += [('ceil.no_wrap[%d:%s]' % (i, op), c) for i, (op, c) in enumerate(ex2.ovf)]
    for nm, cl in claims:
        r, m, dt = smt.prove(pc2, cl, (), timeout, st)
        out['ceil'].append((nm, r, m, dt)); out['ok'] &= (r == 'unsat')
    out['cvars'] = (s_, p_, n2, d2, RC); out['cpc'] = pc2
    return out


def floor_summary(ex, k, n, d, psec, pps):
    dom = z3.And(k >= 0, k < 2**63, *rate_domain(n, d)) if not all(isinstance(x, int) for x in (k, n, d)) else \
        (0 <= k < 2**63 and 1 <= n < 2**32 and 1 <= d <= 10**9 and n * d < 2**64)
    if not ex.valid(dom): raise Inconclusive('floor summary used outside its proven domain')
    Q, R = ex.udivrem(k * d, n)
    if not ex.valid(Q < rates.Y9999): raise Inconclusive('floor summary used beyond year 9999')
    Q2, _ = ex.udivrem(R * T12, n)
    ex.store(psec, Q); ex.store(pps, Q2)
    return 0


def ceil_summary(ex, s, p, n, d, pout):
    allc = all(isinstance(x, int) for x in (s, p, n, d))
    dom = (0 <= s < rates.Y9999 and 0 <= p < T12 and 1 <= n < 2**32 and 1 <= d <= 10**9 and n * d < 2**64) if allc else \
        z3.And(s >= 0, s < rates.Y9999, p >= 0, p < T12, *rate_domain(n, d))
    if not ex.valid(dom): raise Inconclusive('ceil summary used outside its proven domain')
    QC, RC = ex.udivrem((s * T12 + p) * n, d * T12)
    if isinstance(RC, int): v = QC + (1 if RC != 0 else 0)
    else: v = QC + z3.If(RC != 0, 1, 0)
    if not ex.valid(v < 2**63): raise Inconclusive('ceil summary result beyond 2^63')
    ex.store(pout, v)
    return 0


TIME_SUMMARIES = {'@digital_rf_get_timestamp_floor': floor_summary, '@digital_rf_get_sample_ceil': ceil_summary}
