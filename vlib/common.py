"""Verdict bookkeeping, evidence files, known findings, replay scripts."""
import hashlib, json, os, sys, time, subprocess, textwrap

VERIF = os.path.dirname(os.path.dirname(os.path.abspath(__file__)))
# evidence / replays always land in the directory the check is run from (/verif), never in a snapshot of it
OUT = VERIF
if os.environ.get('VERIF_REPO') and os.environ.get('VERIF_SEED_OUT'):
    # development runs against a scratch worktree carrying a seeded change: keep their evidence / replays out of /verif
    OUT = os.environ['VERIF_SEED_OUT']
REPO = os.environ.get('VERIF_REPO', '/repo')
EXIT_OK, EXIT_VIOLATION, EXIT_INCONCLUSIVE = 0, 1, 2


def load_known():
    p = os.path.join(VERIF, 'known_findings.json')
    if not os.path.exists(p):
        return []
    with open(p) as f:
        return json.load(f).get('findings', [])


_RUNNER = '''
import sys, runpy, traceback
try:
    runpy.run_path(sys.argv[1], run_name="__main__")
except SystemExit:
    raise
except BaseException:
    sys.excepthook(*sys.exc_info()) if sys.excepthook is not sys.__excepthook__ else (traceback.print_exc(), sys.exit(3))
'''


class Report:
    """Collects obligations of one check run and writes /verif/evidence/<id>.json."""

    def __init__(self, pid, tier, level, functions=()):
        self.pid, self.tier, self.level = pid, tier, level
        self.seed = int(os.environ.get('VERIF_SEED', '0') or 0)
        self.t0 = time.time()
        self.obs = []            # dict(name, verdict, bounds, queries, solver_s, paths, detail)
        self.violations = []     # unlisted, replay-confirmed
        self.known_hits = []
        self.samples = []
        self.functions = list(functions)
        self.assumptions = []
        self.outside = []
        self.extra = {}
        self.replays = 0
        self.known = [k for k in load_known() if k.get('property') == pid]

    # -- obligations
    def ob(self, name, verdict, bounds=None, queries=0, solver_s=0.0, paths=0, detail=None, sample=None):
        assert verdict in ('discharged', 'violated', 'inconclusive', 'witness', 'known')
        o = dict(name=name, verdict=verdict, bounds=bounds, queries=int(queries), solver_s=round(float(solver_s), 3),
                 paths=int(paths), detail=detail)
        self.obs.append(o)
        if sample is not None and len(self.samples) < 12:
            self.samples.append(sample)
        tag = {'discharged': 'ok  ', 'violated': 'FAIL', 'inconclusive': '??  ', 'witness': 'wit ', 'known': 'KNWN'}[verdict]
        print('[%s] %s %-46s q=%d paths=%d solver=%.2fs %s' % (self.pid, tag, name, queries, paths, solver_s,
                                                               ('bounds: %s' % bounds) if bounds else ''), flush=True)
        if detail and verdict != 'discharged':
            print('       ' + str(detail)[:600], flush=True)
        return o

    def assume(self, *texts):
        for t in texts:
            if t not in self.assumptions:
                self.assumptions.append(t)

    def outside_claim(self, *texts):
        for t in texts:
            if t not in self.outside:
                self.outside.append(t)

    # -- violations
    def write_replay(self, name, body):
        """body: python source that exits 1 when the defect reproduces on the real build, 0 otherwise."""
        h = hashlib.sha256(body.encode()).hexdigest()[:10]
        d = os.path.join(OUT, 'replays')
        os.makedirs(d, exist_ok=True)
        path = os.path.join(d, '%s-%s-%s.py' % (self.pid, name, h))
        hdr = textwrap.dedent('''\
            #!/verif/.venv/bin/python
            # replay for property %s obligation %s -- exits 1 if the violation reproduces on /repo's current tree, 0 if not,
            # 3 if the replay itself fails (an uncaught exception is a harness error, never a reproduction)
            import sys; sys.path.insert(0, %r)
            def _hook(t, v, tb):
                # an exception escaping from the code under test is part of the observed behaviour (exit 1); one raised by the replay
                # script or the harness library alone is a harness error (exit 3)
                import traceback, os; traceback.print_exception(t, v, tb)
                repo = os.path.join(os.environ.get('VERIF_REPO', '/repo'), 'python', 'digital_rf')
                inreal = any(os.path.abspath(f.filename).startswith(repo) for f in traceback.extract_tb(tb))
                print('uncaught %%s %%s' %% (t.__name__, 'raised while the code under test was running' if inreal else 'in the replay harness'))
                sys.stdout.flush(); sys.stderr.flush(); os._exit(1 if inreal else 3)
            sys.excepthook = _hook
            ''') % (self.pid, name, VERIF)
        with open(path, 'w') as f:
            f.write(hdr + body)
        os.chmod(path, 0o755)
        return path

    def run_replay(self, path, timeout=300):
        """returns (reproduced: bool|None, output)"""
        self.replays += 1
        try:
            r = subprocess.run([sys.executable, '-c', _RUNNER, path], stdout=subprocess.PIPE, stderr=subprocess.STDOUT, text=True, timeout=timeout)
        except subprocess.TimeoutExpired:
            return None, 'replay timeout'
        if r.returncode == 1:
            return True, r.stdout[-2000:]
        if r.returncode == 0:
            return False, r.stdout[-2000:]
        return None, r.stdout[-2000:]

    def violation(self, obligation, sig, what, replay_body=None, queries=0, solver_s=0.0, paths=0, bounds=None, sample=None,
                  reproduced=None):
        """A solver counterexample. `sig` is the defect signature used for known-finding matching.
        The counterexample must reproduce on the real build (replay) to be reported; otherwise inconclusive."""
        path = None
        for (o_, s_, w_, p_) in self.violations:
            if s_ == sig:      # same defect signature already confirmed in this run: do not replay again
                self.ob(obligation, 'violated', bounds, queries, solver_s, paths, detail='(same signature as %s) %s' % (o_, what), sample=sample)
                return True
        if replay_body is not None:
            import re as _re
            path = self.write_replay(_re.sub(r'[^A-Za-z0-9_.-]+', '_', obligation)[:60], replay_body)
            reproduced, out = self.run_replay(path)
            if reproduced is not True:
                self.ob(obligation, 'inconclusive', bounds, queries, solver_s, paths,
                        detail='solver model did NOT reproduce on the real build (%s): %s | %s' % (reproduced, what, out[-400:]),
                        sample=sample)
                return False
        elif reproduced is not True:
            self.ob(obligation, 'inconclusive', bounds, queries, solver_s, paths, detail='counterexample without replay: ' + what, sample=sample)
            return False
        for k in self.known:
            if k.get('status') == 'known' and k.get('sig') == sig:
                self.known_hits.append((sig, what, path))
                self.ob(obligation, 'known', bounds, queries, solver_s, paths, detail=what, sample=sample)
                print('KNOWN-FINDING: property=%s %s [%s]' % (self.pid, k.get('what', what), what), flush=True)
                return True
        if path is None:
            # confirmed on the real build by the check itself (no separate script): the replay re-runs this check
            import re as _re
            path = self.write_replay(_re.sub(r'[^A-Za-z0-9_.-]+', '_', obligation)[:60],
                                     '# %s\n# %s\nimport subprocess, sys\nsys.exit(1 if subprocess.call([%r, %r, %r]) == 1 else 0)\n'
                                     % (obligation.replace('\n', ' ')[:300], what.replace('\n', ' ')[:600], os.path.join(VERIF, 'check'), self.pid, self.tier))
        self.violations.append((obligation, sig, what, path))
        self.ob(obligation, 'violated', bounds, queries, solver_s, paths, detail=what, sample=sample)
        print('VIOLATION property=%s replay=%s' % (self.pid, path), flush=True)
        return True

    # -- finish
    def finish(self):
        wall = time.time() - self.t0
        n = len(self.obs)
        disc = sum(1 for o in self.obs if o['verdict'] in ('discharged', 'witness', 'known'))
        inconc = [o for o in self.obs if o['verdict'] == 'inconclusive']
        queries = sum(o['queries'] for o in self.obs)
        paths = sum(o['paths'] for o in self.obs)
        solver_s = sum(o['solver_s'] for o in self.obs)
        names = sorted(set(o['name'] for o in self.obs))
        cov = dict(
            evaluations=max(1, queries), distinct_nontrivial=len(names),
            rule='one evaluation = one SMT query (branch feasibility or negated assertion) over symbolic inputs; '
                 'distinct_nontrivial = number of distinct named proof obligations decided by the solver in this run',
            samples=self.samples[:12] or [o for o in self.obs[:3]],
            obligations=n, discharged=disc, inconclusive=len(inconc),
            states=max(1, paths), transitions=max(1, queries), traces_validated_against_impl=self.replays,
            checker_cmd='cd /verif && ./check %s %s' % (self.pid, self.tier),
            trusted_base=['z3 5.1.0 (z3-solver wheel)', 'clang/opt 14 IR semantics as implemented in vlib/llsym.py',
                          'CrossHair 0.0.110 where used', 'environment stubs listed under assumptions'],
            functions_encoded=self.functions, solver_queries=queries, solver_seconds=round(solver_s, 2), paths=paths,
            obligation_list=self.obs, outside_claim=self.outside,
            known_findings_hit=[dict(sig=s, what=w, replay=p) for s, w, p in self.known_hits],
            explanation='solver-based bounded checking of the real code; see obligation_list for per-obligation bounds and verdicts',
            exhaustive=False)
        cov.update(self.extra)
        ev = dict(property_id=self.pid, tier=self.tier, seed=self.seed, level=self.level, coverage=cov,
                  assumptions=self.assumptions, wall_s=round(wall, 2), violations=len(self.violations))
        d = os.path.join(OUT, 'evidence')
        os.makedirs(d, exist_ok=True)
        with open(os.path.join(d, self.pid + '.json'), 'w') as f:
            json.dump(ev, f, indent=1, default=str)
        print('[%s] %s: %d obligations, %d discharged, %d inconclusive, %d violations, %d known; %d queries, %.1fs solver, %.1fs wall'
              % (self.pid, self.tier, n, disc, len(inconc), len(self.violations), len(self.known_hits), queries, solver_s, wall), flush=True)
        if self.violations:
            return EXIT_VIOLATION
        if inconc:
            for o in inconc:
                print('INCONCLUSIVE property=%s obligation=%s %s' % (self.pid, o['name'], str(o['detail'])[:300]), flush=True)
            return EXIT_INCONCLUSIVE
        return EXIT_OK
