"""Rate / cadence universes for the concrete-rate (linear) twins of the symbolic-rate obligations."""
import os, random
from math import gcd

Y1980, Y2100, Y9999 = 315532800, 4102444800, 253402300800

QUICK_RATES = [(200, 3), (1, 1), (10, 1), (100, 7), (1000, 1), (44100, 1), (48000, 1), (10**6, 1), (25 * 10**6, 1),
               (10**6, 3), (10**8, 7), (30000, 1001), (2**32 - 1, 10**9)]
HIGH_RATES = [(4294967291, 1), (3999999999, 1), (1234567891, 3)]   # n >= 1e9, where sub-nanosecond remainders matter (layout twins)
QUICK_CADENCES = [(2, 400), (3600, 1000), (1, 1), (1, 100)]   # (subdir_cadence_secs, file_cadence_millisecs)


def thorough_rates(n_random=120, seed=None):
    seed = int(os.environ.get('VERIF_SEED', '0') or 0) if seed is None else seed
    rng = random.Random(seed)
    out = list(QUICK_RATES) + [(8000, 1), (11025, 1), (22050, 1), (96000, 1), (192000, 1), (2 * 10**6, 1), (5 * 10**6, 1),
                               (10**7, 1), (2 * 10**7, 1), (10**8, 1), (2 * 10**8, 1), (10**9, 1), (1, 10), (1, 60), (1, 3600),
                               (3, 2), (50, 1), (500, 1), (100, 3), (10**7, 3), (2**31, 1), (2**32 - 1, 1), (2**32 - 1, 4294967)]
    while len(out) < len(QUICK_RATES) + 23 + n_random:
        n = rng.choice([rng.randrange(1, 2**32), rng.randrange(1, 10**6), rng.randrange(1, 1000)])
        d = rng.choice([1, rng.randrange(1, 10**9 + 1), rng.randrange(1, 1000), rng.randrange(1, 10)])
        g = gcd(n, d); n //= g; d //= g
        if n * d < 2**64 and (n, d) not in out:
            out.append((n, d))
    return out


def thorough_cadences():
    out = list(QUICK_CADENCES)
    out += [(1, 1000), (1, 500), (1, 250), (1, 10), (1, 2), (10, 1000), (10, 10000), (60, 1000), (60, 60000), (3600, 100),
            (3600, 3600000), (86400, 1000), (86400, 60000), (7, 7000), (7, 875), (3, 1500)]
    return out
