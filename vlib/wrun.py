"""Run write-path configurations (vlib/wpath.py) in parallel and turn failures into real-build replays."""
import multiprocessing as mp, os, time, traceback
from . import build, envstubs, wpath, refmodel, smt
from .llsym import Module, Exec, Inconclusive

_IR = None
_MOD = None


def fresh_fs(ex, s):      # module-level (picklable) initial file-system answers: nothing exists yet
    return False


def _mod():
    global _MOD
    if _MOD is None:
        _MOD = Module(_IR if _IR is not None else build.c_ir())
    return _MOD


def spec_to_cfg(sp):
    kw = dict(sp)
    name = kw.pop('name')
    for k_ in ('checker', 'witness', 'kind', 'cost', 'budget_s'): kw.pop(k_, None)
    fresh = kw.pop('fresh', True)
    if fresh:
        kw['fs_init'] = fresh_fs; kw['dir_init'] = fresh_fs
    return wpath.Cfg(name=name, **kw)


def run_one(sp):
    """sp: dict(name, n,d,sc,fc,cont,chunk,calls,..., checker='valid'|'reject'|'fault', witness=int)"""
    t0 = time.time()
    out = dict(name=sp['name'], paths=0, queries=0, solver_s=0.0, results={}, counts={}, error=None, witnesses=[], cut_paths=0, reach={})
    try:
        cfg = spec_to_cfg(sp)
        stubs = wpath.h5dwrite_snapshot(envstubs.mk_stubs())
        setup, driver = wpath.make_driver(cfg)
        agg = wpath.Agg()
        checker = {'valid': wpath.check_path}.get(sp.get('checker', 'valid'))
        if checker is None:
            from . import wcheck
            checker = getattr(wcheck, 'check_' + sp['checker'])
        nwit = sp.get('witness', 0)
        cuts = [0]

        def setup2(ex):
            ex.ovf_mode = 'lazy'
            return setup(ex)

        def on_path(ex, status, ret):
            checker(ex, cfg, status, ret, agg)
            cuts[0] = max(cuts[0], ex.user.get('cut_paths', 0))
            if nwit and len(out['witnesses']) < nwit and status == 'ret' and cfg.window_regular:
                pm = wpath.path_model(ex)
                if pm is not None and all(c.get('ret') == 0 for c in pm['calls']):
                    out['witnesses'].append(pm)

        ex = Exec(_mod(), stubs, wpath.SUMMARIES, timeout_ms=4000, fallback_ms=60000)
        deadline = time.time() + sp.get('budget_s', 1500)
        out['paths'] = ex.explore(driver, setup2, on_path, deadline=deadline)
        out['queries'] = ex.nq; out['solver_s'] = ex.tq
        out['results'] = agg.d; out['counts'] = agg.count; out['reach'] = agg.reach
    except Inconclusive as e:
        out['error'] = 'inconclusive: %s' % e
    except Exception:
        out['error'] = traceback.format_exc()[-1500:]
    out['wall'] = time.time() - t0
    return out


def run_all(specs, nproc=None):
    global _IR
    _IR = build.c_ir()
    nproc = nproc or max(1, min(len(specs), (os.cpu_count() or 4) - 2))
    ctx = mp.get_context('fork')
    # longest first
    order = sorted(range(len(specs)), key=lambda i: -specs[i].get('cost', 1))
    with ctx.Pool(nproc) as pool:
        res = pool.map(run_one, [specs[i] for i in order], chunksize=1)
    back = [None] * len(specs)
    for i, r in zip(order, res): back[i] = r
    return back


REG = [dict(m=1, fc=1000, sc=2), dict(m=2, fc=1000, sc=2), dict(m=5, fc=1000, sc=2)]


def realise(sp, obligation, budget_s=600):
    """re-run a configuration under the regular-window refinement (rate m Hz, 1 s files) to obtain a counterexample that can be run on
    the real build.  -> (cfgdict, history) or None"""
    for reg in REG:
        sp2 = dict(sp); sp2['window_regular'] = reg; sp2['name'] = sp['name'] + ' [m=%d]' % reg['m']; sp2['budget_s'] = budget_s; sp2['max_chunk'] = reg['m']
        sp2['witness'] = 0
        r = run_one(sp2)
        v = r['results'].get(obligation)
        if v and v[0] == 'sat' and v[1]:
            pm = v[1] if 'calls' in v[1] else v[1].get('model')
            if pm:
                cfgd = dict(n=reg['m'], d=1, sc=reg['sc'], fc=reg['fc'], start=pm['start'], cont=sp['cont'], chunk=sp['chunk'])
                return cfgd, prefix_history(sp, pm) + [dict(g=c['g'], b=c['b'], vlen=c['vlen']) for c in pm['calls']]
    if not sp.get('pre'):
        # windows of unequal size (non-integer number of samples per file): concrete rational rates, windows computed with div / mod
        for (n_, d_) in ((5, 2), (7, 3)):
            sp2 = dict(sp); sp2.update(n=n_, d=d_, sc=2, fc=1000, max_chunk=n_ // d_, window_style='div', name=sp['name'] + ' [%d/%d Hz]' % (n_, d_), budget_s=budget_s, witness=0)
            sp2['start_lo'] = 10**9 * n_ // d_; sp2['start_hi'] = 4 * 10**9 * n_ // d_
            sp2['calls'] = [dict(c, maxv=min(c.get('maxv', 12), 12), maxg=40) for c in sp['calls']]
            r = run_one(sp2)
            v = r['results'].get(obligation)
            if v and v[0] == 'sat' and v[1]:
                pm = v[1] if 'calls' in v[1] else v[1].get('model')
                if pm:
                    cfgd = dict(n=n_, d=d_, sc=2, fc=1000, start=pm['start'], cont=sp['cont'], chunk=sp['chunk'])
                    return cfgd, [dict(g=c['g'], b=c['b'], vlen=c['vlen']) for c in pm['calls']]
    return None


def prefix_history(sp, pm):
    """one concrete call on a fresh channel that leads into the pre-state of an inductive-step counterexample (see wpath.install_open_state)"""
    pre = pm.get('pre')
    if not pre: return []
    st = pm['start']
    if sp['cont'] and not sp['chunk']:
        return [dict(g=[pre['gi'] - 1], b=[0], vlen=1)]
    if pre['ol'] == 0:
        return [dict(g=[pre['s0'] - st], b=[0], vlen=pre['di'])]
    return [dict(g=[pre['s0'] - st, pre['sl'] - st], b=[0, pre['ol']], vlen=pre['di'])]


REPLAY_BODY = '''
from vlib import build, refmodel
import sys
cfg = %r
history = %r
d = refmodel.run_history(build, cfg, history)
for x in d: print('DISCREPANCY:', x)
print('real build vs reference model:', 'MISMATCH' if d else 'agree')
sys.exit(1 if d else 0)
'''


def replay_witnesses(results, specs, limit=40):
    """run solver witnesses of regular-window configurations on the real build; -> (n_run, list of (name, cfg, hist, diffs))"""
    bad = []; n = 0
    for sp, r in zip(specs, results):
        reg = sp.get('window_regular')
        if not reg: continue
        for pm in r['witnesses'][:limit]:
            cfgd = dict(n=reg['m'], d=1, sc=reg['sc'], fc=reg['fc'], start=pm['start'], cont=sp['cont'], chunk=sp['chunk'])
            hist = [dict(g=c['g'], b=c['b'], vlen=c['vlen']) for c in pm['calls']]
            d = refmodel.run_history(build, cfgd, hist)
            n += 1
            if d: bad.append((sp['name'], cfgd, hist, d))
    return n, bad
