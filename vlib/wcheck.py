"""Additional per-path checkers for the write-path harness: rejection atomicity (C05), faults (C10), sessions (C11)."""
import z3
from . import envstubs
from .llsym import Ptr, SymStr
from .wpath import (Agg, check_claim, path_model, build_files, MUTATING, check_path)

STATE_FIELDS = ['global_index', 'dataset_index', 'dataset_avail', 'block_index', 'next_index_avail', 'present_seq', 'hdf5_file', 'dataset',
                'index_dataset', 'has_failure', 'sub_directory', 'dataspace']


def same_state(pre, post):
    conj = []
    for f in STATE_FIELDS:
        a, b = pre[f], post[f]
        if isinstance(a, Ptr) or isinstance(b, Ptr):
            conj.append(z3.BoolVal(isinstance(a, Ptr) and isinstance(b, Ptr) and a.region == b.region))
        else:
            conj.append(a == b)
    for k in ('basename', 'subdir_str'):
        a, b = pre[k], post[k]
        if a is None or b is None: conj.append(z3.BoolVal(a is None and b is None))
        else:
            e = envstubs.str_eq(a.copy(), b.copy())
            conj.append(e if not isinstance(e, bool) else z3.BoolVal(e))
    return z3.And(*conj)


def check_reject(ex, cfg, status, ret, agg):
    """history = zero or more valid calls followed by ONE arbitrary (possibly malformed) call, then close"""
    if status != 'ret':
        agg.note('no C assert / abort / NULL dereference reachable with arbitrary block arrays', False, path_model(ex)); return
    agg.note('no C assert / abort / NULL dereference reachable with arbitrary block arrays', True)
    calls = ex.user['calls']
    if any(not ex.valid(c['ret'] == 0) for c in calls[:-1]): return
    c = calls[-1]
    mal = c['malformed']
    if c.get('null_vector'):
        mal = z3.BoolVal(True)
    r = c['ret']
    rejected = ex.valid(r != 0)
    accepted = ex.valid(r == 0)
    if not (rejected or accepted):
        agg.note('return value is determined on every path', False, path_model(ex)); return
    if rejected:
        check_claim(ex, agg, 'rejected (non-zero return) only if the call is malformed: first index before the cursor, b[0] != 0, non-increasing '
                             'b or g, b step > g step, b[i] >= vector length, NULL data, or several blocks in continuous mode', mal)
        mut = [e for e in ex.events[c['ev0']:c['ev1']] if e[0] in MUTATING]
        agg.note('a rejected call issues no mutating file-system / HDF5 operation (create, extend, write, attribute, mkdir, rename, remove)',
                 not mut, None if not mut else dict(events=[e[0] for e in mut][:6], model=path_model(ex)))
        check_claim(ex, agg, 'a rejected call leaves the writer cursor and open-file state exactly as before', same_state(c['pre'], c['post']))
    else:
        check_claim(ex, agg, 'a malformed call is never accepted', z3.Not(mal))
    # the rest of the history (earlier valid calls + close) must still satisfy the recording obligations
    if accepted:
        check_path(ex, cfg, status, ret, agg)


def check_zero(ex, cfg, status, ret, agg):
    """a zero-length call (nothing to write) must change nothing, whatever its arrays say"""
    if status != 'ret':
        agg.note('no C assert / abort / NULL dereference reachable with arbitrary block arrays', False, path_model(ex)); return
    calls = ex.user['calls']
    if any(not ex.valid(c['ret'] == 0) for c in calls[:-1]): return
    c = calls[-1]
    mut = [e for e in ex.events[c['ev0']:c['ev1']] if e[0] in MUTATING]
    agg.note('a zero-length call issues no mutating operation', not mut, None if not mut else path_model(ex))
    check_claim(ex, agg, 'a zero-length call leaves the writer cursor and open-file state exactly as before', same_state(c['pre'], c['post']))


# ----------------------------------------------------------------------------- C10: single-fault schedules

def fault_once(ex, what, n):
    F = z3.Int('FAULT_AT')
    return F == n


def fault_persistent(ex, what, n):
    F = z3.Int('FAULT_AT')
    return z3.And(F >= 0, n >= F)


def _happened(ex, f):
    if f is False: return False
    if f is True: return True
    return ex.valid(f)


def check_fault(ex, cfg, status, ret, agg):
    """history of valid calls + close under a single-fault schedule (one fallible library call fails once, or every call from it on fails).
    The result of many fallible calls is ignored by the code, so on one path several fault positions remain possible: each is examined
    under the assumption that the fault happened there."""
    if status != 'ret':
        agg.note('no C assert / abort / NULL dereference reachable under I/O faults', False, path_model(ex)); return
    agg.note('no C assert / abort / NULL dereference reachable under I/O faults', True)
    E = envstubs.env(ex)
    cands = [(what, f, evi) for (what, f, evi) in E.fault_vars if f is not False]
    seen = set()
    for (what, f, evi) in cands:
        if f is True:
            _check_fault_at(ex, cfg, agg); return
        if not ex.sat(f): continue
        # first possible fault position only needs to be examined once per distinct schedule value
        ex.solver.push(); ex.solver.add(f); ex.pc.append(f)
        try:
            _check_fault_at(ex, cfg, agg)
        finally:
            ex.pc.pop(); ex.solver.pop()


def _check_fault_at(ex, cfg, agg):
    files, problems = build_files(ex)
    E = envstubs.env(ex)
    faults = [(what, f, evi) for (what, f, evi) in E.fault_vars if _happened(ex, f)]
    calls = ex.user['calls']
    data_files = [f for f in files if not f['is_props']]
    if not faults:
        return
    t_fault = faults[0][2]; kind = faults[0][0]
    def ops_faulted(f):
        evs = [f['ev'], f['fclose_ev']] + [w['ev'] for w in f['writes']] + [ev_ for (ev_, _) in f['dclose'].values()] + \
              ([f['rf']['ev']] if f['rf'] else []) + ([f['index']['ev']] if f['index'] else []) + (f['index'].get('row_ev', []) if f['index'] else [])
        bad = False
        for (what, fl, evi) in faults:
            # the fault flag is recorded at the index the event WILL have (status() is called before ev())
            if evi in evs: bad = True
        return bad
    def published(f):
        return f['rename_ev'] is not None and not _happened(ex, f.get('rename_fault', False))
    sig = 'C10.%s' % kind
    # (a) never publish a file one of whose write / close operations failed
    for f in data_files:
        if published(f) and ops_faulted(f):
            agg.note('a file whose H5Dwrite / H5Dcreate2 / H5Dset_extent / H5Dclose / H5Fclose failed is never renamed to its final name [fault in %s]' % kind,
                     False, dict(sig=sig + '.published', model=path_model(ex), fault=kind))
        else:
            agg.note('a file whose H5Dwrite / H5Dcreate2 / H5Dset_extent / H5Dclose / H5Fclose failed is never renamed to its final name [fault in %s]' % kind, True)
    # (b) no silent loss
    fault_call = next((i for i, c in enumerate(calls) if c['ev0'] <= t_fault < c['ev1']), None)
    next_call = next((i for i, c in enumerate(calls) if c['ev0'] > t_fault), None)
    accepted = [i for i, c in enumerate(calls) if ex.valid(c['ret'] == 0)]
    lost = False
    for i in accepted:
        c = calls[i]
        for f in data_files:
            if any(c['ev0'] <= w['ev'] < c['ev1'] for w in f['writes']):
                if not published(f) or ops_faulted(f): lost = True
    if lost:
        reported = (fault_call is not None and fault_call not in accepted) or (next_call is not None and next_call not in accepted)
        silent = (not reported) and (next_call is not None or (fault_call is not None and fault_call in accepted and False))
        agg.note('if an accepted sample does not end up in an intact published file, an error is reported no later than the first call after the '
                 'failure (when there is one) [fault in %s]' % kind, not silent, None if not silent else dict(sig=sig + '.silent_loss', model=path_model(ex), fault=kind))
    else:
        agg.note('if an accepted sample does not end up in an intact published file, an error is reported no later than the first call after the '
                 'failure (when there is one) [fault in %s]' % kind, True)
    # sticky refusal: once has_failure is set (or a call failed for an I/O reason), later calls are refused
    failed = [i for i, c in enumerate(calls) if i not in accepted]
    if failed:
        later_ok = [i for i in accepted if i > failed[0] and ex.valid(calls[failed[0]]['post']['has_failure'] == 1)]
        agg.note('after a reported fatal I/O error (has_failure) the writer refuses every further write', not later_ok,
                 None if not later_ok else dict(sig='C10.write_after_failure', model=path_model(ex), fault=kind))
    # (c) files published before the fault are left alone
    for f in data_files:
        if f['rename_ev'] is not None and f['rename_ev'] < t_fault:
            later = [e for e in ex.events[t_fault:] if e[0] in ('H5Fcreate', 'rename', 'remove')
                     and any(isinstance(a, SymStr) and envstubs.strid(a) in (envstubs.strid(f['name']), envstubs.strid(f['final_name'])) for a in e[1:3])]
            agg.note('files finalized before the fault are not touched afterwards', not later, None if not later else dict(sig='C10.touched', model=path_model(ex)))


# ----------------------------------------------------------------------------- C11: a later session on a directory that already holds files

def check_session(ex, cfg, status, ret, agg):
    """valid calls on a channel whose directory may already contain finalized files (existence of every final name symbolic)"""
    if status != 'ret':
        agg.note('no C assert / abort / NULL dereference reachable when files of an earlier session exist', False, path_model(ex)); return
    agg.note('no C assert / abort / NULL dereference reachable when files of an earlier session exist', True)
    files, problems = build_files(ex)
    agg.note('only files this writer created and closed are renamed to a final name or removed (a stale tmp. file of a killed recorder is never published)',
             not problems, None if not problems else dict(problems=[p_[:2] for p_ in problems], model=path_model(ex)))
    if problems: return
    calls = ex.user['calls']
    data_files = [f for f in files if not f['is_props']]
    E = envstubs.env(ex)
    # 1. never create / rename onto a final name that exists
    for f in data_files:
        from .wpath import expected_names
        tmpn, finn = expected_names(ex, cfg, f['window'])
        from .wpath import same_name
        acc = [e for e in ex.events[:f['ev']] if e[0] == 'access' and same_name(ex, e[1], finn)]
        ok = bool(acc) and (acc[-1][2] is False or (not isinstance(acc[-1][2], bool) and ex.valid(z3.Not(acc[-1][2]))))
        agg.note('a data file is created only if its final name does not exist (a session never replaces a file finalized earlier)', ok,
                 None if ok else dict(model=path_model(ex)))
        if f['rename_ev'] is not None:
            ok2 = same_name(ex, f['final_name'], finn)
            agg.note('a tmp file is renamed only onto the final name that was seen absent before it was created', ok2, None if ok2 else path_model(ex))
    # 2. a call that needs a file period whose final name exists is refused, without a fatal failure, and later periods stay writable
    for i, c in enumerate(calls):
        refused_exist = [e for e in ex.events[c['ev0']:c['ev1']] if e[0] == 'access' and (e[2] is True or (not isinstance(e[2], bool) and ex.valid(e[2])))
                         and any('rf@' in p and 'tmp.' not in p for p in e[1].parts if isinstance(p, str))]
        if refused_exist:
            check_claim(ex, agg, 'a write that would need a file period finalized by an earlier session is rejected', c['ret'] != 0)
            check_claim(ex, agg, 'such a refusal is not a fatal I/O failure: the writer remains usable for later periods (has_failure stays 0)', c['post']['has_failure'] == 0)
            created = [e for e in ex.events[c['ev0']:c['ev1']] if e[0] in ('H5Fcreate', 'rename', 'remove') and
                       any(isinstance(a, SymStr) and envstubs.strid(a) in (envstubs.strid(refused_exist[-1][1]),) for a in e[1:3])]
            agg.note('the existing finalized file is neither created over, renamed over, nor removed', not created, None if not created else path_model(ex))
        elif ex.valid(c['ret'] == 0) and i > 0 and not ex.valid(calls[i - 1]['ret'] == 0):
            agg.note('after a refused period a call into a free later period is accepted', True)
