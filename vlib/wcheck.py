"""Additional per-path checkers for the write-path harness: rejection atomicity (C05), faults (C10), sessions (C11)."""
import z3
from . import envstubs
from .llsym import Ptr, SymStr
from .wpath import (Agg, check_claim, path_model, build_files, MUTATING, check_path)

STATE_FIELDS = ['global_index', 'dataset_index', 'dataset_avail', 'block_index', 'next_index_avail', 'present_seq', 'hdf5_file', 'dataset',
                'index_dataset', 'has_failure', 'sub_directory', 'dataspace']


def same_state(pre, post):
    conj = []
    for f in STATE_FIELDS:
        a, b = pre[f], post[f]
        if isinstance(a, Ptr) or isinstance(b, Ptr):
            conj.append(z3.BoolVal(isinstance(a, Ptr) and isinstance(b, Ptr) and a.region == b.region))
        else:
            conj.append(a == b)
    for k in ('basename', 'subdir_str'):
        a, b = pre[k], post[k]
        if a is None or b is None: conj.append(z3.BoolVal(a is None and b is None))
        else:
            e = envstubs.str_eq(a.copy(), b.copy())
            conj.append(e if not isinstance(e, bool) else z3.BoolVal(e))
    return z3.And(*conj)


def check_reject(ex, cfg, status, ret, agg):
    """history = zero or more valid calls followed by ONE arbitrary (possibly malformed) call, then close"""
    if status != 'ret':
        agg.note('no C assert / abort / NULL dereference reachable with arbitrary block arrays', False, path_model(ex)); return
    agg.note('no C assert / abort / NULL dereference reachable with arbitrary block arrays', True)
    calls = ex.user['calls']
    if any(not ex.valid(c['ret'] == 0) for c in calls[:-1]): return
    c = calls[-1]
    mal = c['malformed']
    if c.get('null_vector'):
        mal = z3.BoolVal(True)
    r = c['ret']
    rejected = ex.valid(r != 0)
    accepted = ex.valid(r == 0)
    if not (rejected or accepted):
        agg.note('return value is determined on every path', False, path_model(ex)); return
    if rejected:
        check_claim(ex, agg, 'rejected (non-zero return) only if the call is malformed: first index before the cursor, b[0] != 0, non-increasing '
                             'b or g, b step > g step, b[i] >= vector length, NULL data, or several blocks in continuous mode', mal)
        mut = [e for e in ex.events[c['ev0']:c['ev1']] if e[0] in MUTATING]
        agg.note('a rejected call issues no mutating file-system / HDF5 operation (create, extend, write, attribute, mkdir, rename, remove)',
                 not mut, None if not mut else dict(events=[e[0] for e in mut][:6], model=path_model(ex)))
        check_claim(ex, agg, 'a rejected call leaves the writer cursor and open-file state exactly as before', same_state(c['pre'], c['post']))
    else:
        check_claim(ex, agg, 'a malformed call is never accepted', z3.Not(mal))
    # the rest of the history (earlier valid calls + close) must still satisfy the recording obligations
    if accepted:
        check_path(ex, cfg, status, ret, agg)


def check_zero(ex, cfg, status, ret, agg):
    """a zero-length call (nothing to write) must change nothing, whatever its arrays say"""
    if status != 'ret':
        agg.note('no C assert / abort / NULL dereference reachable with arbitrary block arrays', False, path_model(ex)); return
    calls = ex.user['calls']
    if any(not ex.valid(c['ret'] == 0) for c in calls[:-1]): return
    c = calls[-1]
    mut = [e for e in ex.events[c['ev0']:c['ev1']] if e[0] in MUTATING]
    agg.note('a zero-length call issues no mutating operation', not mut, None if not mut else path_model(ex))
    check_claim(ex, agg, 'a zero-length call leaves the writer cursor and open-file state exactly as before', same_state(c['pre'], c['post']))
