"""E-AST: translate the numeric expressions of the real Python source (numpy uint64 / longdouble scalars, Python ints) into SMT.

Python `int` -> z3 Int (exact).  numpy.longdouble (x87 80-bit, 64-bit significand) values are modelled EXACTLY: every division or
multiplication is one IEEE round-to-nearest-even step encoded in linear integer arithmetic per binade (vlib/fprne.py); np.uint64(x) and
int(x) of a longdouble truncate toward zero.  The binade of each intermediate result is a finite choice (bounded by the stated value
range); the caller enumerates the choices, so each SMT query is linear.  Unsupported syntax raises Unsupported (the check is then
inconclusive -- a refactoring cannot silently drop an obligation).
"""
import ast
from fractions import Fraction
import z3
from . import fprne

P = 64   # significand bits of numpy.longdouble on x86-64


class Unsupported(Exception):
    pass


class LD:
    """symbolic binary float: value = M * 2^(e - p + 1), integer mantissa M (2^(p-1) <= M <= 2^p), concrete binade e; p = 64 for
    numpy.longdouble (x87), 53 for Python floats / float64"""
    def __init__(self, M, e, p=P): self.M, self.e, self.p = M, e, p


class LDC:
    """concrete longdouble constant, as an exact Fraction"""
    def __init__(self, fr): self.fr = Fraction(fr)


class Choices:
    """enumeration of binade choices by re-evaluation with a decision prefix"""
    def __init__(self): self.todo = [[]]

    def runs(self):
        while self.todo:
            self.prefix = self.todo.pop(); self.pos = 0; self.taken = []
            yield self
    def choose(self, domain):
        domain = list(domain)
        if self.pos < len(self.prefix):
            v = self.prefix[self.pos]
        else:
            v = domain[0]
            for alt in domain[1:]:
                self.todo.append(self.taken + [alt])
        self.taken.append(v); self.pos += 1
        return v


class Ctx:
    def __init__(self, choices, env, ranges):
        self.ch = choices; self.env = env; self.cons = []; self.n = 0
        self.ranges = ranges      # {z3 var name: (lo, hi)} concrete value ranges used to bound binades

    def fresh(self, nm):
        self.n += 1
        return z3.Int('%s!%d' % (nm, self.n))

    def bounds(self, term):
        """concrete (lo, hi) bounds of an integer term by interval arithmetic over the declared ranges"""
        if isinstance(term, int): return term, term
        if z3.is_int_value(term): return term.as_long(), term.as_long()
        if z3.is_const(term):
            nm = term.decl().name()
            if nm in self.ranges: return self.ranges[nm]
            raise Unsupported('no range for %s' % nm)
        k = term.decl().kind()
        ch = [self.bounds(c) for c in term.children()]
        if k == z3.Z3_OP_ADD: return sum(c[0] for c in ch), sum(c[1] for c in ch)
        if k == z3.Z3_OP_MUL:
            lo, hi = ch[0]
            for (a, b) in ch[1:]:
                cands = [lo * a, lo * b, hi * a, hi * b]; lo, hi = min(cands), max(cands)
            return lo, hi
        if k == z3.Z3_OP_SUB: return ch[0][0] - sum(c[1] for c in ch[1:]), ch[0][1] - sum(c[0] for c in ch[1:])
        if k in (z3.Z3_OP_IDIV, z3.Z3_OP_DIV):
            (a, b), (c, d) = ch
            if c <= 0: raise Unsupported('division by non-positive range')
            return a // d, b // c
        raise Unsupported('bounds of %s' % term)

    # ---- longdouble operations
    def div_int_ldc(self, a, S):
        """RNE_P(a / S) for integer term a >= 1 and constant S > 0"""
        lo, hi = self.bounds(a)
        lo = max(lo, 1)
        e = self.ch.choose(fprne.binades(Fraction(lo) / S.fr, Fraction(hi) / S.fr))
        M = self.fresh('Mq')
        self.cons += fprne.rne_constraints(a * S.fr.denominator, z3.IntVal(S.fr.numerator), e, P, M)
        r = LD(M, e); r.lo, r.hi = Fraction(lo) / S.fr, Fraction(hi) / S.fr
        return r

    def div_int_int(self, a, b):
        """Python `a / b` on ints: the correctly rounded float64 quotient (CPython long_true_divide), b a positive constant"""
        if z3.is_int_value(b) if not isinstance(b, int) else True: bv = b if isinstance(b, int) else b.as_long()
        else: raise Unsupported('true division by a non-constant')
        if bv <= 0: raise Unsupported('true division by a non-positive constant')
        if isinstance(a, int): return LDC(_rne_const(Fraction(a, bv), 53)) if a > 0 else (LDC(0) if a == 0 else _unsup('negative true division'))
        lo, hi = self.bounds(a)
        if lo < 0: raise Unsupported('true division of a possibly negative value')
        dom = (['zero'] if lo == 0 else []) + fprne.binades(Fraction(max(lo, 1), bv), Fraction(max(hi, 1), bv))
        e = self.ch.choose(dom)
        if e == 'zero':
            self.cons.append(a == 0); return LDC(0)
        M = self.fresh('Mf')
        self.cons += fprne.rne_constraints(a, z3.IntVal(bv), e, 53, M)
        return LD(M, e, 53)

    def mul_ld_int(self, x, c):
        """RNE_P(x * c) for LD x and positive integer constant c"""
        if not isinstance(c, int) or c < 1: raise Unsupported('longdouble * non-constant')
        # exact product = c * M * 2^(x.e-P+1); its binade is x.e + floor(log2(c)) or +1
        import math
        b0 = x.e + int(math.floor(math.log2(c)))
        e2 = self.ch.choose([b0, b0 + 1])
        M2 = self.fresh('Mp')
        # A/B with A = c*M, B = 2^(P-1-x.e) (or scaled if negative)
        if x.p == 53 and c >= 2**53: raise Unsupported('float * int >= 2^53')
        sh = (x.p - 1) - x.e
        if sh >= 0: A, B = c * x.M, z3.IntVal(2**sh)
        else: A, B = c * x.M * (2**(-sh)), z3.IntVal(1)
        self.cons += fprne.rne_constraints(A, B, e2, x.p, M2)
        return LD(M2, e2, x.p)

    def trunc(self, x):
        if isinstance(x, LD): return fprne.value_floor(x.M, x.e, x.p)
        if isinstance(x, LDC): return z3.IntVal(int(x.fr))
        return x


def ev(node, cx):
    """evaluate an expression AST to: z3 Int term | python int | LD | LDC"""
    if isinstance(node, ast.Constant):
        if isinstance(node.value, bool) or not isinstance(node.value, (int, float)): raise Unsupported('constant %r' % (node.value,))
        if isinstance(node.value, float):
            if node.value != int(node.value): raise Unsupported('float constant')
            return int(node.value)
        return node.value
    if isinstance(node, (ast.Name, ast.Attribute)):
        k = ast.unparse(node)
        if k in cx.env: return cx.env[k]
        raise Unsupported('name %s' % k)
    if isinstance(node, ast.Call):
        f = ast.unparse(node.func)
        if f in ('int', 'np.uint64', 'numpy.uint64', 'np.int64') and len(node.args) == 1 and not node.keywords:
            return cx.trunc(ev(node.args[0], cx))
        if f in ('np.longdouble', 'numpy.longdouble') and len(node.args) == 1:
            v = ev(node.args[0], cx)
            if isinstance(v, int): return LDC(v)
            return ('ld_of_int', v)
        raise Unsupported('call %s' % f)
    if isinstance(node, ast.BinOp):
        a, b = ev(node.left, cx), ev(node.right, cx)
        op = type(node.op)
        isint = lambda v: isinstance(v, int) or (not isinstance(v, (LD, LDC, tuple)))
        if isinstance(a, tuple): a = a[1]
        if isinstance(b, tuple): b = b[1]
        if op is ast.Div:
            if isint(a) and isinstance(b, LDC): return cx.div_int_ldc(a, b)
            if isint(a) and isint(b): return cx.div_int_int(a, b)
            raise Unsupported('true division %s' % ast.unparse(node))
        if op is ast.Mult:
            if isinstance(a, LD) and isinstance(b, int): return cx.mul_ld_int(a, b)
            if isinstance(b, LD) and isinstance(a, int): return cx.mul_ld_int(b, a)
            if isinstance(a, LDC) and isinstance(b, int): return LDC(_rne_const(a.fr * b))
            if isinstance(b, LDC) and isinstance(a, int): return LDC(_rne_const(b.fr * a))
            if isint(a) and isint(b): return a * b
            raise Unsupported('multiplication %s' % ast.unparse(node))
        if isint(a) and isint(b):
            if op is ast.Add: return a + b
            if op is ast.Sub: return a - b
            if op is ast.FloorDiv:
                if isinstance(a, int) and isinstance(b, int): return a // b
                return a / b
            if op is ast.Mod: return a % b
        raise Unsupported('binary op %s' % ast.unparse(node))
    if isinstance(node, ast.UnaryOp) and isinstance(node.op, ast.USub):
        v = ev(node.operand, cx)
        if isinstance(v, int): return -v
    raise Unsupported('expression %s' % ast.unparse(node))


def _unsup(msg):
    raise Unsupported(msg)


def _rne_const(fr, P=P):
    """round a positive Fraction to P significant bits, nearest-even (concrete)"""
    import math
    if fr == 0: return Fraction(0)
    e = math.floor(math.log2(fr))
    while Fraction(2)**e > fr: e -= 1
    while Fraction(2)**(e + 1) <= fr: e += 1
    scale = Fraction(2)**(P - 1 - e)
    m = fr * scale
    fl = m.numerator // m.denominator
    rem = m - fl
    if rem > Fraction(1, 2) or (rem == Fraction(1, 2) and fl % 2 == 1): fl += 1
    return Fraction(fl) / scale


def ld_const(n, d):
    """the longdouble numpy computes for np.longdouble(np.uint64(n)) / np.longdouble(np.uint64(d))"""
    return LDC(_rne_const(Fraction(n, d)))


def assignments(fn_node):
    """{target name: value AST} for simple single-target assignments in a function body, in order (later ones override)"""
    out = []
    for node in ast.walk(fn_node):
        if isinstance(node, ast.Assign) and len(node.targets) == 1 and isinstance(node.targets[0], ast.Name):
            out.append((node.lineno, node.targets[0].id, node.value))
    out.sort()
    return out


def find_function(path, qualname):
    src = open(path).read()
    tree = ast.parse(src)
    parts = qualname.split('.')
    scope = tree.body
    node = None
    for p in parts:
        node = next((x for x in scope if isinstance(x, (ast.FunctionDef, ast.ClassDef)) and x.name == p), None)
        if node is None: raise Unsupported('%s not found in %s' % (qualname, path))
        scope = node.body
    return node
