"""Environment model for E-LL: libc strings, POSIX file calls, HDF5.  Every call appends a structured event to
ex.events; fallible calls return success or -- in fault mode -- a symbolic status.

Contracts assumed (listed in the evidence of every check that uses them):
 - str*/snprintf: C semantics on NUL-terminated strings that fit their buffers (buffer sizes are not modelled)
 - access/stat: answer is an arbitrary boolean per distinct path, updated by H5Fcreate/rename/remove/mkdir
 - gmtime: a function of its argument, injective on seconds (calendar breakdown itself is trusted libc)
 - HDF5: ids are fresh non-zero handles; calls succeed unless fault mode makes their status symbolic
"""
import re
import z3
from .llsym import Ptr, NULL, SymStr, AssertFail, Inconclusive, M, FPV, zid

U32 = 1 << 32
NEG1_32 = U32 - 1
NEG1_64 = (1 << 64) - 1


def strid(st):
    out = []
    for p in st.parts:
        if isinstance(p, str): out.append(p)
        else: out.append((p[0], zid(p[1]), p[2]))
    return tuple(out)


def skey(p):
    return (p.region, tuple(p.path[:-1])), (p.path[-1] if p.path else 0)


def get_str(ex, p):
    if not isinstance(p, Ptr) or p.region is None:
        raise AssertFail('string function on NULL/non-pointer')
    (rid, key), off = skey(p)
    cells = ex.mem[rid]['cells']
    key = ex.key(key)
    if key not in cells:
        cells[key] = SymStr([('opaque', '%s%s' % (rid, key), 0)])
    s = cells[key]
    if not isinstance(s, SymStr):
        raise Inconclusive('not a string at %s: %r' % (p, s))
    if not (isinstance(off, int) and off == 0):
        first = s.parts[0] if s.parts else ''
        if not (isinstance(first, str) and isinstance(off, int) and off <= len(first)):
            raise Inconclusive('string offset into symbolic part')
        return SymStr([first[off:]] + s.parts[1:])
    return s.copy()


def set_str(ex, p, s):
    (rid, key), off = skey(p)
    if not (isinstance(off, int) and off == 0):
        raise Inconclusive('string store at non-zero offset')
    ex.mem[rid]['cells'][ex.key(key)] = s.norm()


def str_eq(a, b):
    """python bool / z3 Bool: are two abstract strings equal"""
    a, b = a.copy().norm().parts, b.copy().norm().parts
    if len(a) != len(b):
        # different shapes: only comparable when both are fully concrete
        if all(isinstance(x, str) for x in a + b): return ''.join(a) == ''.join(b)
        return False
    conj = []
    for x, y in zip(a, b):
        if isinstance(x, str) or isinstance(y, str):
            if x != y: return False
        else:
            if x[0] != y[0] or x[2] != y[2]: return False
            if x[0] == 'opaque':
                if x[1] != y[1]: return False
            else:
                e = (x[1] == y[1])
                if e is False: return False
                if e is not True: conj.append(e)
    return z3.And(*conj) if conj else True


def parse_fmt(fmt):
    out = []; pos = 0
    for m in re.finditer(r'%(0?)(\d*)(l|ll)?([iduscx%])', fmt):
        if m.start() > pos: out.append(fmt[pos:m.start()])
        out.append(('conv', m.group(4), (m.group(1) or '') + (m.group(2) or ''), m.group(3) or ''))
        pos = m.end()
    if pos < len(fmt): out.append(fmt[pos:])
    return out


class Env:
    """HDF5 / FS model state (per path)"""
    def __init__(self):
        self.next_id = 1000; self.obj = {}; self.exists = {}; self.gmtimes = []
        self.fault_vars = []; self.tm_n = 0

    def new(self, kind, **kw):
        self.next_id += 1; self.obj[self.next_id] = dict(kind=kind, id=self.next_id, **kw); return self.next_id


def env(ex):
    if ex.env is None:
        ex.env = Env()
    return ex.env


def ev(ex, *a):
    ex.events.append(a)


def idv(x):
    return x if isinstance(x, int) else ('sym', zid(x))


def status(ex, what, neg=NEG1_32):
    """return value of a fallible env call: 0 = success, or (fault mode) symbolic failure.
    ex.user['fault'] = None | 'any' (every fallible call may fail independently) | callable(ex, what, n) -> z3 Bool|bool"""
    fm = ex.user.get('fault')
    if not fm: return 0, False
    e = env(ex)
    n = len(e.fault_vars)
    if callable(fm):
        f = fm(ex, what, n)
    else:
        f = z3.Bool('fault!%d!%s' % (n, what))
    e.fault_vars.append((what, f, len(ex.events)))
    if f is False: return 0, False
    if f is True: return neg, True
    return z3.If(f, z3.IntVal(neg), z3.IntVal(0)), f


def exists_var(ex, s):
    e = env(ex); k = strid(s)
    if k not in e.exists:
        init = ex.user.get('fs_init')
        e.exists[k] = init(ex, s) if init else z3.Bool('exists!%d' % len(e.exists))
    return e.exists[k]


def mk_stubs():
    S = {}

    def st_strcpy(ex, d, s): set_str(ex, d, get_str(ex, s)); return d
    def st_strcat(ex, d, s):
        a = get_str(ex, d); a.parts += get_str(ex, s).parts; set_str(ex, d, a); return d
    def st_strlen(ex, s):
        st = get_str(ex, s).norm()
        if st.is_concrete(): return len(st.text())
        v = ex.fresh('strlen', 16)
        ex.user.setdefault('strlen_of', {})[v.get_id()] = st.copy()       # remembered so that length arithmetic can be interpreted structurally
        return v
    def _len_parts(ex, n, src):
        """the prefix of abstract string `src` that has length n, when n is concrete and falls inside a literal prefix, or n is
        strlen(src) - strlen(t) for a remembered abstract suffix t of src"""
        if isinstance(n, int) or z3.is_int_value(n):
            nv = n if isinstance(n, int) else n.as_long()
            first = src.parts[0] if src.parts else ''
            if src.is_concrete(): return SymStr([src.text()[:nv]]), nv >= len(src.text())
            if isinstance(first, str) and nv <= len(first): return SymStr([first[:nv]]), False
            raise Inconclusive('strncpy: length reaches into a symbolic part')
        reg = ex.user.get('strlen_of', {})
        def known(t):
            if isinstance(t, int): return SymStr(['x' * t]) if False else None
            return reg.get(t.get_id())
        if z3.is_app(n) and n.decl().kind() == z3.Z3_OP_ITE and z3.is_app(n.arg(1)) and n.arg(1).decl().kind() == z3.Z3_OP_SUB:
            n = n.arg(1)          # wrap-aware unsigned subtraction: the no-wrap branch (the suffix relation below implies a >= b)
        if z3.is_app(n) and n.decl().kind() == z3.Z3_OP_SUB and len(n.children()) == 2:
            a, b = n.children()
            sa = known(a); sb = known(b) if not z3.is_int_value(b) else None
            if sa is not None and strid(sa.copy().norm()) == strid(src.copy().norm()):
                pa = sa.copy().norm().parts
                if z3.is_int_value(b):
                    k = b.as_long(); last = pa[-1] if pa else ''
                    if isinstance(last, str) and k <= len(last): return SymStr(pa[:-1] + [last[:len(last) - k]]), False
                elif sb is not None:
                    pb = sb.copy().norm().parts
                    # sb must be a (part-wise) suffix of sa; the first part of sb may be the tail of a literal part of sa
                    if len(pb) <= len(pa):
                        tail = pa[len(pa) - len(pb):]
                        if tail[1:] == pb[1:] and isinstance(tail[0], str) and isinstance(pb[0], str) and tail[0].endswith(pb[0]):
                            return SymStr(pa[:len(pa) - len(pb)] + [tail[0][:len(tail[0]) - len(pb[0])]]), False
                        if tail == pb: return SymStr(pa[:len(pa) - len(pb)]), False
        raise Inconclusive('strncpy: length term not interpretable: ' + (n.sexpr()[:200] if hasattr(n, 'sexpr') else repr(n)))
    def st_strncpy(ex, d, s_, n):
        src = get_str(ex, s_).norm()
        pre, whole = _len_parts(ex, n, src)
        # C semantics: no terminator is added when the source is longer than n; the destination buffers of the writer are zero
        # initialised (char x[BIG] = ""), which the abstract domain represents as the empty string, so the prefix is the result
        set_str(ex, d, pre); return d
    def st_strncat(ex, d, s_, n):
        a = get_str(ex, d); src = get_str(ex, s_).norm()
        pre, whole = _len_parts(ex, n, src)
        a.parts += pre.parts; set_str(ex, d, a); return d
    def st_strrchr(ex, h, c):
        hs = get_str(ex, h).norm()
        cv = c if isinstance(c, int) else (c.as_long() if z3.is_int_value(c) else None)
        if cv is None: raise Inconclusive('strrchr with symbolic character')
        ch_ = chr(cv & 0xff)
        if hs.is_concrete():
            i = hs.text().rfind(ch_)
            return NULL if i < 0 else Ptr(h.region, tuple(h.path[:-1]) + ((h.path[-1] if isinstance(h.path[-1], int) else 0) + i,))
        raise Inconclusive('strrchr on a string with symbolic parts')
    def st_strchr(ex, h, c):
        hs = get_str(ex, h).norm()
        cv = c if isinstance(c, int) else (c.as_long() if z3.is_int_value(c) else None)
        if cv is None: raise Inconclusive('strchr with symbolic character')
        ch_ = chr(cv & 0xff); first = hs.parts[0] if hs.parts else ''
        if isinstance(first, str) and ch_ in first:
            return Ptr(h.region, tuple(h.path[:-1]) + ((h.path[-1] if isinstance(h.path[-1], int) else 0) + first.index(ch_),))
        if hs.is_concrete(): return NULL
        raise Inconclusive('strchr: character not in the literal prefix')
    def st_strcmp(ex, a, b):
        eq = str_eq(get_str(ex, a), get_str(ex, b))
        if isinstance(eq, bool): return 0 if eq else 1
        return z3.If(eq, z3.IntVal(0), z3.IntVal(1))
    def st_strstr(ex, h, n):
        hs, ns = get_str(ex, h).norm(), get_str(ex, n).norm()
        if not ns.is_concrete(): raise Inconclusive('strstr with symbolic needle')
        needle = ns.text()
        first = hs.parts[0] if hs.parts else ''
        if isinstance(first, str) and needle in first:
            return Ptr(h.region, tuple(h.path[:-1]) + (first.index(needle),))
        if hs.is_concrete(): return NULL
        raise Inconclusive('strstr: needle not in literal prefix of %r' % hs)
    def st_snprintf(ex, buf, n, fmt, *args):
        f = get_str(ex, fmt).norm()
        if not f.is_concrete(): raise Inconclusive('symbolic format string')
        parts = []; ai = 0
        for it in parse_fmt(f.text()):
            if isinstance(it, str): parts.append(it)
            else:
                _, conv, width, lmod = it
                if conv == '%': parts.append('%'); continue
                a = args[ai]; ai += 1
                if conv == 's': parts += get_str(ex, a).parts
                else:
                    if conv in 'id' and not lmod:      # int argument: signed 32 bit
                        a = ex.signed(a, 32)
                    parts.append(('d', a, conv + width))
        set_str(ex, buf, SymStr(parts)); return 0
    S.update({'@strncpy': st_strncpy, '@strncat': st_strncat, '@strrchr': st_strrchr, '@strchr': st_strchr,
              '@strcpy': st_strcpy, '@strcat': st_strcat, '@strlen': st_strlen, '@strcmp': st_strcmp, '@strstr': st_strstr,
              '@snprintf': st_snprintf})

    def st_memset(ex, p, val, n, vol=None):
        reg = ex.mem[p.region]; ty = reg['ty']; key = ex.key(p.path)
        if ty is not None and ty.kind == 'arr' and ty.elem.kind == 'int' and ty.elem.bits == 8 and not key:
            reg['cells'][()] = SymStr([''])
        elif ty is not None and ty.kind == 'arr' and ty.elem.kind == 'int' and not key:
            for i in range(ty.n): reg['cells'][(i,)] = val if isinstance(val, int) and val == 0 else 0
        elif ty is not None and ty.kind == 'struct' and isinstance(val, int) and val == 0:
            reg['cells'].clear(); reg['zeroed'] = True
        else:
            reg['cells']['memset'] = val
        return None
    def st_memcpy(ex, d, s, n, vol=None):
        src = ex.mem[s.region]['cells']
        dst = ex.mem[d.region]['cells']
        init = ex.mem[s.region].get('init')
        if init is not None and 'zeroinitializer' in init and not src:
            dst.clear(); ex.mem[d.region]['zeroed'] = True
        for k, v in list(src.items()):
            if k == 'bytes': continue
            dst[k] = v.copy() if isinstance(v, SymStr) else v
        return None
    def st_memmove(ex, d, s_, n, vol=None):
        """memmove inside one abstract string: the tail starting at `s_` (terminator included) is moved down to `d`"""
        if not (isinstance(d, Ptr) and isinstance(s_, Ptr) and d.region == s_.region and tuple(d.path[:-1]) == tuple(s_.path[:-1])):
            return st_memcpy(ex, d, s_, n, vol)
        od, os_ = d.path[-1], s_.path[-1]
        whole = get_str(ex, Ptr(d.region, tuple(d.path[:-1]) + (0,))).norm()
        first = whole.parts[0] if whole.parts else ''
        if not (isinstance(od, int) and isinstance(os_, int) and isinstance(first, str) and od <= os_ <= len(first)):
            raise Inconclusive('memmove: offsets into a symbolic part')
        tail = SymStr([first[os_:]] + whole.parts[1:]).norm()
        # the length must be strlen(tail) + 1 (the whole rest including the terminator)
        ok = False
        if isinstance(n, int): ok = tail.is_concrete() and n == len(tail.text()) + 1
        else:
            reg = ex.user.get('strlen_of', {})
            def walk(t, depth=0):
                if t.get_id() in reg and strid(reg[t.get_id()].copy().norm()) == strid(tail): return True
                return depth < 4 and any(walk(c, depth + 1) for c in t.children())
            ok = walk(n)
        if not ok: raise Inconclusive('memmove: length is not the length of the moved tail')
        set_str(ex, Ptr(d.region, tuple(d.path[:-1]) + (0,)), SymStr([first[:od]] + tail.parts))
        return d
    S['@llvm.memset.p0i8.i64'] = st_memset; S['@llvm.memcpy.p0i8.p0i8.i64'] = st_memcpy; S['@llvm.memmove.p0i8.p0i8.i64'] = st_memmove
    S['@fprintf'] = lambda ex, *a: (ev(ex, 'stderr'), 0)[1]
    S['@printf'] = lambda ex, *a: 0
    S['@fflush'] = lambda ex, *a: 0
    def free(ex, p):
        if isinstance(p, Ptr) and p.region is not None:
            ev(ex, 'free', p.region)
            ex.mem[p.region]['freed'] = True
        return None
    S['@free'] = free
    def malloc(ex, n):
        rid = ex.new_region('heap'); ex.mem[rid]['size'] = n
        return Ptr(rid, (0,))
    S['@malloc'] = malloc
    def calloc(ex, n, sz):
        rid = ex.new_region('heap'); ex.mem[rid]['size'] = (n, sz); ex.mem[rid]['cells'][()] = SymStr([''])      # zero-filled: as a string, empty
        return Ptr(rid, (0,))
    S['@calloc'] = calloc
    def afail(ex, *a):
        msg = ''
        try: msg = get_str(ex, a[0]).text()
        except Exception: pass
        raise AssertFail('C assert: ' + msg)
    S['@__assert_fail'] = afail
    def cexit(ex, c): raise AssertFail('exit()')
    S['@exit'] = cexit
    S['@H5open'] = lambda ex: 0
    S['@H5check_version'] = lambda ex, *a: 0
    def st_time(ex, p):
        t = ex.fresh('time', 40); ev(ex, 'time', t); return t
    S['@time'] = st_time

    def gmtime(ex, p):
        sec = ex.load(p, None)
        e = env(ex); e.tm_n += 1
        F = [z3.Function('tm_%s' % nm, z3.IntSort(), z3.IntSort()) for nm in ('sec', 'min', 'hour', 'mday', 'mon', 'year')]
        rid = ex.new_region('tm')
        vals = []
        for i, f in enumerate(F):
            v = f(sec) if not isinstance(sec, int) else f(z3.IntVal(sec))
            vals.append(v)
            ex.mem[rid]['cells'][(i,)] = v
        # value ranges of struct tm (as unsigned 32 bit ints, all non-negative for years >= 1900)
        lo_hi = [(0, 60), (0, 59), (0, 23), (1, 31), (0, 11), (70, 8099)]
        for v, (lo, hi) in zip(vals, lo_hi):
            ex.assume(z3.And(v >= lo, v <= hi))
        # injectivity of the calendar breakdown w.r.t. earlier calls on this path
        for (s0, v0) in e.gmtimes:
            same = z3.And(*[a == b for a, b in zip(v0, vals)])
            ex.assume(same == (s0 == sec))
        e.gmtimes.append((sec, vals))
        ev(ex, 'gmtime', sec)
        return Ptr(rid)
    S['@gmtime'] = gmtime

    def access(ex, p, mode):
        s = get_str(ex, p).norm()
        b = exists_var(ex, s)
        ev(ex, 'access', s, b)
        if isinstance(b, bool): return 0 if b else NEG1_32
        return z3.If(b, z3.IntVal(0), z3.IntVal(NEG1_32))
    S['@access'] = access
    def stat(ex, p, buf):
        s = get_str(ex, p).norm()
        e = env(ex); k = ('stat', strid(s))
        if k not in e.exists: e.exists[k] = z3.Bool('stat_ok!%d' % len(e.exists))
        ev(ex, 'stat', s, e.exists[k])
        # st_mode: directory bit symbolic but fixed per path
        km = ('isdir', strid(s))
        if km not in e.exists: e.exists[km] = z3.Bool('isdir!%d' % len(e.exists))
        ex.user.setdefault('stat_isdir', {})[buf.region] = e.exists[km]
        b = e.exists[k]
        if isinstance(b, bool): return 0 if b else NEG1_32
        return z3.If(b, z3.IntVal(0), z3.IntVal(NEG1_32))
    S['@stat'] = stat
    def mkdir(ex, p, mode):
        s = get_str(ex, p).norm()
        st, f = status(ex, 'mkdir'); ev(ex, 'mkdir', s, f)
        e = env(ex)
        e.exists[('stat', strid(s))] = True if f is False else z3.Or(z3.Not(f), e.exists.get(('stat', strid(s)), False))
        return st
    S['@mkdir'] = mkdir
    def rename(ex, a, b):
        sa, sb = get_str(ex, a).norm(), get_str(ex, b).norm()
        st, f = status(ex, 'rename'); ev(ex, 'rename', sa, sb, f)
        e = env(ex)
        if f is False:
            e.exists[strid(sa)] = False; e.exists[strid(sb)] = True
        else:
            oa, ob = exists_var(ex, sa), exists_var(ex, sb)
            e.exists[strid(sa)] = z3.And(f, oa); e.exists[strid(sb)] = z3.Or(z3.Not(f), ob)
        return st
    S['@rename'] = rename
    def remove(ex, a):
        sa = get_str(ex, a).norm()
        st, f = status(ex, 'remove'); ev(ex, 'remove', sa, f)
        if f is False: env(ex).exists[strid(sa)] = False
        else: env(ex).exists[strid(sa)] = z3.And(f, exists_var(ex, sa))
        return st
    S['@remove'] = remove
    def errno_loc(ex):
        rid = ex.user.get('errno_region')
        if rid is None:
            rid = ex.new_region('errno'); ex.user['errno_region'] = rid
        return Ptr(rid)
    S['@__errno_location'] = errno_loc

    # ---- HDF5
    def H5Fcreate(ex, name, flags, fcpl, fapl):
        s = get_str(ex, name).norm()
        if ex.user.get('stale_tmp') and isinstance(flags, int) and (flags & 4):
            # H5F_ACC_EXCL on a name that already exists (e.g. the tmp. file of a recorder that was killed) fails; nothing is created
            pre = exists_var(ex, s)
            if pre is True or (pre is not False and ex.decide(pre)):
                ev(ex, 'H5Fcreate_exists', s, flags); return NEG1_64
        st, f = status(ex, 'H5Fcreate')
        fid = env(ex).new('file', name=s, flags=flags, open=True)
        ev(ex, 'H5Fcreate', s, flags, fid, f)
        e = env(ex)
        if f is False: e.exists[strid(s)] = True
        else: e.exists[strid(s)] = z3.Or(z3.Not(f), exists_var(ex, s))
        if f is False: return fid
        # handles stay concrete: fork on the outcome right here
        return NEG1_64 if ex.decide(f) else fid
    S['@H5Fcreate'] = H5Fcreate
    def dim0(ex, p):
        if not isinstance(p, Ptr) or p.region is None: return None
        return ex.load(Ptr(p.region, tuple(p.path[:-1]) + (0,)), None)
    def dim1(ex, p):
        if not isinstance(p, Ptr) or p.region is None: return None
        return ex.load(Ptr(p.region, tuple(p.path[:-1]) + (1,)), None)
    def H5Screate_simple(ex, rank, dims, maxdims):
        d0, d1, m0 = dim0(ex, dims), dim1(ex, dims), dim0(ex, maxdims)
        sid = env(ex).new('space', dims0=d0, dims1=d1, max0=m0, sel=None, open=True)
        ev(ex, 'H5Screate_simple', sid, rank, d0, d1, m0); return sid
    S['@H5Screate_simple'] = H5Screate_simple
    def H5Dcreate2(ex, loc, name, ty, space, lcpl, dcpl, dapl):
        s = get_str(ex, name).norm()
        sp = env(ex).obj.get(space, {}) if isinstance(space, int) else {}
        st, f = status(ex, 'H5Dcreate2')
        did = env(ex).new('dataset', name=s, file=idv(loc), space=idv(space), type=ty, dcpl=dcpl, open=True,
                          extent=sp.get('dims0'), max0=sp.get('max0'), ncol=sp.get('dims1'))
        ev(ex, 'H5Dcreate2', idv(loc), s, did, sp.get('dims0'), sp.get('max0'), ty, dcpl, f)
        if f is False: return did
        return NEG1_64 if ex.decide(f) else did
    S['@H5Dcreate2'] = H5Dcreate2
    def H5Dget_space(ex, d):
        sid = env(ex).new('space', of=idv(d), sel=None, open=True); ev(ex, 'H5Dget_space', idv(d), sid); return sid
    S['@H5Dget_space'] = H5Dget_space
    def H5Sselect_hyperslab(ex, sp, op, start, stride, count, block):
        o, c = dim0(ex, start), dim0(ex, count)
        o1, c1 = dim1(ex, start), dim1(ex, count)
        if isinstance(sp, int) and sp in env(ex).obj: env(ex).obj[sp]['sel'] = (o, c, o1, c1)
        ev(ex, 'H5Sselect_hyperslab', idv(sp), o, c, o1, c1); return 0
    S['@H5Sselect_hyperslab'] = H5Sselect_hyperslab
    def H5Dwrite(ex, d, memtype, memspace, filespace, plist, buf):
        fs = env(ex).obj.get(filespace) if isinstance(filespace, int) else None
        ms = env(ex).obj.get(memspace) if isinstance(memspace, int) else None
        st, f = status(ex, 'H5Dwrite')
        ev(ex, 'H5Dwrite', idv(d), memtype, (ms or {}).get('dims0'), (fs or {}).get('sel'), buf, f,
           (ms or {}).get('dims1'), idv(memspace), idv(filespace))
        return st
    S['@H5Dwrite'] = H5Dwrite
    def H5Dset_extent(ex, d, dims):
        d0 = dim0(ex, dims)
        st, f = status(ex, 'H5Dset_extent'); ev(ex, 'H5Dset_extent', idv(d), d0, f)
        if isinstance(d, int) and d in env(ex).obj and f is False: env(ex).obj[d]['extent'] = d0
        return st
    S['@H5Dset_extent'] = H5Dset_extent
    for nm in ('H5Dclose', 'H5Sclose', 'H5Fclose', 'H5Aclose', 'H5Tclose', 'H5Pclose'):
        def mk(nm):
            def f_(ex, i):
                if nm in ('H5Dclose', 'H5Fclose'):
                    st, f = status(ex, nm)
                else:
                    st, f = 0, False
                o = env(ex).obj.get(i) if isinstance(i, int) else None
                if o is not None: o['open'] = False
                ev(ex, nm, idv(i), f); return st
            return f_
        S['@' + nm] = mk(nm)
    S['@H5Tget_size'] = lambda ex, t: ex.user.get('tsize', 2)
    S['@H5Screate'] = lambda ex, k: env(ex).new('space', scalar=True, open=True)
    def H5Tcopy(ex, t):
        i = env(ex).new('type', of=idv(t), open=True); ev(ex, 'H5Tcopy', idv(t), i); return i
    S['@H5Tcopy'] = H5Tcopy
    S['@H5Tset_size'] = lambda ex, t, n: 0
    def H5Acreate2(ex, loc, name, ty, space, acpl, aapl):
        s = get_str(ex, name).norm(); return env(ex).new('attr', name=s, loc=idv(loc), type=idv(ty), open=True)
    S['@H5Acreate2'] = H5Acreate2
    def H5Awrite(ex, a, memtype, buf):
        o = env(ex).obj.get(a, {}) if isinstance(a, int) else {}
        v = None
        try:
            cell = ex.mem[buf.region]['cells'].get(ex.key(buf.path[:-1])) if buf.path else None
            if isinstance(cell, SymStr): v = get_str(ex, buf)
            else:
                c0 = ex.mem[buf.region]['cells'].get(ex.key(buf.path))
                v = c0 if c0 is not None else ex.load(buf, None)
        except (AssertFail, Inconclusive):
            raise
        ev(ex, 'H5Awrite', o.get('loc'), o.get('name'), v, idv(memtype), o.get('type')); return 0
    S['@H5Awrite'] = H5Awrite
    for nm in ('H5Tget_class', 'H5Tget_order', 'H5Tget_precision', 'H5Tget_offset', 'H5Tget_sign'):
        S['@' + nm] = (lambda nm: lambda ex, t: ex.user[nm] if nm in ex.user else ex.fresh(nm, 31))(nm)
    def H5Pset_chunk(ex, p, rank, dims):
        ev(ex, 'H5Pset_chunk', idv(p), dim0(ex, dims), dim1(ex, dims)); return 0
    S['@H5Pset_chunk'] = H5Pset_chunk
    S['@H5Eprint2'] = lambda ex, *a: 0
    def H5Pcreate(ex, cls):
        i = env(ex).new('plist', open=True); ev(ex, 'H5Pcreate', i); return i
    S['@H5Pcreate'] = H5Pcreate
    S['@H5Pset_fill_time'] = lambda ex, p, t: (ev(ex, 'H5Pset_fill_time', idv(p), t), 0)[1]
    S['@H5Pset_alloc_time'] = lambda ex, p, t: (ev(ex, 'H5Pset_alloc_time', idv(p), t), 0)[1]
    S['@H5Pset_deflate'] = lambda ex, p, lvl: (ev(ex, 'H5Pset_deflate', idv(p), lvl), 0)[1]
    S['@H5Pset_filter'] = lambda ex, p, flt, *a: (ev(ex, 'H5Pset_filter', idv(p), flt), 0)[1]
    def H5Tcreate(ex, cls, size):
        i = env(ex).new('type', cls=cls, size=size, open=True); ev(ex, 'H5Tcreate', cls, size, i); return i
    S['@H5Tcreate'] = H5Tcreate
    def H5Tinsert(ex, parent, name, off, ty):
        ev(ex, 'H5Tinsert', idv(parent), get_str(ex, name).norm(), off, idv(ty)); return 0
    S['@H5Tinsert'] = H5Tinsert
    def H5Pset_fill_value(ex, plist, ty, ptr):
        ev(ex, 'H5Pset_fill_value', idv(plist), idv(ty), ptr); return 0
    S['@H5Pset_fill_value'] = H5Pset_fill_value
    def H5Fopen(ex, name, flags, fapl):
        s = get_str(ex, name).norm()
        ok = ex.user['H5Fopen_ok'](ex, s) if 'H5Fopen_ok' in ex.user else z3.Bool('h5fopen_ok!%d' % len(ex.events))
        fid = env(ex).new('file', name=s, flags=flags, open=True, opened=True)
        ev(ex, 'H5Fopen', s, flags, fid, ok)
        if ok is True: return fid
        if ok is False: return NEG1_64
        return z3.If(ok, z3.IntVal(fid), z3.IntVal(NEG1_64))
    S['@H5Fopen'] = H5Fopen
    def H5Aopen(ex, loc, name, aapl):
        s = get_str(ex, name).norm(); i = env(ex).new('attr', name=s, loc=idv(loc), open=True, opened=True); return i
    S['@H5Aopen'] = H5Aopen
    def H5Aread(ex, a, memtype, buf):
        o = env(ex).obj.get(a, {}) if isinstance(a, int) else {}
        name = o.get('name')
        rd = ex.user.get('H5Aread')
        v = rd(ex, name, buf) if rd else None
        if v is None:
            v = ex.fresh('attr_%s' % (name.text() if name is not None and name.is_concrete() else 'x'), 64)
        if isinstance(v, SymStr): set_str(ex, buf, v)
        else: ex.store(buf, v)
        ev(ex, 'H5Aread', o.get('loc'), name, v); return 0
    S['@H5Aread'] = H5Aread
    for nm in ('@fmod', '@fmodl', '@llvm.fmuladd.f80', '@llvm.floor.f80'):
        S[nm] = (lambda nm: lambda ex, *a: FPV(nm))(nm)
    return S
