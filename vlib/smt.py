"""Small helpers around z3: timed proofs with lemmas, model extraction."""
import time
import z3


class Stats:
    def __init__(self):
        self.queries = 0; self.seconds = 0.0

    def add(self, dt):
        self.queries += 1; self.seconds += dt


def robust_check(assertions, timeout_s=60):
    """z3's search is not run-to-run deterministic (pointer hashing): a query that usually takes 0.1 s occasionally wanders off.
    Several short attempts with different seeds / arithmetic solvers before one long attempt make the verdict stable.
    -> (z3 result, solver)"""
    plan = [(min(timeout_s, max(2.0, timeout_s / 20.0)), 0, None), (min(timeout_s, max(3.0, timeout_s / 12.0)), 1, 2),
            (min(timeout_s, max(4.0, timeout_s / 8.0)), 2, None), (min(timeout_s, max(5.0, timeout_s / 6.0)), 3, 2), (timeout_s, 4, None)]
    s = None; r = z3.unknown
    for (t, seed, arith) in plan:
        s = z3.Solver()
        s.set('timeout', int(t * 1000)); s.set('random_seed', seed)
        if arith is not None:
            try: s.set('arith.solver', arith)
            except z3.Z3Exception: pass
        s.add(*assertions)
        r = s.check()
        if r != z3.unknown: break
    return r, s


def prove(pc, claim, lemmas=(), timeout_s=60, stats=None, tactic=None):
    """Is `claim` implied by pc (+ already proven lemmas)?  -> ('unsat'|'sat'|'unknown', model|None, seconds)"""
    neg = z3.Not(claim) if not isinstance(claim, bool) else z3.BoolVal(not claim)
    t0 = time.time(); r, s = robust_check(list(pc) + list(lemmas) + [neg], timeout_s); dt = time.time() - t0
    if stats is not None: stats.add(dt)
    if r == z3.sat: return 'sat', s.model(), dt
    if r == z3.unsat: return 'unsat', None, dt
    return 'unknown', None, dt


def solve(pc, extra=(), timeout_s=60, stats=None):
    """model of pc + extra -> ('sat', model) | ('unsat', None) | ('unknown', None)"""
    t0 = time.time(); r, s = robust_check(list(pc) + list(extra), timeout_s); dt = time.time() - t0
    if stats is not None: stats.add(dt)
    if r == z3.sat: return 'sat', s.model()
    if r == z3.unsat: return 'unsat', None
    return 'unknown', None


def mval(m, t):
    if isinstance(t, (int, bool)): return t
    v = m.eval(t, model_completion=True)
    if z3.is_int_value(v): return v.as_long()
    if z3.is_true(v): return True
    if z3.is_false(v): return False
    return v


def sweep_lemmas(pc, cands_a, cands_b, timeout_s=5, stats=None):
    """find proven equalities a == b between two families of terms (sound: each is proven before use)"""
    lem = []
    for a in cands_a:
        for b in cands_b:
            if a is b: continue
            r, _, _ = prove(pc, a == b, lem, timeout_s, stats)
            if r == 'unsat':
                lem.append(a == b)
    return lem
