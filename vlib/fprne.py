"""IEEE-754 round-to-nearest-even encoded exactly in linear integer arithmetic (per binade).

A positive real x = A/B (A, B integer terms, B > 0) that lies in the binade [2^e, 2^(e+1)) rounds, at precision p bits, to
M * 2^(e-p+1) with integer mantissa 2^(p-1) <= M <= 2^p (M = 2^p means the result is 2^(e+1)), where
|x - M*2^(e-p+1)| <= 2^(e-p) and ties go to even M.  Everything is multiplied out so only integer (in)equalities remain;
with a constant B the constraints are linear.  Validated against numpy.longdouble / float64 by the checks that use it.
"""
from fractions import Fraction
import z3


def rne_constraints(A, B, e, p, M):
    """constraints tying integer mantissa M to the RNE rounding of A/B in binade e at precision p"""
    c = []
    # binade: 2^e <= A/B < 2^(e+1)
    if e >= 0:
        c += [A >= (2**e) * B, A < (2**(e + 1)) * B]
    else:
        c += [A * (2**(-e)) >= B, A * (2**(-e - 1)) < B]
    sh = (p - 1) - e                 # value unit is 2^(-sh)
    if sh >= 0:
        diff = A * (2**sh) - M * B; unit = B
    else:
        diff = A - M * B * (2**(-sh)); unit = B * (2**(-sh))
    c += [2 * diff <= unit, 2 * diff >= -unit,
          z3.Implies(z3.Or(2 * diff == unit, 2 * diff == -unit), M % 2 == 0),
          M >= 2**(p - 1), M <= 2**p]
    return c


def value_floor(M, e, p):
    """floor of M * 2^(e-p+1) as an integer term"""
    sh = (p - 1) - e
    return M / (2**sh) if sh > 0 else M * (2**(-sh))


def frac_of_float(x, p):
    """exact Fraction of a numpy/python float with p-bit significand"""
    import numpy as np
    m, e = np.frexp(x)
    mi = int(m * type(x)(2)**p) if not isinstance(x, float) else int(m * 2.0**p)
    return Fraction(mi) * Fraction(2)**(int(e) - p)


def binades(lo, hi):
    """binade exponents e with [2^e, 2^(e+1)) intersecting [lo, hi]  (lo, hi positive Fractions/ints)"""
    import math
    lo = Fraction(lo); hi = Fraction(hi)
    e0 = math.floor(math.log2(lo)) - 1 if lo > 0 else -1100
    e1 = math.floor(math.log2(hi)) + 1
    out = []
    for e in range(e0, e1 + 1):
        if Fraction(2)**(e + 1) > lo and Fraction(2)**e <= hi:
            out.append(e)
    return out
