"""Load the REAL modules of /repo/python/digital_rf for CrossHair harnesses: synthetic package, no compiled extension (a stub module
stands in for digital_rf._py_rf_write_hdf5 so nothing is realised at a C boundary)."""
import os, sys, types

REPO = os.environ.get('VERIF_REPO', '/repo')
PYPKG = os.path.join(REPO, 'python/digital_rf')


class ExtStub(types.ModuleType):
    """stand-in for the compiled extension; harnesses replace the functions they need"""
    def __init__(self):
        super().__init__('digital_rf._py_rf_write_hdf5')
        self.calls = []
    def get_version(self): return '2.6.0'
    def get_unix_time(self, *a): raise NotImplementedError
    def init(self, *a): self.calls.append(('init', a)); return object()


def load(name='digital_rf'):
    if name in sys.modules and getattr(sys.modules[name], '__verif_synth__', None) == 'stub':
        return sys.modules[name]
    for k in [k for k in sys.modules if k == name or k.startswith(name + '.')]:
        del sys.modules[k]
    sys.dont_write_bytecode = True
    pkg = types.ModuleType(name)
    pkg.__path__ = [PYPKG]; pkg.__file__ = os.path.join(PYPKG, '__init__.py'); pkg.__package__ = name
    pkg.__verif_synth__ = 'stub'
    sys.modules[name] = pkg
    ext = ExtStub(); sys.modules[name + '._py_rf_write_hdf5'] = ext; pkg._py_rf_write_hdf5 = ext
    if not os.path.exists(os.path.join(PYPKG, '_version.py')):
        v = types.ModuleType(name + '._version'); v.__version__ = v.version = '0+verif'; v.__version_tuple__ = v.version_tuple = (0, 0, 'verif')
        sys.modules[name + '._version'] = v
    import logging
    logging.disable(logging.CRITICAL)
    exec(compile(open(pkg.__file__).read(), pkg.__file__, 'exec'), pkg.__dict__)
    return pkg
