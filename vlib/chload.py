"""Load the REAL modules of /repo/python/digital_rf for CrossHair harnesses: synthetic package, no compiled extension (a stub module
stands in for digital_rf._py_rf_write_hdf5 so nothing is realised at a C boundary)."""
import os, sys, types

REPO = os.environ.get('VERIF_REPO', '/repo')
PYPKG = os.path.join(REPO, 'python/digital_rf')


class ExtStub(types.ModuleType):
    """stand-in for the compiled extension; harnesses replace the functions they need"""
    def __init__(self):
        super().__init__('digital_rf._py_rf_write_hdf5')
        self.calls = []
    def get_version(self): return '2.6.0'
    def get_unix_time(self, *a): raise NotImplementedError
    def init(self, *a): self.calls.append(('init', a)); return object()


def load(name='digital_rf'):
    if name in sys.modules and getattr(sys.modules[name], '__verif_synth__', None) == 'stub':
        return sys.modules[name]
    for k in [k for k in sys.modules if k == name or k.startswith(name + '.')]:
        del sys.modules[k]
    sys.dont_write_bytecode = True
    pkg = types.ModuleType(name)
    pkg.__path__ = [PYPKG]; pkg.__file__ = os.path.join(PYPKG, '__init__.py'); pkg.__package__ = name
    pkg.__verif_synth__ = 'stub'
    sys.modules[name] = pkg
    ext = ExtStub(); sys.modules[name + '._py_rf_write_hdf5'] = ext; pkg._py_rf_write_hdf5 = ext
    if not os.path.exists(os.path.join(PYPKG, '_version.py')):
        v = types.ModuleType(name + '._version'); v.__version__ = v.version = '0+verif'; v.__version_tuple__ = v.version_tuple = (0, 0, 'verif')
        sys.modules[name + '._version'] = v
    import logging
    logging.disable(logging.CRITICAL)
    exec(compile(open(pkg.__file__).read(), pkg.__file__, 'exec'), pkg.__dict__)
    return pkg


_DEFAULTS = {}


def _defaults(cls):
    """plain attribute defaults of cls.__init__ (self.x = None / constant / empty container), read once from its source"""
    if cls in _DEFAULTS: return _DEFAULTS[cls]
    import ast, inspect, textwrap
    out = []
    try:
        fn = ast.parse(textwrap.dedent(inspect.getsource(cls.__init__))).body[0]
    except Exception:
        _DEFAULTS[cls] = out; return out
    for st in ast.walk(fn):
        if not (isinstance(st, ast.Assign) and len(st.targets) == 1): continue
        t = st.targets[0]
        if not (isinstance(t, ast.Attribute) and isinstance(t.value, ast.Name) and t.value.id == 'self'): continue
        v = st.value
        if isinstance(v, ast.Constant): out.append((t.attr, 'const', v.value))
        elif isinstance(v, (ast.Dict, ast.List, ast.Set, ast.Tuple)) and not (getattr(v, 'keys', None) or getattr(v, 'elts', None)):
            out.append((t.attr, 'make', {ast.Dict: dict, ast.List: list, ast.Set: set, ast.Tuple: tuple}[type(v)]))
        elif isinstance(v, ast.Call) and not v.args and not v.keywords:
            mk = {'set': set, 'dict': dict, 'list': list, 'collections.OrderedDict': dict, 'OrderedDict': dict, 'collections.deque': list}.get(ast.unparse(v.func))
            if mk is not None: out.append((t.attr, 'make', mk))
    _DEFAULTS[cls] = out
    return out


def warm(*classes):
    """read the constructor defaults at import time (outside any symbolic execution)"""
    for c in classes: _defaults(c)


def new_obj(cls):
    """cls.__new__(cls) plus the plain attribute defaults of the real __init__ (self.x = None / constant / empty container), read from its
    source: harnesses that cannot run a constructor (directory discovery, file access) still see every simple attribute a constructor of
    the tree under test initialises (e.g. a cache added by a change)"""
    o = cls.__new__(cls)
    for attr, kind, val in _defaults(cls):
        if not hasattr(o, attr):
            try: setattr(o, attr, val() if kind == 'make' else val)
            except Exception: pass
    return o
