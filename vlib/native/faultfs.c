/* LD_PRELOAD fault injector for replaying C10 counterexamples on the real build.
 * FAULTFS_MATCH   substring of the file name whose operations are subject to faults (default "tmp.rf@")
 * FAULTFS_OP      write | rename | mkdir | open
 * FAULTFS_AFTER   number of matching operations that succeed before the fault (default 0)
 * FAULTFS_PERSIST 1 = every matching operation from then on fails, 0 = only one
 * FAULTFS_ERRNO   errno to report (default EIO=5; ENOSPC=28)
 */
#define _GNU_SOURCE
#include <dlfcn.h>
#include <errno.h>
#include <fcntl.h>
#include <stdarg.h>
#include <stdio.h>
#include <stdlib.h>
#include <string.h>
#include <sys/stat.h>
#include <sys/types.h>
#include <unistd.h>

static int counter = 0, fired = 0;
static const char *envs(const char *k, const char *d) { const char *v = getenv(k); return v ? v : d; }
static int match_fd(int fd) {
    char link[64], path[4096]; ssize_t n;
    snprintf(link, sizeof link, "/proc/self/fd/%d", fd);
    n = readlink(link, path, sizeof path - 1);
    if (n <= 0) return 0;
    path[n] = 0;
    return strstr(path, envs("FAULTFS_MATCH", "tmp.rf@")) != NULL;
}
static int should_fail(const char *op) {
    if (strcmp(envs("FAULTFS_OP", "write"), op) != 0) return 0;
    int after = atoi(envs("FAULTFS_AFTER", "0")), persist = atoi(envs("FAULTFS_PERSIST", "0"));
    if (fired && !persist) return 0;
    if (counter++ < after) return 0;
    fired = 1; errno = atoi(envs("FAULTFS_ERRNO", "5"));
    return 1;
}
ssize_t pwrite64(int fd, const void *buf, size_t n, off64_t off) {
    static ssize_t (*real)(int, const void *, size_t, off64_t);
    if (!real) real = dlsym(RTLD_NEXT, "pwrite64");
    if (match_fd(fd) && should_fail("write")) return -1;
    return real(fd, buf, n, off);
}
ssize_t pwrite(int fd, const void *buf, size_t n, off_t off) {
    static ssize_t (*real)(int, const void *, size_t, off_t);
    if (!real) real = dlsym(RTLD_NEXT, "pwrite");
    if (match_fd(fd) && should_fail("write")) return -1;
    return real(fd, buf, n, off);
}
ssize_t write(int fd, const void *buf, size_t n) {
    static ssize_t (*real)(int, const void *, size_t);
    if (!real) real = dlsym(RTLD_NEXT, "write");
    if (fd > 2 && match_fd(fd) && should_fail("write")) return -1;
    return real(fd, buf, n);
}
int rename(const char *a, const char *b) {
    static int (*real)(const char *, const char *);
    if (!real) real = dlsym(RTLD_NEXT, "rename");
    if (strstr(a, envs("FAULTFS_MATCH", "tmp.rf@")) && should_fail("rename")) return -1;
    return real(a, b);
}
int mkdir(const char *p, mode_t m) {
    static int (*real)(const char *, mode_t);
    if (!real) real = dlsym(RTLD_NEXT, "mkdir");
    if (should_fail("mkdir")) return -1;
    return real(p, m);
}
