/* read-only accessors for fields of the writer object that the Python extension reads directly from the struct */
#include "digital_rf.h"
uint64_t verif_peek_global_index(Digital_rf_write_object *o) { return o->global_index; }
int verif_peek_has_failure(Digital_rf_write_object *o) { return o->has_failure; }
uint64_t verif_peek_init_utc_timestamp(Digital_rf_write_object *o) { return o->init_utc_timestamp; }
