"""E-CH: run CrossHair (symbolic execution of the real Python functions with z3) on harness functions, one process per condition.

A harness module lives under /verif/checks/ch/ and contains private functions with PEP-316 contracts that call the REAL functions of
/repo/python/digital_rf (loaded through vlib.chload, never the copy installed in /venv) with the I/O boundary replaced by Python stubs.
Verdicts: 'confirmed' (Confirmed over all paths) | ('counterexample', kwargs) | 'unknown' (Not confirmed / Unable to meet precondition /
timeout / crash).  Only 'confirmed' discharges an obligation; a counterexample must be replayed on the real code by the caller.
"""
import ast, os, re, subprocess, sys, time
from concurrent.futures import ThreadPoolExecutor

VERIF = os.path.dirname(os.path.dirname(os.path.abspath(__file__)))
HARNESS_DIR = os.path.join(VERIF, 'checks', 'ch')


def func_lines(path):
    """name -> (line inside def, docstring)"""
    src = open(path).read()
    tree = ast.parse(src)
    out = {}
    for node in tree.body:
        if isinstance(node, ast.FunctionDef):
            doc = ast.get_docstring(node) or ''
            if 'post:' in doc:
                out[node.name] = (node.lineno, doc, [a.arg for a in node.args.args])
    return out


def parse_cex(msg, fname):
    """'false when calling f(a = 1, b = [..]) (which returns False)' -> dict of python values (or None)"""
    i = msg.find(fname + '(')
    if i < 0: return None
    depth = 0; j = i + len(fname)
    for k in range(j, len(msg)):
        if msg[k] == '(': depth += 1
        elif msg[k] == ')':
            depth -= 1
            if depth == 0:
                call = msg[i:k + 1]; break
    else:
        return None
    try:
        node = ast.parse(call, mode='eval').body
        kw = {}
        for n, a in enumerate(node.args): kw['_arg%d' % n] = ast.literal_eval(a)
        for k_ in node.keywords: kw[k_.arg] = ast.literal_eval(k_.value)
        return kw
    except Exception:
        return {'_raw': call}


def run_one(path, fname, line, per_condition_timeout, per_path_timeout=None, extra_env=None):
    cmd = [sys.executable, '-m', 'crosshair', 'check', '--report_all', '--per_condition_timeout', str(per_condition_timeout)]
    if per_path_timeout: cmd += ['--per_path_timeout', str(per_path_timeout)]
    cmd.append('%s:%d' % (path, line))
    env = dict(os.environ); env['PYTHONPATH'] = VERIF + os.pathsep + env.get('PYTHONPATH', '')
    env['PYTHONDONTWRITEBYTECODE'] = '1'; env['PYTHONHASHSEED'] = '0'
    if extra_env: env.update(extra_env)
    t0 = time.time()
    try:
        r = subprocess.run(cmd, stdout=subprocess.PIPE, stderr=subprocess.STDOUT, text=True, timeout=per_condition_timeout * 2 + 120, env=env, cwd=VERIF)
        out = r.stdout
    except subprocess.TimeoutExpired as e:
        return dict(name=fname, verdict='unknown', detail='outer timeout', wall=time.time() - t0, cex=None, raw='')
    wall = time.time() - t0
    verdict, detail, cex = 'unknown', out.strip()[-600:], None
    for ln in out.splitlines():
        if 'Confirmed over all paths' in ln: verdict = 'confirmed'; detail = ''
        elif ': error:' in ln:
            verdict = 'counterexample'; detail = ln.split(': error:', 1)[1].strip()
            cex = parse_cex(detail, fname)
            break
        elif 'Not confirmed' in ln: verdict = 'unknown'; detail = 'Not confirmed (paths left unexplored within the time budget)'
        elif 'Unable to meet precondition' in ln: verdict = 'unknown'; detail = 'Unable to meet precondition'
    return dict(name=fname, verdict=verdict, detail=detail, wall=wall, cex=cex, raw=out[-1500:])


def run_module(modname, names=None, per_condition_timeout=60, nproc=12, extra_env=None):
    """run every contract function (or `names`) of checks/ch/<modname>.py; -> list of result dicts (+ 'doc')"""
    path = os.path.join(HARNESS_DIR, modname + '.py')
    # head-room: CrossHair's budget is wall-clock; on a loaded machine (other checks, a slower host) a harness that normally needs a tenth of
    # its budget must still finish, and a harness that finishes early costs nothing
    per_condition_timeout = int(per_condition_timeout * float(os.environ.get('VERIF_CH_SCALE', '2.5')))
    fl = func_lines(path)
    todo = [(n, fl[n][:2]) for n in (names or sorted(fl)) if n in fl]
    missing = [n for n in (names or []) if n not in fl]
    res = []
    with ThreadPoolExecutor(max_workers=nproc) as tp:
        futs = [(n, doc, tp.submit(run_one, path, n, ln + 1, per_condition_timeout, None, extra_env)) for n, (ln, doc) in todo]
        for n, doc, f in futs:
            r = f.result(); r['doc'] = doc
            if r['cex']:
                argn = fl[n][2]
                r['cex'] = {(argn[int(k[4:])] if k.startswith('_arg') and k[4:].isdigit() and int(k[4:]) < len(argn) else k): v for k, v in r['cex'].items()}
            res.append(r)
    for n in missing:
        res.append(dict(name=n, verdict='unknown', detail='harness function not found', wall=0, cex=None, raw='', doc=''))
    return res


def report(rep, results, titles, replays=None, sigs=None, bounds=None):
    """titles: fname -> obligation text; replays: fname -> callable(cex kwargs) -> python source of a real-code replay (or None)"""
    for r in results:
        nm = r['name']
        if nm.startswith('_witness') or nm.endswith('_witness'):
            # reachability twin: its postcondition is False, so a counterexample is the expected outcome
            ok = r['verdict'] == 'counterexample'
            rep.ob(titles.get(nm, nm), 'witness' if ok else 'inconclusive', (bounds or {}).get(nm), 1, r['wall'], 1,
                   detail=None if ok else 'reachability twin did not produce a witness: %s' % r['detail'][:200], sample={'witness': r['cex']})
            continue
        title = titles.get(nm, nm)
        b = (bounds or {}).get(nm) or _pre_lines(r.get('doc', ''))
        if r['verdict'] == 'confirmed':
            rep.ob(title, 'discharged', b, 1, r['wall'], 1, sample={'obligation': title, 'harness': nm, 'bounds': b})
        elif r['verdict'] == 'counterexample':
            mk = (replays or {}).get(nm)
            body = mk(r['cex']) if (mk and r['cex'] is not None) else None
            rep.violation(title, (sigs or {}).get(nm, 'CH.' + nm), 'CrossHair counterexample %s' % (r['cex'],), replay_body=body,
                          queries=1, solver_s=r['wall'], paths=1, bounds=b, sample={'counterexample': r['cex']})
        else:
            rep.ob(title, 'inconclusive', b, 1, r['wall'], 0, detail=r['detail'][:300])


def _pre_lines(doc):
    return '; '.join(l.strip()[4:].strip() for l in doc.splitlines() if l.strip().startswith('pre:'))[:300]
