"""W0: digital_rf_create_rf_data_index + digital_rf_get_global_sample (real IR, every argument symbolic) against the declarative
block-cutting specification CutSpec.  Shared by C01 (cut == spec), C05 (reject <=> malformed), C06 (rows well-formed).

CutSpec (for index arrays g[0..L), b[0..L), vector length V, samples already written sw, next = pos(sw), first sample of the
next file last = next + samples_left):
  pos(j)            = g[i] + (j - b[i])  for the block i with b[i] <= j < b[i+1]   (b[L] = V)
  Malformed         = (sw == 0 and g[0] < global_index) or exists i: b[i] >= V or (i>0 and (b[i-1] >= b[i] or g[i-1] >= g[i]
                      or b[i]-b[i-1] > g[i]-g[i-1]))
  samples_to_write  = #{ j in [sw, V) : pos(j) < last }                     (a prefix, since pos is strictly increasing)
  rows              = [ (next + global_start - (max-left if continuous-unchunked else 0), 0) ]  if new file or chunked
                    + [ (g[i] + global_start, b[i] - sw)  for i = 1..L-1  if  sw < b[i] < sw + samples_to_write ]
"""
import time
import z3
from . import smt
from .llsym import Exec, Ptr, NULL, M, Inconclusive, AssertFail
from .wobj import WObj, F

NEG1_32 = M(32) - 1


def zmin(a, b): return z3.If(a <= b, a, b)
def zmax(a, b): return z3.If(a >= b, a, b)


def malformed(G, B, V, sw, gidx):
    c = [z3.And(sw == 0, G[0] < gidx)]
    for i in range(len(G)):
        c.append(B[i] >= V)
        if i > 0:
            c += [B[i - 1] >= B[i], G[i - 1] >= G[i], B[i] - B[i - 1] > G[i] - G[i - 1]]
    return z3.Or(*c)


def pos(G, B, j):
    """absolute (writer-relative) index of vector position j"""
    e = G[0] + (j - B[0])
    for i in range(1, len(G)):
        e = z3.If(j >= B[i], G[i] + (j - B[i]), e)
    return e


def stw_spec(G, B, V, sw, last):
    tot = 0
    L = len(G)
    for i in range(L):
        lo = zmax(B[i], sw)
        hi_blk = B[i + 1] if i + 1 < L else V
        hi = z3.If(last <= G[i], lo, zmin(hi_blk, B[i] + (last - G[i])))
        tot = tot + z3.If(hi > lo, hi - lo, 0)
    return tot


def rows_spec(G, B, V, sw, nxt, left, mx, fex, chunk, cont, gstart, stw):
    """list of (present: z3 Bool, sample, offset)"""
    rows = [(z3.Or(fex == 0, chunk != 0), nxt + gstart - z3.If(z3.And(cont != 0, chunk == 0), mx - left, 0), z3.IntVal(0))]
    for i in range(1, len(G)):
        rows.append((z3.And(sw < B[i], B[i] < sw + stw), G[i] + gstart, B[i] - sw))
    return rows


def run(mod, stubs, ilen, st, valid_only=False, deadline=None, known_sig=True):
    """Explore create_rf_data_index with index_len = ilen.
    Returns dict(paths, queries, solver_s, results=[(name, verdict, model_dict)], witness)"""
    out = dict(results=[], paths=0, witness=None)
    agg = {}

    def note(name, verdict, model=None):
        cur = agg.get(name)
        rank = {'unsat': 0, 'unknown': 1, 'sat': 2}
        if cur is None or rank[verdict] > rank[cur[0]]:
            agg[name] = (verdict, model)

    def setup(ex):
        o = WObj(ex)
        v = {nm: z3.Int(nm) for nm in ['sw', 'left', 'maxf', 'vlen', 'gidx', 'gstart', 'chunk', 'cont', 'fex']}
        for x in v.values(): ex.assume(z3.And(x >= 0, x < 2**40))
        for nm in ['chunk', 'cont', 'fex']: ex.assume(v[nm] <= 1)
        G = [z3.Int('g%d' % i) for i in range(ilen)]; B = [z3.Int('b%d' % i) for i in range(ilen)]
        g = ex.new_region('garr'); b = ex.new_region('barr'); rows = ex.new_region('rows'); stw = ex.new_region('stw')
        for i in range(ilen):
            ex.assume(z3.And(G[i] >= 0, G[i] < 2**40, B[i] >= 0, B[i] < 2**40))
            ex.store(Ptr(g, (i,)), G[i]); ex.store(Ptr(b, (i,)), B[i])
        # relations guaranteed by the caller (digital_rf_write_samples_to_file / digital_rf_get_subdir_file, see C04):
        ex.assume(z3.And(v['left'] >= 1, v['left'] <= v['maxf'], v['sw'] < v['vlen']))
        # continuous mode only ever passes one block (checked by digital_rf_write_blocks_hdf5); unchunked implies continuous
        ex.assume(z3.Implies(v['chunk'] == 0, v['cont'] == 1))
        if ilen > 1: ex.assume(v['chunk'] == 1)
        if valid_only:
            ex.assume(z3.Not(malformed(G, B, v['vlen'], v['sw'], v['gidx'])))
            ex.assume(B[0] == 0)
        o.set('global_index', v['gidx']); o.set('global_start_sample', v['gstart'])
        o.set('needs_chunking', v['chunk']); o.set('is_continuous', v['cont'])
        # next_global_sample as computed by the real digital_rf_get_global_sample on the same arrays
        nxt = ex.call('@digital_rf_get_global_sample', [v['sw'], Ptr(g, (0,)), Ptr(b, (0,)), ilen])
        ex.user.update(dict(v=v, G=G, B=B, rows=rows, stw=stw, nxt=nxt))
        return [o.ptr, v['sw'], v['left'], v['maxf'], Ptr(g, (0,)), Ptr(b, (0,)), ilen, v['vlen'], nxt, Ptr(rows), Ptr(stw), v['fex']]

    def on_path(ex, status, ret):
        out['paths'] += 1
        u = ex.user; v, G, B = u['v'], u['G'], u['B']
        names = ['sw', 'left', 'maxf', 'vlen', 'gidx', 'gstart', 'chunk', 'cont', 'fex']
        def md(m):
            d = {nm: smt.mval(m, v[nm]) for nm in names}
            d['g'] = [smt.mval(m, x) for x in G]; d['b'] = [smt.mval(m, x) for x in B]
            return d
        if status != 'ret':
            note('no C assert / abort reachable in create_rf_data_index', 'sat', md(ex.model())); return
        nrows = ex.peek(u['rows'], ())
        stw = ex.peek(u['stw'], ())
        mal = malformed(G, B, v['vlen'], v['sw'], v['gidx'])
        rejected = isinstance(nrows, int) and nrows == NEG1_32
        if not isinstance(nrows, int):
            raise Inconclusive('symbolic row count')
        # (a) reject <=> Malformed
        if rejected:
            isnull = isinstance(ret, Ptr) and ret.region is None
            if not isnull: note('rejected call returns NULL', 'sat', md(ex.model()))
            else: note('rejected call returns NULL', 'unsat')
            m = ex.model(z3.Not(mal))
            note('rows_to_write == -1  =>  Malformed(g, b, vlen, global_index)', 'sat' if m is not None else 'unsat', md(m) if m is not None else None)
            return
        m = ex.model(mal)
        note('Malformed(g, b, vlen, global_index)  =>  rows_to_write == -1', 'sat' if m is not None else 'unsat', md(m) if m is not None else None)
        # from here the path is an accepted call; the caller also guarantees b[0] == 0 (checked in write_samples_to_file)
        ex.assume(z3.Not(mal)); ex.assume(B[0] == 0)
        if not ex.sat(): return
        nxt = u['nxt']
        m = ex.model(nxt != pos(G, B, v['sw']))
        note('get_global_sample(sw) == pos(sw)', 'sat' if m is not None else 'unsat', md(m) if m is not None else None)
        last = nxt + v['left']
        spec_stw = stw_spec(G, B, v['vlen'], v['sw'], last)
        m = ex.model(stw != spec_stw)
        note('samples_to_write == #{j >= sw : pos(j) < first sample of next file}', 'sat' if m is not None else 'unsat', md(m) if m is not None else None)
        m = ex.model(z3.Or(stw < 1, stw > v['left'], stw > v['vlen'] - v['sw']))
        note('1 <= samples_to_write <= min(samples_left, vlen - sw)', 'sat' if m is not None else 'unsat', md(m) if m is not None else None)
        # rows
        spec_rows = rows_spec(G, B, v['vlen'], v['sw'], nxt, v['left'], v['maxf'], v['fex'], v['chunk'], v['cont'], v['gstart'], spec_stw)
        got = []
        if nrows > 0:
            if not isinstance(ret, Ptr) or ret.region is None:
                note('rows == CutSpec rows', 'sat', md(ex.model())); return
            for r_ in range(nrows):
                got.append((ex.peek(ret.region, (2 * r_,)), ex.peek(ret.region, (2 * r_ + 1,))))
        # the known dangling-row signature: a told block starting exactly at the first sample of the next file
        sig = z3.Or(*[z3.And(v['sw'] < B[i], G[i] == last) for i in range(1, ilen)]) if ilen > 1 else z3.BoolVal(False)
        # equality of the row list with the spec list: same count, and k-th present spec row equals k-th got row
        cnt = sum([z3.If(p, 1, 0) for p, _, _ in spec_rows])
        eq = [cnt == nrows]
        for kth in range(nrows):
            # k-th present spec row
            before = 0
            pick_s, pick_o = z3.IntVal(-1), z3.IntVal(-1)
            for (p, s_, o_) in reversed(spec_rows):
                pass
            idx_terms = []
            run_cnt = 0
            for (p, s_, o_) in spec_rows:
                is_kth = z3.And(p, run_cnt == kth)
                idx_terms.append((is_kth, s_, o_))
                run_cnt = run_cnt + z3.If(p, 1, 0)
            gs_, go_ = got[kth]
            gs_wrapped = gs_
            eq.append(z3.And(*[z3.Implies(c, z3.And(gs_wrapped == (s_ % M(64)), go_ == o_)) for c, s_, o_ in idx_terms]))
        claim = z3.And(*eq)
        m = ex.model(z3.And(z3.Not(claim), z3.Not(sig)))
        note('index rows == CutSpec rows (file-start row + one row per told gap edge inside the written range)', 'sat' if m is not None else 'unsat',
             md(m) if m is not None else None)
        m2 = ex.model(z3.And(z3.Not(claim), sig))
        note('index rows == CutSpec rows [signature: told block starts exactly at first sample of next file]', 'sat' if m2 is not None else 'unsat',
             md(m2) if m2 is not None else None)
        # well-formedness of the returned rows relative to the data written by this call (C06)
        wf = []
        for kth in range(nrows):
            s_, o_ = got[kth]
            if kth == 0 and True:
                pass
            wf.append(o_ < stw if kth > 0 else z3.BoolVal(True))      # offsets inside the data written now
            if kth > 0:
                ps_, po_ = got[kth - 1]
                wf += [o_ > po_, s_ > ps_, o_ - po_ <= s_ - ps_]
        if wf:
            m = ex.model(z3.And(z3.Not(z3.And(*wf)), z3.Not(sig)))
            note('returned rows strictly increasing, offsets inside the samples written, d(offset) <= d(sample)', 'sat' if m is not None else 'unsat',
                 md(m) if m is not None else None)
            m2 = ex.model(z3.And(z3.Not(z3.And(*wf)), sig))
            note('returned rows well-formed [signature: told block starts exactly at first sample of next file]', 'sat' if m2 is not None else 'unsat',
                 md(m2) if m2 is not None else None)
        if out['witness'] is None and nrows == ilen and ilen > 0:
            m = ex.model()
            if m is not None: out['witness'] = md(m)

    ex = Exec(mod, stubs)
    t0 = time.time()
    ex.explore('@digital_rf_create_rf_data_index', setup, on_path, deadline=deadline)
    out['queries'] = ex.nq; out['solver_s'] = ex.tq; out['wall'] = time.time() - t0
    out['results'] = [(k, v[0], v[1]) for k, v in agg.items()]
    return out
