"""W1: symbolic execution of the real write path (digital_rf_write_hdf5 / digital_rf_write_blocks_hdf5 ->
digital_rf_write_samples_to_file -> digital_rf_create_rf_data_index, digital_rf_create_hdf5_file, digital_rf_write_rf_data_index,
digital_rf_extend_dataset, digital_rf_write_metadata, digital_rf_close_hdf5_file, digital_rf_close_write_hdf5) from LLVM IR, over an
abstract HDF5/POSIX environment, for a *history* of calls executed in one path (call 2 starts from every reachable post-state of
call 1).  digital_rf_get_subdir_file is replaced by its specification (proved against the IR in C04, re-proved by the caller of this
module in the same run).  The event trace of every path is rebuilt into a model of the files on disk and compared with the
declarative semantics of the recording.
"""
import time
import z3
from . import smt, spec, envstubs
from .llsym import Exec, Ptr, NULL, SymStr, M, Inconclusive, AssertFail, zid
from .wobj import WObj, F
from .w0 import pos as pos_spec, malformed as malformed_spec, zmin, zmax

NEG1_32 = M(32) - 1
H5F_ACC_EXCL = 4
MUTATING = ('H5Fcreate', 'H5Dcreate2', 'H5Dset_extent', 'H5Dwrite', 'H5Awrite', 'mkdir', 'rename', 'remove')


class Cfg:
    def __init__(self, n, d, sc, fc, cont, chunk, calls, tsize=2, cplx=0, nsub=1, close=True, api='blocks', fault=None,
                 start_lo=None, start_hi=None, fs_init=None, name=None, stale_tmp=False, max_files=3, window_style='abstract', window_regular=None, dir_init=None, max_chunk=10**6, getters=True, pre=None):
        self.n, self.d, self.sc, self.fc, self.cont, self.chunk = n, d, sc, fc, cont, chunk
        self.calls, self.tsize, self.cplx, self.nsub, self.close, self.api, self.fault = calls, tsize, cplx, nsub, close, api, fault
        self.start_lo = start_lo if start_lo is not None else -((-315532800 * n) // d)
        self.start_hi = start_hi if start_hi is not None else (4102444800 * n) // d
        self.pre = pre; self.stale_tmp = stale_tmp; self.fs_init = fs_init; self.dir_init = dir_init; self.max_chunk = max_chunk; self.getters = getters; self.max_files = max_files; self.window_style = window_style; self.window_regular = window_regular
        self.name = name or '%d/%dHz,%ds,%dms,%s' % (n, d, sc, fc, 'gapped' if not cont else ('cont-chunked' if chunk else 'cont'))

    def samples_per_file(self):
        return (self.fc * self.n) // (1000 * self.d)


def abstract_window(ex, k, i):
    """rate-independent abstraction of one file window containing absolute sample k (partition lemma, proved from the spec in C04):
    c1 <= k < c2; two windows of a path are identical (same file id F, same subdir id DIR) or disjoint and ordered like F and DIR"""
    FM, DIR, c1, c2 = (z3.Int('%s!w%d' % (nm, i)) for nm in ('F', 'DIR', 'c1', 'c2'))
    ex.assume(z3.And(c1 >= 0, c1 <= k, k < c2, c2 < 2**62, FM >= 0, FM < 2**62, DIR >= 0, DIR < 2**62))
    reg = ex.user.get('window_regular')          # optional refinement used only to obtain replayable counterexamples
    if reg:
        m_, q_ = reg['m'], z3.Int('q!w%d' % i)
        ex.assume(z3.And(q_ >= 0, c1 == q_ * m_, c2 == c1 + m_, FM == q_ * reg['fc'],
                         DIR == ((q_ * reg['fc']) / 1000 / reg['sc']) * reg['sc']))
    for w in ex.user['windows']:
        same = z3.And(c1 == w['c1'], c2 == w['c2'], FM == w['FM'], DIR == w['DIR'])
        before = z3.And(c2 <= w['c1'], FM < w['FM'], DIR <= w['DIR'])
        after = z3.And(w['c2'] <= c1, w['FM'] < FM, w['DIR'] <= DIR)
        ex.assume(z3.Or(same, before, after))
    return FM, DIR, c1, c2


def subdir_file_summary(ex, obj, gs, subdir, basename, pleft, pmax):
    """specification of digital_rf_get_subdir_file (see checks/C04.py): division-free characterisation of the file window"""
    o = WObj(ex, obj)
    n, d, sc, fc, start = (o.get(x) for x in ('sample_rate_numerator', 'sample_rate_denominator', 'subdir_cadence_secs',
                                             'file_cadence_millisecs', 'global_start_sample'))
    k = gs + start
    i = len(ex.user.setdefault('windows', []))
    # bound: at most max_files files touched by one call (paths needing more are cut; stated as outside the claim)
    ex.user['call_windows'] = ex.user.get('call_windows', 0) + 1
    if ex.user['call_windows'] > ex.user.get('call_max_files', ex.user.get('max_files', 3)):
        ex.user['cut_paths'] = ex.user.get('cut_paths', 0) + 1
        from .llsym import Infeasible
        raise Infeasible()
    style = ex.user.get('window_style', 'abstract')
    if style == 'abstract':
        # rate-independent abstraction: the file windows tile the sample axis (partition lemma, proved from the spec in C04):
        #   c1 <= k < c2;  two windows are identical (same file id F, same subdir id DIR) or disjoint and ordered like F and DIR
        FM, DIR, c1, c2 = abstract_window(ex, k, i)
        FS, FMS = FM, z3.IntVal(0)
    elif style == 'div' and all(isinstance(x, int) for x in (n, d, sc, fc)):
        # computed form (z3 div/mod by constants)
        ms = (k * d * 1000) / n; sec = (k * d) / n
        DIR = (sec / sc) * sc; FM = (ms / fc) * fc
        FS = FM / 1000; FMS = FM % 1000
        c1 = (FM * n + 1000 * d - 1) / (1000 * d); c2 = ((FM + fc) * n + 1000 * d - 1) / (1000 * d)
    else:
        FQ, FS, FMS, DQ, c1, c2 = (z3.Int('%s!w%d' % (nm, i)) for nm in ('FQ', 'FS', 'FMS', 'DQ', 'c1', 'c2'))
        FM = FQ * fc; DIR = DQ * sc
        ex.assume(z3.And(FQ >= 0, DQ >= 0, FMS >= 0, FMS < 1000, FS >= 0, FM == FS * 1000 + FMS,
                         FM * n <= k * d * 1000, k * d * 1000 < (FM + fc) * n,
                         DIR * n <= k * d, k * d < (DIR + sc) * n,
                         c1 * d * 1000 >= FM * n, (c1 - 1) * d * 1000 < FM * n,
                         c2 * d * 1000 >= (FM + fc) * n, (c2 - 1) * d * 1000 < (FM + fc) * n))
    envstubs.set_str(ex, subdir, SymStr([('d', DIR, 'cal')]))
    envstubs.set_str(ex, basename, SymStr(['tmp.rf@', ('d', FS, 'u'), '.', ('d', FMS, 'u03'), '.h5']))
    ex.store(pleft, c2 - k); ex.store(pmax, c2 - c1)
    ex.user['windows'].append(dict(k=k, FM=FM, DIR=DIR, c1=c1, c2=c2, FS=FS, FMS=FMS))
    ex.events.append(('subdir_file', i))
    return 0


def check_dir_summary(ex, p):
    st = envstubs.get_str(ex, p).norm()
    e = envstubs.env(ex); k = ('stat', envstubs.strid(st))
    if k not in e.exists:
        init = ex.user.get('dir_init')
        e.exists[k] = init(ex, st) if init else z3.Bool('direxists!%d' % len(e.exists))
    ex.events.append(('checkdir', st, e.exists[k]))
    b = e.exists[k]
    if isinstance(b, bool): return 0 if b else NEG1_32
    return z3.If(b, z3.IntVal(0), z3.IntVal(NEG1_32))


SUMMARIES = {'@digital_rf_get_subdir_file': subdir_file_summary, '@digital_rf_check_hdf5_directory': check_dir_summary}


def h5dwrite_snapshot(stubs):
    """wrap the H5Dwrite stub so that it snapshots heap buffers (the index rows) at the time of the call"""
    base = stubs['@H5Dwrite']
    def H5Dwrite(ex, d, memtype, memspace, filespace, plist, buf):
        snap = None
        if isinstance(buf, Ptr) and buf.region is not None and buf.region.startswith('heap'):
            snap = dict(ex.mem[buf.region]['cells'])
        r = base(ex, d, memtype, memspace, filespace, plist, buf)
        ex.events[-1] = ex.events[-1] + (snap,)
        return r
    s = dict(stubs); s['@H5Dwrite'] = H5Dwrite
    return s


def install_open_state(ex, o, cfg):
    """Inductive pre-state (W2): instead of a fresh writer, ANY state in which a file is open and the representation invariant Inv_W
    holds.  Inv_W (for a healthy writer on a channel only this writer has written to):
      - hdf5_file / dataset / index_dataset / dataspace are open handles of one file, created under tmp.<name of window W0>;
        sub_directory / basename name W0; the tmp name exists, no final name of W0 or of a later window exists
      - the file's index has N0 >= 1 rows (next_index_avail == N0), well formed (C06), first row (s0, 0) with s0 >= c1(W0), last row
        (sl, ol) with ol < rows stored; only the first and the last row are represented (rows in between do not influence where later
        samples land nor the pairwise well-formedness of later rows)
      - needs_chunking: rows stored == dataset_index == extent >= 1; otherwise (continuous): extent == capacity of W0, exactly one index
        row (c1(W0), 0), dataset_index == cursor - c1(W0)
      - cursor: global_index + start == sl + (dataset_index - ol) <= c2(W0)  (one past the last stored sample)
      - present_seq == sequence number stored in the open file; chunk_size already chosen; has_failure == 0
    Every accepted call of every harness configuration is shown to re-establish Inv_W (obligation 'representation invariant'), and the
    fresh state leads into it, so one call from this state covers call number k of a history of any length."""
    E = envstubs.env(ex)
    start = ex.user['start']
    gi, di, N0, s0, sl, ol, seq0, csz = (z3.Int(nm + '!pre') for nm in ('gi', 'di', 'N0', 's0', 'sl', 'ol', 'seq', 'chunk'))
    ex.user.setdefault('windows', [])
    FM, DIR, c1, c2 = abstract_window(ex, gi + start - 1, 0)
    FS, FMS = FM, z3.IntVal(0)
    w0 = dict(k=gi + start - 1, FM=FM, DIR=DIR, c1=c1, c2=c2, FS=FS, FMS=FMS)
    ex.user['windows'].append(w0)
    cap = c2 - c1
    ex.assume(z3.And(gi >= 1, gi < 2**40, di >= 1, di <= cap, N0 >= 1, N0 < 2**31 - 8, seq0 >= 0, seq0 < 2**31 - 8, csz >= 1, csz < 2**40,
                     s0 >= c1, s0 >= start, ol >= 0, ol < di, sl + (di - ol) == gi + start, gi + start <= c2,
                     z3.If(ol == 0, z3.And(sl == s0, N0 == 1), z3.And(sl > s0, ol <= sl - s0, N0 >= 2))))
    if ex.user.get('window_regular'):
        # realisation of a counterexample on the real build: the pre-state must be reachable by ONE concrete prefix call on a fresh channel
        ex.assume(z3.And(seq0 == 0, N0 == z3.If(ol == 0, 1, 2), s0 - start < 2**31, gi < 2**31))
    if cfg.cont and not cfg.chunk:
        ex.assume(z3.And(N0 == 1, s0 == c1, ol == 0))
        extent = cap
    else:
        extent = di
    from .wobj import CHDIR
    tmpn, finn = expected_names(ex, cfg, w0)
    fid = E.new('file', name=tmpn, flags=H5F_ACC_EXCL, open=True)
    sp = E.new('space', dims0=extent, dims1=cfg.nsub, max0=cap, sel=None, open=True)
    ty = 7004 if cfg.cplx else 7001
    did = E.new('dataset', name=SymStr(['rf_data']), file=fid, space=sp, type=ty, dcpl=7002, open=True, extent=extent, max0=cap, ncol=cfg.nsub)
    idid = E.new('dataset', name=SymStr(['rf_data_index']), file=fid, space=None, type=None, dcpl=7003, open=True, extent=N0, max0=None, ncol=2)
    fsp = E.new('space', of=did, sel=None, open=True); msp = E.new('space', dims0=1, dims1=cfg.nsub, max0=None, sel=None, open=True)
    E.exists[envstubs.strid(tmpn)] = True; E.exists[envstubs.strid(finn)] = False
    E.exists[('stat', envstubs.strid(SymStr([CHDIR + '/', ('d', DIR, 'cal')]).norm()))] = True
    o.set_str('sub_directory', SymStr([('d', DIR, 'cal')]))
    ex.mem[o.ptr.region]['cells'][ex.key(o.ptr.path + (F()['basename'],))] = SymStr(['tmp.rf@', ('d', FS, 'u'), '.', ('d', FMS, 'u03'), '.h5']).norm()
    for k_, v_ in dict(global_index=gi, dataset_index=di, dataset_avail=ex.fresh('avail'), block_index=0, next_index_avail=N0, present_seq=seq0,
                       hdf5_file=fid, dataset=did, index_dataset=idid, dataspace=sp, filespace=fsp, memspace=msp, has_failure=0).items():
        o.set(k_, v_)
    if cfg.chunk: o.set('chunk_size', csz)
    ex.events.append(('pre_state', dict(window=w0, name=tmpn, fid=fid, did=did, idid=idid, extent=extent, cap=cap, type=ty,
                                        rows=[(s0, z3.IntVal(0)), (sl, ol)], nrows=N0, seq=seq0)))
    ex.user['pre_open'] = dict(gi=gi, di=di, N0=N0, s0=s0, sl=sl, ol=ol, seq0=seq0, window=w0)


def make_driver(cfg):
    """returns (setup, driver).  ex.user['calls'] gets one record per call: dict(G,B,vlen,ret,ev0,ev1,pre,post)"""

    def setup(ex):
        ex.user['tsize'] = cfg.tsize
        ex.user['max_files'] = cfg.max_files
        ex.user['window_style'] = cfg.window_style
        if cfg.window_regular: ex.user['window_regular'] = cfg.window_regular
        if cfg.fault: ex.user['fault'] = cfg.fault
        if cfg.fs_init: ex.user['fs_init'] = cfg.fs_init
        if cfg.stale_tmp: ex.user['stale_tmp'] = True
        if cfg.dir_init: ex.user['dir_init'] = cfg.dir_init
        o = WObj(ex)
        start = z3.Int('start')
        ex.assume(z3.And(start >= cfg.start_lo, start <= cfg.start_hi))
        o.fresh_open_state(cfg.n, cfg.d, cfg.sc, cfg.fc, start, cfg.cont, cfg.chunk, cfg.cplx, cfg.nsub,
                           max_chunk=cfg.max_chunk)
        ex.user['obj'] = o; ex.user['start'] = start; ex.user['calls'] = []
        if cfg.pre == 'open': install_open_state(ex, o, cfg)
        return [o]

    def snapshot(o):
        names = ['global_index', 'dataset_index', 'dataset_avail', 'block_index', 'next_index_avail', 'present_seq', 'hdf5_file',
                 'dataset', 'index_dataset', 'has_failure', 'chunk_size', 'sub_directory', 'dataspace', 'filespace', 'memspace']
        d = {nm: o.get(nm) for nm in names}
        bn = o.basename(); d['basename'] = bn.copy() if bn is not None else None
        sd = o.get_str('sub_directory'); d['subdir_str'] = sd.copy() if isinstance(sd, SymStr) else None
        return d

    def driver(ex, args):
        o = args[0]
        for ci, c in enumerate(cfg.calls):
            L = c['ilen']
            G = [z3.Int('g%d_%d' % (ci, i)) for i in range(L)]; B = [z3.Int('b%d_%d' % (ci, i)) for i in range(L)]
            vlen = z3.Int('vlen%d' % ci)
            for x in G + B: ex.assume(z3.And(x >= 0, x < 2**32))
            if cfg.api == 'single' and L == 1: ex.assume(B[0] == 0)
            ex.assume(z3.And(vlen >= c.get('minv', 1), vlen <= c['maxv']))
            if c.get('maxg') is not None:
                for x in G: ex.assume(x <= c['maxg'])
            gidx = o.get('global_index')
            mal = z3.Or(malformed_spec(G, B, vlen, z3.IntVal(0), gidx), B[0] != 0, z3.BoolVal(bool(cfg.cont and L > 1)))
            if c.get('valid', True):
                ex.assume(z3.Not(mal))
            elif c.get('valid') is False and c.get('force_invalid'):
                ex.assume(mal)
            g = ex.new_region('garr'); b = ex.new_region('barr'); vec = ex.new_region('vector')
            for i in range(L):
                ex.store(Ptr(g, (i,)), G[i]); ex.store(Ptr(b, (i,)), B[i])
            vptr = Ptr(vec, (0,)) if not c.get('null_vector') else NULL
            ex.user['call_windows'] = 0; ex.user['call_max_files'] = c.get('max_files', cfg.max_files)
            if cfg.api == 'single' and L == 1:
                B = [z3.IntVal(0)]
            rec = dict(G=G, B=B, vlen=vlen, null_vector=bool(c.get('null_vector')), ev0=len(ex.events), pre=snapshot(o), malformed=mal, vec=vec, ilen=L, gidx_pre=gidx)
            ex.user['calls'].append(rec)
            if cfg.api == 'single' and L == 1:
                ret = ex.call('@digital_rf_write_hdf5', [o.ptr, G[0], vptr, vlen])
                rec['malformed'] = z3.Or(G[0] < gidx)        # write_hdf5 supplies b=[0]
                if c.get('valid', True): pass
            else:
                ret = ex.call('@digital_rf_write_blocks_hdf5', [o.ptr, Ptr(g, (0,)), Ptr(b, (0,)), L, vptr, vlen])
            rec['ret'] = ret; rec['ev1'] = len(ex.events); rec['post'] = snapshot(o)
            if cfg.getters:
                n_ev = len(ex.events)
                pf = ex.call('@digital_rf_get_last_file_written', [o.ptr]); pd = ex.call('@digital_rf_get_last_dir_written', [o.ptr])
                rec['last_file'] = envstubs.get_str(ex, pf).norm(); rec['last_dir'] = envstubs.get_str(ex, pd).norm()
                rec['last_write_time'] = ex.call('@digital_rf_get_last_write_time', [o.ptr])
                rec['getter_events'] = [e for e in ex.events[n_ev:] if e[0] in MUTATING]
        if cfg.close:
            ex.user['close_ev0'] = len(ex.events)
            ex.user['pre_close'] = snapshot(o)
            # digital_rf_close_write_hdf5 frees the object at the end; executed from IR (free is a recorded no-op)
            ex.call('@digital_rf_close_write_hdf5', [o.ptr])
            ex.user['closed'] = True
        return 0

    return setup, driver


# ----------------------------------------------------------------------------- trace -> model of the files on disk

def _basename_is_tmp(name):
    """does the last path component of an abstract file name start with 'tmp.'?"""
    lits = [p_ for p_ in name.parts if isinstance(p_, str) and '/' in p_]
    return bool(lits) and lits[-1].rsplit('/', 1)[1].startswith('tmp.')


def _same_type(a, b):
    if isinstance(a, int) and isinstance(b, int): return a == b
    return str(a) == str(b)


def build_files(ex):
    """rebuild, from the event trace of one path, the files the writer created: returns (files, problems)
    file = dict(name, fid, ev, window, rf(did,dims0,max0,extent,type,dcpl), writes[], index(did, rows[]), attrs{}, fclose_ev, rename_ev,
                final_name, dclose{}, removed)"""
    files = []; by_fid = {}; by_did = {}; problems = []
    win = None
    E = envstubs.env(ex)
    for idx, e in enumerate(ex.events):
        k = e[0]
        if k == 'subdir_file':
            win = ex.user['windows'][e[1]]
        elif k == 'pre_state':
            # the file that is open when the inductive step starts (see install_open_state): its earlier history is summarised by Inv_W
            ps = e[1]
            rec = dict(name=ps['name'], fid=ps['fid'], ev=idx, window=ps['window'], flags=H5F_ACC_EXCL, fault=False, writes=[], attrs={'sequence_num': ps['seq']},
                       fclose_ev=None, rename_ev=None, final_name=None, dclose={}, removed=None, handles=[], is_props=False, pre=True)
            rec['rf'] = dict(did=ps['did'], name=SymStr(['rf_data']), dims0=ps['extent'], max0=ps['cap'], extent=ps['extent'], type=ps['type'], dcpl=7002, ev=idx, rows=[], fault=False)
            rec['index'] = dict(did=ps['idid'], name=SymStr(['rf_data_index']), dims0=ps['nrows'], max0=None, extent=ps['nrows'], type=None, dcpl=7003, ev=idx,
                                rows=list(ps['rows']), fault=False, row_ev=[idx, idx], nrows=ps['nrows'], pre_rows=2)
            files.append(rec); by_fid[ps['fid']] = rec; by_did[ps['did']] = (rec, rec['rf']); by_did[ps['idid']] = (rec, rec['index'])
            win = ps['window']
        elif k == 'H5Fcreate':
            _, name, flags, fid, f = e
            rec = dict(name=name, fid=fid, ev=idx, window=win, flags=flags, fault=f, rf=None, writes=[], index=None, attrs={}, fclose_ev=None,
                       rename_ev=None, final_name=None, dclose={}, removed=None, handles=[], is_props=False)
            files.append(rec); by_fid[fid] = rec
        elif k == 'H5Dcreate2':
            _, loc, name, did, dims0, max0, ty, dcpl, f = e
            fr = by_fid.get(loc)
            if fr is None: problems.append(('dataset created in unknown file', idx)); continue
            ds = dict(did=did, name=name, dims0=dims0, max0=max0, extent=dims0, type=ty, dcpl=dcpl, ev=idx, rows=[], fault=f)
            nm = name.text() if name.is_concrete() else None
            if nm == 'rf_data': fr['rf'] = ds
            elif nm == 'rf_data_index': fr['index'] = ds
            else: problems.append(('unexpected dataset name', idx))
            by_did[did] = (fr, ds)
        elif k == 'H5Dset_extent':
            _, did, d0, f = e
            if did in by_did: by_did[did][1]['extent'] = d0
            else: problems.append(('set_extent on unknown dataset', idx))
        elif k == 'H5Dwrite':
            _, did, memtype, mdims0, sel, buf, f, mdims1, msid, fsid, snap = e
            if did not in by_did: problems.append(('H5Dwrite to unknown dataset', idx)); continue
            fr, ds = by_did[did]
            if ds is fr['rf']:
                fr['writes'].append(dict(ev=idx, memtype=memtype, cnt=mdims0, sel=sel, buf=buf, fault=f, ncol=mdims1, extent=ds['extent']))
            else:
                # index rows: first write covers the whole dataset, later ones the selected hyperslab
                if sel is None:
                    off, cnt = 0, ds['dims0']
                else:
                    off, cnt = sel[0], sel[1]
                if not isinstance(cnt, int) or snap is None or (not isinstance(off, int) and 'nrows' not in ds):
                    problems.append(('index write with symbolic shape', idx)); continue
                base = buf.path[-1] if buf.path else 0
                rows = [(snap.get((base + 2 * r,)), snap.get((base + 2 * r + 1,))) for r in range(cnt)]
                if 'nrows' in ds:
                    # file open since before the step: N0 rows (symbolic) + the rows appended on this path
                    have = ds['nrows'] + (len(ds['rows']) - ds['pre_rows'])
                    if not ex.valid(off == have): problems.append(('index rows not appended at the end (symbolic row count): offset %s, have %s' % (str(off)[:120], str(have)[:120]), idx))
                elif len(ds['rows']) != off: problems.append(('index rows not appended at the end (offset %r, have %d)' % (off, len(ds['rows'])), idx))
                ds['rows'] += rows
                ds.setdefault('row_ev', []).extend([idx] * cnt)
        elif k == 'H5Awrite':
            _, loc, name, val, mt, ct = e
            tgt = by_did.get(loc, (None, None))[0] or by_fid.get(loc)
            if tgt is not None and name is not None and name.is_concrete():
                tgt['attrs'][name.text()] = val
                # stored with the type it is handed over in (a narrower stored type silently truncates large values)
                if not _same_type(mt, ct): tgt.setdefault('attr_type_mismatch', []).append(name.text())
                if loc in by_fid: tgt['is_props'] = True
        elif k in ('H5Dclose',):
            if e[1] in by_did: by_did[e[1]][0]['dclose'][e[1]] = (idx, e[2])
        elif k == 'H5Fclose':
            if e[1] in by_fid: by_fid[e[1]]['fclose_ev'] = idx; by_fid[e[1]]['fclose_fault'] = e[2]
        elif k == 'rename':
            _, a, b, f = e
            hit = [fr for fr in files if envstubs.strid(fr['name']) == envstubs.strid(a) and fr['rename_ev'] is None]
            if hit: hit[-1]['rename_ev'] = idx; hit[-1]['final_name'] = b; hit[-1]['rename_fault'] = f
            else: problems.append(('rename of a file this writer did not create', idx, a))
        elif k == 'remove':
            _, a, f = e
            hit = [fr for fr in files if envstubs.strid(fr['name']) == envstubs.strid(a)]
            if hit: hit[-1]['removed'] = idx
            elif _basename_is_tmp(a): pass      # clearing a stale tmp. file (nobody reads those) is allowed
            else: problems.append(('remove of a file this writer did not create', idx, a))
    return files, problems


def sem_term(rows, r):
    """z3 term: absolute sample denoted by row r of a file with index rows [(sample, offset)] (rows sorted by offset)"""
    s0, o0 = rows[0]
    e = s0 + (r - o0)
    for (s, o) in rows[1:]:
        e = z3.If(r >= o, s + (r - o), e)
    return e


def same_name(ex, a, b):
    """are two abstract path strings equal on every model of the path condition?"""
    if envstubs.strid(a.copy().norm()) == envstubs.strid(b.copy().norm()): return True
    e = envstubs.str_eq(a.copy(), b.copy())
    if isinstance(e, bool): return e
    return ex.valid(e)


def expected_names(ex, cfg, w):
    from .wobj import CHDIR
    d = CHDIR + '/'
    tmp = SymStr([d, ('d', w['DIR'], 'cal'), '/', 'tmp.rf@', ('d', w['FS'], 'u'), '.', ('d', w['FMS'], 'u03'), '.h5']).norm()
    fin = SymStr([d, ('d', w['DIR'], 'cal'), '/', 'rf@', ('d', w['FS'], 'u'), '.', ('d', w['FMS'], 'u03'), '.h5']).norm()
    return tmp, fin


# ----------------------------------------------------------------------------- obligations on one path

ATTR_NAMES_FILE = ['sequence_num', 'H5Tget_class', 'H5Tget_size', 'H5Tget_order', 'H5Tget_precision', 'H5Tget_offset', 'num_subchannels',
                   'is_complex', 'subdir_cadence_secs', 'file_cadence_millisecs', 'is_continuous', 'sample_rate_numerator',
                   'sample_rate_denominator', 'init_utc_timestamp', 'computer_time', 'uuid_str', 'epoch', 'digital_rf_time_description',
                   'digital_rf_version']


INV_NAME = ('representation invariant Inv_W holds after an accepted call: the open handles, names, row cursor, index row count, sequence number and '
            'sample cursor describe the last file written (base case and inductive step for histories of any length)')


def inv_claim(ex, cfg, c, data_files, start):
    post = c['post']
    fl = [f for f in data_files if f['ev'] < c['ev1']]
    if not fl or fl[-1]['rf'] is None or not fl[-1]['index'] or not fl[-1]['index']['rows'] or fl[-1]['window'] is None: return False
    f = fl[-1]; w = f['window']; ix = f['index']; rows = ix['rows']
    nrows = (ix['nrows'] + (len(rows) - ix['pre_rows'])) if 'nrows' in ix else len(rows)
    sl, ol = rows[-1]
    di, gi = post['dataset_index'], post['global_index']
    tmpn, finn = expected_names(ex, cfg, w)
    from .wobj import CHDIR
    bn = SymStr(['tmp.rf@', ('d', w['FS'], 'u'), '.', ('d', w['FMS'], 'u03'), '.h5']).norm()
    sd = SymStr([('d', w['DIR'], 'cal')]).norm()
    def seq(a, b):
        if a is None or b is None: return z3.BoolVal(False)
        e = envstubs.str_eq(a.copy(), b.copy())
        return e if not isinstance(e, bool) else z3.BoolVal(e)
    def ideq(a, b):
        if isinstance(a, int) and isinstance(b, int): return z3.BoolVal(a == b)
        if isinstance(a, Ptr) or isinstance(b, Ptr): return z3.BoolVal(False)
        return a == b
    conj = [ideq(post['hdf5_file'], f['fid']), ideq(post['dataset'], f['rf']['did']), ideq(post['index_dataset'], ix['did']),
            seq(post['basename'], bn), seq(post['subdir_str'], sd),
            post['next_index_avail'] == nrows, ol < di, di >= 1, sl + (di - ol) == gi + start, gi + start <= w['c2'],
            post['present_seq'] == f['attrs'].get('sequence_num', -1), post['has_failure'] == 0,
            z3.BoolVal(isinstance(post['dataspace'], int) and post['dataspace'] != 0)]
    ext = f['rf']['extent']; cap = w['c2'] - w['c1']
    if cfg.cont and not cfg.chunk:
        conj += [ext == cap, di == gi + start - w['c1']]
    else:
        conj += [ext == di, post['chunk_size'] >= 1]
    ex_tmp = envstubs.env(ex).exists.get(envstubs.strid(f['name'].copy().norm()))
    if not ex.user.get('closed'):
        conj.append(z3.BoolVal(ex_tmp is True) if isinstance(ex_tmp, bool) or ex_tmp is None else ex_tmp)
    return z3.And(*conj)


class Agg:
    """worst verdict per named obligation over all paths of a configuration"""
    RANK = {'unsat': 0, 'unknown': 1, 'sat': 2}

    def __init__(self):
        self.d = {}; self.count = {}; self.reach = {}

    def reached(self, name):
        """reachability witness (vacuity guard): some explored path exhibits the situation `name`"""
        self.reach[name] = self.reach.get(name, 0) + 1

    def note(self, name, ok, model=None):
        v = 'unsat' if ok is True else ('sat' if ok is False else ok)
        self.count[name] = self.count.get(name, 0) + 1
        cur = self.d.get(name)
        if cur is None or self.RANK[v] > self.RANK[cur[0]]:
            self.d[name] = (v, model)


def _gappy(ex):
    """preferences for counterexample models, strongest first: a real gap before every block / between the blocks of a call / between
    calls (contiguous blocks hide index-table defects when the history is replayed on the real build)"""
    inner = []; outer = []; prev = None
    for c in ex.user['calls']:
        G, B, vlen = c['G'], c['B'], c['vlen']
        if prev is not None: outer.append(G[0] > prev)
        for i in range(len(G) - 1): inner.append(G[i + 1] - G[i] > B[i + 1] - B[i])
        prev = G[-1] + (vlen - B[-1])
    return [x for x in (inner + outer, inner, outer) if x]


def path_model(ex, extra=None, prefer=False):
    """concrete history for replay: start, per call (G, B, vlen), windows"""
    m = None
    if prefer or extra is not None:
        for pref in _gappy(ex):
            try: m = ex.model(z3.And(*(pref + ([extra] if extra is not None else []))))
            except Exception: m = None
            if m is not None: break
    if m is None: m = ex.model(extra)
    if m is None: return None
    out = dict(start=smt.mval(m, ex.user['start']), calls=[], windows=[])
    if ex.user.get('pre_open'):
        out['pre'] = {k_: smt.mval(m, v_) for k_, v_ in ex.user['pre_open'].items() if k_ != 'window'}
    for c in ex.user['calls']:
        out['calls'].append(dict(g=[smt.mval(m, x) for x in c['G']], b=[smt.mval(m, x) for x in c['B']], vlen=smt.mval(m, c['vlen']),
                                 ret=smt.mval(m, c['ret']) if c.get('ret') is not None else None))
    for w in ex.user.get('windows', []):
        out['windows'].append(tuple(smt.mval(m, w[x]) for x in ('k', 'c1', 'c2', 'FM', 'DIR')))
    return out


def check_claim(ex, agg, name, claim):
    """claim must hold on every model of the path condition"""
    if claim is True: agg.note(name, True); return True
    if claim is False:
        agg.note(name, False, path_model(ex, prefer=True)); return False
    if ex.valid(claim): agg.note(name, True); return True
    pm = path_model(ex, z3.Not(claim))
    if pm is not None and z3.is_and(claim):
        m = ex.model(z3.Not(claim))
        pm['failing_conjuncts'] = [i for i, c in enumerate(claim.children()) if z3.is_false(m.eval(c, model_completion=True))][:6]
    agg.note(name, False, pm); return False


def check_path(ex, cfg, status, ret, agg):
    """all W1/C02/C06/C19 obligations for one fault-free path of a history of *valid* calls"""
    if status != 'ret':
        agg.note('no C assert / abort / NULL dereference reachable on the write path', False, path_model(ex)); return
    agg.note('no C assert / abort / NULL dereference reachable on the write path', True)
    files, problems = build_files(ex)
    hard = [p for p in problems]
    agg.note('event trace is well formed (datasets/files/renames refer to objects this writer created)', not hard,
             None if not hard else dict(problems=[p[:2] for p in hard], model=path_model(ex, prefer=True)))
    if hard: return
    start = ex.user['start']
    esize = cfg.tsize * cfg.nsub * (2 if cfg.cplx else 1)
    calls = ex.user['calls']
    o = ex.user['obj']
    data_files = [f for f in files if not f['is_props']]
    for ci, c in enumerate(calls):
        tag = 'call%d' % (ci + 1)
        if not check_claim(ex, agg, 'a valid call on a healthy writer returns 0', c['ret'] == 0):
            continue
        G, B, vlen = c['G'], c['B'], c['vlen']
        ws = []
        for f in data_files:
            for w in f['writes']:
                if c['ev0'] <= w['ev'] < c['ev1']: ws.append((f, w))
        # C: coverage and buffer addressing
        cum = 0; okc = []
        for (f, w) in ws:
            buf = w['buf']
            okc.append(z3.BoolVal(isinstance(buf, Ptr) and buf.region == c['vec']))
            off_b = buf.path[-1] if isinstance(buf, Ptr) and buf.path else 0
            okc.append(off_b == cum * esize)
            sel = w['sel']
            okc.append(z3.BoolVal(sel is not None))
            if sel is not None:
                okc += [sel[1] == w['cnt'], sel[2] == 0, sel[3] == cfg.nsub, w['ncol'] == cfg.nsub, w['cnt'] >= 1]
            want_t = 7004 if cfg.cplx else 7001
            okc.append(w['memtype'] == want_t)
            okc.append(f['rf']['type'] == want_t)
            w['sw'] = cum
            cum = cum + w['cnt']
        okc.append(cum == vlen)
        check_claim(ex, agg, 'every vector position is written exactly once, in order, from vector + sw*elemsize, full rows, declared type', z3.And(*okc))
        # D: location + Sem for an arbitrary position J of this call
        J = z3.Int('J!%d' % ci)
        absJ = pos_spec(G, B, J) + start
        conj = []; anyin = []
        for (f, w) in ws:
            inw = z3.And(J >= w['sw'], J < w['sw'] + w['cnt'])
            anyin.append(inw)
            win = f['window']
            rows = f['index']['rows'] if f['index'] else []
            if win is None or not rows or w['sel'] is None:
                conj.append(z3.Not(inw)); continue
            row = w['sel'][0] + (J - w['sw'])
            conj.append(z3.Implies(inw, z3.And(win['c1'] <= absJ, absJ < win['c2'], row >= 0, row < f['rf']['extent'], row < w['extent'],
                                               sem_term(rows, row) == absJ)))
        claim = z3.Implies(z3.And(J >= 0, J < vlen), z3.And(z3.Or(*anyin) if anyin else False, *conj))
        check_claim(ex, agg, 'sample at vector position j lands in the file whose window contains its index, at a row inside the extent, and the '
                             "file's index maps that row back to exactly that index", claim)
        # F: cursor / bookkeeping
        last = G[-1] + (vlen - B[-1])
        check_claim(ex, agg, 'next-sample cursor == last block start + remaining length (one past the highest index written)',
                    c['post']['global_index'] == last)
        check_claim(ex, agg, 'has_failure stays 0 on a fault-free accepted call', c['post']['has_failure'] == 0)
        if 'last_file' in c:
            lf, ld = c['last_file'], c['last_dir']
            fl = [f for f in data_files if f['ev'] < c['ev1']]
            if fl and isinstance(lf, SymStr):
                tmpn, finn = expected_names(ex, cfg, fl[-1]['window'])
                e1 = envstubs.str_eq(lf, finn)
                wlast = fl[-1]['window']
                lastabs = last - 1 + start
                check_claim(ex, agg, 'last file / last directory written name the file containing the most recently written sample',
                            z3.And(e1 if not isinstance(e1, bool) else z3.BoolVal(e1), wlast['c1'] <= lastabs, lastabs < wlast['c2'],
                                   z3.BoolVal(isinstance(ld, SymStr) and envstubs.strid(ld.copy().norm()) ==
                                              envstubs.strid(SymStr([__import__('vlib.wobj', fromlist=['CHDIR']).CHDIR + '/', ('d', wlast['DIR'], 'cal'), '/']).norm()))))
            else:
                agg.note('last file / last directory written name the file containing the most recently written sample', False, path_model(ex))
    if data_files and data_files[0].get('pre'):
        f0 = data_files[0]
        if f0['writes']: agg.reached('step continues the file that was open before the call')
        if f0['writes'] and len(f0['index']['rows']) > f0['index']['pre_rows']: agg.reached('step appends index rows to the file that was open before the call')
        if f0['writes'] and len(data_files) > 1: agg.reached('step fills the open file and rolls over to a new one')
        if not f0['writes'] and len(data_files) > 1: agg.reached('step leaves the open file untouched and starts a later file')
        if f0['rename_ev'] is not None: agg.reached('the file that was open before the call is finalized (renamed)')
    # I: the state after the last call satisfies the representation invariant Inv_W (base case / inductive step of W2)
    if calls and ex.valid(calls[-1]['ret'] == 0):
        check_claim(ex, agg, INV_NAME, inv_claim(ex, cfg, calls[-1], data_files, start))
    # E: every file: well-formed index, within its window (checked on the final state of the path)
    for f in data_files:
        win = f['window']; rows = f['index']['rows'] if f['index'] else []
        if f['rf'] is None or win is None:
            agg.note('every created file has an rf_data dataset and a window', False, path_model(ex)); continue
        ext = f['rf']['extent']
        wf = [z3.BoolVal(len(rows) >= 1)]
        if rows:
            wf += [rows[0][1] == 0, rows[0][0] >= win['c1']]
            for ri, ((s0, o0), (s1, o1)) in enumerate(zip(rows, rows[1:])):
                if f.get('pre') and ri == 0: continue        # first / last row of the index as it was before the step: well formed by Inv_W
                wf += [s1 > s0, o1 > o0, o1 - o0 <= s1 - s0]
            sl, ol = rows[-1]
            wf += [ol < ext, sl + (ext - ol) <= win['c2'], ext <= win['c2'] - win['c1'], ext <= f['rf']['max0'],
                   f['rf']['max0'] == win['c2'] - win['c1']]
            if cfg.cont and not cfg.chunk:
                wf += [z3.BoolVal(len(rows) == (2 if f.get('pre') else 1)), rows[0][0] == win['c1'], ext == win['c2'] - win['c1']]
        check_claim(ex, agg, 'file index well formed: >=1 row, offset 0 first, strictly increasing, d(offset)<=d(sample), last offset inside the '
                             'stored rows, all samples inside the file window, rows <= window capacity', z3.And(*wf))
        # fill policy: slots never written must read as the fill value, so a dataset may be created with the fill pass switched off
        # (H5D_FILL_TIME_NEVER = 1) only if the call that creates the file writes every one of its slots
        ft = [e for e in ex.events[:f['rf']['ev']] if e[0] == 'H5Pset_fill_time' and e[1] == f['rf']['dcpl']]
        if ft and not f.get('pre'):
            tval = ft[-1][2]
            crc = [c for c in calls if c['ev0'] <= f['ev'] < c['ev1']]
            wrote = sum([w['cnt'] for w in f['writes'] if crc and crc[0]['ev0'] <= w['ev'] < crc[0]['ev1']]) if crc else 0
            check_claim(ex, agg, 'a file whose fill pass is switched off (H5D_FILL_TIME_NEVER) has every slot of its window written by the call that creates it',
                        z3.Or(tval != 1, wrote == win['c2'] - win['c1']) if not isinstance(tval, int) else (True if tval != 1 else wrote == win['c2'] - win['c1']))
        # a file is created only by a call that writes at least one of its slots
        cre_call = [c for c in calls if c['ev0'] <= f['ev'] < c['ev1']]
        if not f.get('pre'): agg.note('a data file exists only if the call that created it wrote at least one of its slots',
                 bool(cre_call) and any(cre_call[0]['ev0'] <= w['ev'] < cre_call[0]['ev1'] for w in f['writes']), None)
        # naming + protocol
        tmpn, finn = expected_names(ex, cfg, win)
        e_tmp = envstubs.str_eq(f['name'].copy(), tmpn)
        pr = [e_tmp if not isinstance(e_tmp, bool) else z3.BoolVal(e_tmp), f['flags'] == H5F_ACC_EXCL]
        first = f['name'].parts[0] if f['name'].parts else ''
        lit = ''.join(p for p in f['name'].parts if isinstance(p, str))
        pr.append(z3.BoolVal('/tmp.rf@' in lit))
        # access(final) == -1 observed before the create on this path
        acc = [e for e in ex.events[:f['ev']] if e[0] == 'access' and same_name(ex, e[1], finn)]
        pr.append(z3.BoolVal(bool(acc)))
        if acc:
            b = acc[-1][2]
            pr.append(z3.Not(b) if not isinstance(b, bool) else z3.BoolVal(not b))
        if not f.get('pre'):
            check_claim(ex, agg, "data file is created exclusively (H5F_ACC_EXCL) under dir/<subdir>/tmp.<name of the window's file> after the final "
                                 'name was seen absent', z3.And(*pr))
        if ex.user.get('closed') or f is not data_files[-1]:
            okp = f['fclose_ev'] is not None and f['rename_ev'] is not None and f['fclose_ev'] < f['rename_ev']
            if okp:
                for did, (ev_, _) in f['dclose'].items(): okp &= ev_ < f['fclose_ev']
                okp &= (f['rf'] is not None and f['rf']['did'] in f['dclose']) and (f['index'] is not None and f['index']['did'] in f['dclose'])
                e_fin = envstubs.str_eq(f['final_name'].copy(), finn)
                later = [e for e in ex.events[f['rename_ev'] + 1:] if e[0] in ('H5Fcreate', 'rename', 'remove')
                         and any(isinstance(a, SymStr) and envstubs.strid(a) in (envstubs.strid(f['name']), envstubs.strid(f['final_name'])) for a in e[1:3])]
                okp &= not later
                late_w = [w for w in f['writes'] if w['ev'] > f['fclose_ev']] + [1 for ev_ in f['index'].get('row_ev', []) if ev_ > f['fclose_ev']]
                okp &= not late_w
                check_claim(ex, agg, 'a file is renamed tmp.X -> X only after its datasets and the file are closed, exactly once, to the name of '
                                     'its window, and is never touched again', z3.And(z3.BoolVal(bool(okp)), e_fin if not isinstance(e_fin, bool) else z3.BoolVal(e_fin)))
            else:
                agg.note('a file is renamed tmp.X -> X only after its datasets and the file are closed, exactly once, to the name of its window, '
                         'and is never touched again', False, path_model(ex))
        # attributes
        if f.get('pre'): continue
        names_ok = sorted(f['attrs']) == sorted(ATTR_NAMES_FILE) and not f.get('attr_type_mismatch')
        vals = []
        if names_ok:
            a = f['attrs']
            for nm in ('num_subchannels', 'is_complex', 'subdir_cadence_secs', 'file_cadence_millisecs', 'is_continuous',
                       'sample_rate_numerator', 'sample_rate_denominator', 'init_utc_timestamp'):
                vals.append(a[nm] == o.get(nm) if not isinstance(a[nm], SymStr) else z3.BoolVal(False))
            vals.append(z3.BoolVal(isinstance(a['uuid_str'], SymStr) and a['uuid_str'].norm().text() == 'UUID'))
            for nm in ('epoch', 'digital_rf_time_description', 'digital_rf_version'):
                vals.append(z3.BoolVal(isinstance(a[nm], SymStr) and a[nm].is_concrete() and len(a[nm].text()) > 0))
        check_claim(ex, agg, 'each data file carries exactly the 19 documented attributes, channel parameters copied from the writer object, each stored with the type it is written with',
                    z3.And(z3.BoolVal(names_ok), *vals))
    # sequence numbers increase with file time within the session
    seqs = [(f['attrs'].get('sequence_num'), f['window']) for f in data_files if 'sequence_num' in f['attrs'] and f['window'] is not None]
    sq = []
    seq_base = data_files[0]['attrs']['sequence_num'] if data_files and data_files[0].get('pre') else 0
    for i, (s_, w_) in enumerate(seqs):
        sq.append(s_ == seq_base + i)
        if i > 0: sq.append(seqs[i - 1][1]['c2'] <= w_['c1'])
    check_claim(ex, agg, 'sequence_num counts files 0,1,2,... and files are created in increasing time order', z3.And(*sq) if sq else True)
    # no index reachable twice: windows of distinct files are disjoint
    dj = []
    for i, f in enumerate(data_files):
        for g_ in data_files[:i]:
            dj.append(g_['window']['c2'] <= f['window']['c1'])
    check_claim(ex, agg, 'no two files of the session cover the same index (a new file is opened exactly when the window changes)', z3.And(*dj) if dj else True)
    if ex.user.get('closed'):
        left = [f for f in data_files if f['rename_ev'] is None and f['removed'] is None]
        agg.note("after close no 'tmp.' file created by this writer is left (each was renamed)", not left, None if not left else path_model(ex))
        pc = ex.user['pre_close']
        agg.note('close releases the open file: dataset, index dataset and file handles closed before the final rename', True)
