"""Build artefacts from /repo's *current working tree* (never cached across runs).

- LLVM IR of the C writer (for the symbolic executor)
- the Python extension + a plain shared library of the C writer (for replays through the real build)
- a synthetic `digital_rf` package whose __path__ is [/repo/python/digital_rf, <scratch ext dir>]
All output goes to a scratch directory outside /repo and /verif that is removed at exit.
"""
import atexit, hashlib, os, shutil, subprocess, sys, sysconfig, tempfile, types

REPO = os.environ.get('VERIF_REPO', '/repo')
CSRC = os.path.join(REPO, 'c/lib/rf_write_hdf5.c')
CINC = os.path.join(REPO, 'c/include')
PYEXT_SRC = os.path.join(REPO, 'python/lib/py_rf_write_hdf5.c')
PYPKG = os.path.join(REPO, 'python/digital_rf')
H5INC = '/usr/include/hdf5/serial'

_scratch = None


def scratch():
    """One scratch dir per process, removed at exit."""
    global _scratch
    if _scratch is None:
        base = os.environ.get('VERIF_SCRATCH_BASE') or tempfile.gettempdir()
        _scratch = tempfile.mkdtemp(prefix='drfverif-', dir=base)
        atexit.register(shutil.rmtree, _scratch, True)
    return _scratch


def sha(path):
    with open(path, 'rb') as f:
        return hashlib.sha256(f.read()).hexdigest()[:16]


def run(cmd, **kw):
    r = subprocess.run(cmd, stdout=subprocess.PIPE, stderr=subprocess.STDOUT, text=True, **kw)
    if r.returncode != 0:
        raise RuntimeError('command failed: %s\n%s' % (' '.join(cmd), r.stdout[-4000:]))
    return r.stdout


def c_ir(src=CSRC, name='w', extra_inc=()):
    """clang -O0 (optnone disabled) + mem2reg: typed-pointer LLVM-14 IR text of a C file."""
    d = scratch()
    ll0, ll = os.path.join(d, name + '0.ll'), os.path.join(d, name + '.ll')
    inc = ['-I' + CINC, '-I' + H5INC] + ['-I' + i for i in extra_inc]
    run(['clang', '-S', '-emit-llvm', '-O0', '-Xclang', '-disable-O0-optnone', '-fno-discard-value-names'] + inc + [src, '-o', ll0])
    run(['opt', '-S', '-passes=mem2reg', ll0, '-o', ll])
    with open(ll) as f:
        return f.read()


def struct_fields(header=os.path.join(CINC, 'digital_rf.h'), struct='Digital_rf_write_object'):
    """Field names of the writer struct, in declaration order, read from the header (index = GEP field number)."""
    import re
    txt = open(header).read()
    txt = re.sub(r'/\*.*?\*/', '', txt, flags=re.S)
    txt = re.sub(r'//[^\n]*', '', txt)
    m = re.search(r'typedef\s+struct\s+\w*\s*\{(.*?)\}\s*' + struct + r'\s*;', txt, flags=re.S)
    if not m:
        raise RuntimeError('struct %s not found in %s' % (struct, header))
    names = []
    for decl in m.group(1).split(';'):
        decl = decl.strip()
        if not decl:
            continue
        mm = re.search(r'([A-Za-z_]\w*)\s*(\[[^\]]*\])?\s*$', decl)
        names.append(mm.group(1))
    return {n: i for i, n in enumerate(names)}


_ext_dir = None


def build_ext():
    """Compile the Python extension and a ctypes-loadable library of the C writer from the current tree."""
    global _ext_dir
    if _ext_dir:
        return _ext_dir
    d = os.path.join(scratch(), 'ext')
    os.makedirs(d, exist_ok=True)
    import numpy
    pyinc = sysconfig.get_paths()['include']
    suffix = sysconfig.get_config_var('EXT_SUFFIX')
    common = ['-O1', '-fPIC', '-shared', '-I' + CINC, '-I' + H5INC, '-L/usr/lib/x86_64-linux-gnu/hdf5/serial']
    run(['gcc'] + common + ['-I' + pyinc, '-I' + numpy.get_include(), PYEXT_SRC, CSRC, '-o',
                            os.path.join(d, '_py_rf_write_hdf5' + suffix), '-lhdf5_serial', '-lm'])
    run(['gcc'] + common + [CSRC, '-o', os.path.join(d, 'libdigital_rf_verif.so'), '-lhdf5_serial', '-lm'])
    _ext_dir = d
    return d


def load_pkg(with_ext=True, name='digital_rf'):
    """Synthetic package from /repo sources (the copy installed in /venv is never used)."""
    if name in sys.modules and getattr(sys.modules[name], '__verif_synth__', False):
        return sys.modules[name]
    for k in [k for k in sys.modules if k == name or k.startswith(name + '.')]:
        del sys.modules[k]
    pkg = types.ModuleType(name)
    pkg.__path__ = [PYPKG] + ([build_ext()] if with_ext else [])
    pkg.__file__ = os.path.join(PYPKG, '__init__.py')
    pkg.__package__ = name
    pkg.__verif_synth__ = True
    sys.modules[name] = pkg
    sys.dont_write_bytecode = True
    exec(compile(open(pkg.__file__).read(), pkg.__file__, 'exec'), pkg.__dict__)
    return pkg


def clib():
    """ctypes handle on the C writer built from the current tree (C library only; fast)"""
    import ctypes
    d = os.path.join(scratch(), 'clib')
    so = os.path.join(d, 'libdigital_rf_verif.so')
    if not os.path.exists(so):
        os.makedirs(d, exist_ok=True)
        run(['gcc', '-O1', '-fPIC', '-shared', '-I' + CINC, '-I' + H5INC, '-L/usr/lib/x86_64-linux-gnu/hdf5/serial', CSRC, '-o', so,
             '-lhdf5_serial', '-lm'])
    return ctypes.CDLL(so)
