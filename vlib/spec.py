"""Reference semantics shared by the checks: pure functions over python ints or z3 Int terms (all quantities >= 0)."""
import z3

T12 = 10**12


def is_sym(*xs):
    return any(not isinstance(x, int) for x in xs)


def fdiv(a, b):
    return a // b if not is_sym(a, b) else a / b      # z3 Int '/' is floor division for positive divisors


def fmod(a, b):
    return a % b


def cdiv(a, b):
    return fdiv(a + b - 1, b)


def sec(k, n, d): return fdiv(k * d, n)
def ps(k, n, d): return fdiv(fmod(k * d, n) * T12, n)
def ms(k, n, d): return fdiv(k * d * 1000, n)
def ceil_sample(s, p, n, d): return cdiv((s * T12 + p) * n, d * T12)
def file_ms(k, n, d, fc): return fdiv(ms(k, n, d), fc) * fc
def dir_sec(k, n, d, sc): return fdiv(sec(k, n, d), sc) * sc
def first_of_ms(F, n, d): return cdiv(F * n, 1000 * d)          # first sample index whose exact time is >= F milliseconds


def file_name(F):
    return 'rf@%d.%03d.h5' % (F // 1000, F % 1000)


def subdir_name(S):
    import datetime
    return datetime.datetime.fromtimestamp(S, tz=datetime.timezone.utc).strftime('%Y-%m-%dT%H-%M-%S')


def sem(index_rows, nrows):
    """partial map row -> absolute sample denoted by a data file with the given [(sample, offset)] index (python ints)"""
    out = {}
    for i, (s, o) in enumerate(index_rows):
        end = index_rows[i + 1][1] if i + 1 < len(index_rows) else nrows
        for r in range(o, end):
            out[r] = s + (r - o)
    return out
