"""Reference model of a Digital RF recording (python big integers) and a driver that runs the same history on the REAL build
through the public C API (ctypes on the library compiled from /repo) and compares everything observable:
file names, rf_data shapes and contents, rf_data_index rows, return codes, cursor, reader results.

Used (a) to replay solver counterexamples of the write-path harness against the real code, (b) to validate the harness's
environment stubs on every solver witness.
"""
import ctypes, glob, os, shutil, tempfile
from . import spec


class RefWriter:
    """what a recording must look like, derived from the property statements (not from the C code)"""

    def __init__(self, n, d, sc, fc, start, cont, chunk):
        self.n, self.d, self.sc, self.fc, self.start, self.cont, self.chunk = n, d, sc, fc, start, cont, chunk
        self.cursor = 0            # next writer-relative index
        self.files = {}            # relpath -> dict(c1, c2, rows=[(sample, offset)], data={row: value-id}, nrows)
        self.order = []
        self.open = None

    def window(self, k):
        Fm = spec.file_ms(k, self.n, self.d, self.fc)
        c1 = spec.first_of_ms(Fm, self.n, self.d); c2 = spec.first_of_ms(Fm + self.fc, self.n, self.d)
        S = spec.dir_sec(k, self.n, self.d, self.sc)
        return spec.subdir_name(S) + '/' + spec.file_name(Fm), c1, c2

    def malformed(self, G, B, vlen):
        if len(G) < 1 or len(G) != len(B): return True
        if G[0] < self.cursor or B[0] != 0: return True
        if self.cont and len(G) > 1: return True
        for i in range(len(G)):
            if B[i] >= vlen: return True
            if i > 0 and (B[i - 1] >= B[i] or G[i - 1] >= G[i] or B[i] - B[i - 1] > G[i] - G[i - 1]): return True
        return False

    def write_blocks(self, G, B, vlen, tag):
        """returns 0 if accepted (and updates the model), non-zero if it must be rejected (model unchanged)"""
        if vlen < 1:
            return 0 if not self.malformed(G, B, 1 << 62) else -1
        if self.malformed(G, B, vlen): return -1
        def pos(j):
            i = max(x for x in range(len(B)) if B[x] <= j)
            return G[i] + (j - B[i])
        unchunked = self.cont and not self.chunk
        for j in range(vlen):
            k = pos(j) + self.start
            name, c1, c2 = self.window(k)
            f = self.files.get(name)
            new_file = f is None
            if new_file:
                f = self.files[name] = dict(c1=c1, c2=c2, rows=[], data={}, nrows=(c2 - c1) if unchunked else 0, calls=set())
                self.order.append(name)
            if unchunked:
                row = k - c1
                if new_file: f['rows'].append((c1, 0))
            else:
                row = f['nrows']
                first_of_call_in_file = tag not in f['calls']
                gap_edge = j in B[1:]
                if first_of_call_in_file or gap_edge:
                    f['rows'].append((k, row))
                f['nrows'] += 1
            f['calls'].add(tag)
            f['data'][row] = (tag, j)
        self.cursor = pos(vlen - 1) + 1
        return 0


# ----------------------------------------------------------------------------- real build through the C API

class RealWriter:
    def __init__(self, build, chdir, n, d, sc, fc, start, cont, comp=0, checksum=0, dtype='short', cplx=0, nsub=1):
        self.lib = build.clib()
        self.h5 = ctypes.CDLL('libhdf5_serial.so')
        self.h5.H5open()
        tid = ctypes.c_int64.in_dll(self.h5, {'short': 'H5T_NATIVE_SHORT_g', 'int': 'H5T_NATIVE_INT_g', 'double': 'H5T_NATIVE_DOUBLE_g',
                                                'float': 'H5T_NATIVE_FLOAT_g', 'llong': 'H5T_NATIVE_LLONG_g'}[dtype]).value
        L = self.lib
        L.digital_rf_create_write_hdf5.restype = ctypes.c_void_p
        L.digital_rf_create_write_hdf5.argtypes = [ctypes.c_char_p, ctypes.c_int64, ctypes.c_uint64, ctypes.c_uint64, ctypes.c_uint64,
                                                   ctypes.c_uint64, ctypes.c_uint64, ctypes.c_char_p, ctypes.c_int, ctypes.c_int, ctypes.c_int,
                                                   ctypes.c_int, ctypes.c_int, ctypes.c_int]
        L.digital_rf_write_blocks_hdf5.argtypes = [ctypes.c_void_p, ctypes.POINTER(ctypes.c_uint64), ctypes.POINTER(ctypes.c_uint64),
                                                   ctypes.c_uint64, ctypes.c_void_p, ctypes.c_uint64]
        L.digital_rf_write_hdf5.argtypes = [ctypes.c_void_p, ctypes.c_uint64, ctypes.c_void_p, ctypes.c_uint64]
        L.digital_rf_close_write_hdf5.argtypes = [ctypes.c_void_p]
        for fn in ('digital_rf_get_last_file_written', 'digital_rf_get_last_dir_written'):
            getattr(L, fn).restype = ctypes.c_void_p; getattr(L, fn).argtypes = [ctypes.c_void_p]
        self.obj = L.digital_rf_create_write_hdf5(chdir.encode(), tid, sc, fc, start, n, d, b'UUID', comp, checksum, cplx, nsub, cont, 0)
        self.dtype, self.cplx, self.nsub = dtype, cplx, nsub

    def write_blocks(self, G, B, data):
        import numpy as np
        g = (ctypes.c_uint64 * len(G))(*G); b = (ctypes.c_uint64 * len(B))(*B)
        buf = np.ascontiguousarray(data)
        return self.lib.digital_rf_write_blocks_hdf5(self.obj, g, b, len(G), buf.ctypes.data_as(ctypes.c_void_p), len(data))

    def cursor(self):
        """the writer object's next-sample cursor (what the Python extension returns from a write)"""
        self.lib.verif_peek_global_index.restype = ctypes.c_uint64; self.lib.verif_peek_global_index.argtypes = [ctypes.c_void_p]
        return int(self.lib.verif_peek_global_index(self.obj))

    def last_file(self):
        p = self.lib.digital_rf_get_last_file_written(self.obj)
        return ctypes.string_at(p).decode()

    def close(self):
        if self.obj: self.lib.digital_rf_close_write_hdf5(self.obj); self.obj = None


def run_history(build, cfg, history, read_back=True, keep=False):
    """cfg: dict(n,d,sc,fc,start,cont,chunk[,comp]); history: [dict(g=[..], b=[..], vlen=int)].
    -> list of discrepancy strings between the real build and the reference model (empty = agreement)"""
    import numpy as np, h5py
    diffs = []
    top = tempfile.mkdtemp(prefix='tmp.drfreplay-')
    ch = os.path.join(top, 'ch'); os.makedirs(ch)
    try:
        comp = 1 if (cfg['cont'] and cfg['chunk']) else 0
        ref = RefWriter(cfg['n'], cfg['d'], cfg['sc'], cfg['fc'], cfg['start'], cfg['cont'], cfg['chunk'])
        rw = RealWriter(build, ch, cfg['n'], cfg['d'], cfg['sc'], cfg['fc'], cfg['start'], cfg['cont'], comp=comp)
        if not rw.obj: return ['real digital_rf_create_write_hdf5 returned NULL']
        values = {}
        for ci, c in enumerate(history):
            vlen = c['vlen']
            data = np.array([(ci * 1000 + j) % 30000 + 1 for j in range(vlen)], dtype=np.int16).reshape(-1, 1)
            want = ref.write_blocks(c['g'], c['b'], vlen, ci)
            got = rw.write_blocks(c['g'], c['b'], data)
            if (want == 0) != (got == 0):
                diffs.append('call %d: real build returned %d, reference model says %s' % (ci, got, 'accept' if want == 0 else 'reject'))
                if got != 0 and want == 0: break
            if got == 0 and want == 0:
                for j in range(vlen): values[(ci, j)] = int(data[j, 0])
                if rw.cursor() != ref.cursor:
                    diffs.append('call %d: next-sample cursor %d after the call, expected %d' % (ci, rw.cursor(), ref.cursor))
                lf = rw.last_file()
                k_last = ref.cursor - 1 + cfg['start']
                if not lf.endswith(ref.window(k_last)[0]):
                    diffs.append('call %d: last file written %s, expected .../%s' % (ci, lf, ref.window(k_last)[0]))
        rw.close()
        found = sorted(os.path.relpath(p, ch) for p in glob.glob(os.path.join(ch, '*', '*')))
        exp = sorted(ref.files)
        if found != exp:
            diffs.append('files on disk %s != expected %s' % (found[:6], exp[:6]))
        for name in exp:
            p = os.path.join(ch, name)
            if not os.path.exists(p): continue
            f = ref.files[name]
            with h5py.File(p, 'r') as h:
                idx = [tuple(int(x) for x in r) for r in h['rf_data_index'][...]]
                dat = h['rf_data'][...]
            # compare what the index *denotes* (row -> sample) and its well-formedness, not its exact row list
            exp_sem = spec.sem(f['rows'], f['nrows'])
            wf = len(idx) >= 1 and idx[0][1] == 0 and all(a[0] < b[0] and a[1] < b[1] and b[1] - a[1] <= b[0] - a[0] for a, b in zip(idx, idx[1:])) \
                and idx[-1][1] < max(1, dat.shape[0]) and idx[0][0] >= f['c1'] and idx[-1][0] + (dat.shape[0] - idx[-1][1]) <= f['c2']
            if not wf:
                diffs.append('%s: rf_data_index %s is not well formed for %d stored rows / window [%d,%d)' % (name, idx[:5], dat.shape[0], f['c1'], f['c2']))
            elif spec.sem(idx, dat.shape[0]) != exp_sem:
                diffs.append('%s: rf_data_index %s denotes other samples than expected %s' % (name, idx[:5], f['rows'][:5]))
            if dat.shape[0] != f['nrows']:
                diffs.append('%s: %d rows stored, expected %d' % (name, dat.shape[0], f['nrows']))
            for row, key in f['data'].items():
                if row < dat.shape[0] and int(dat[row, 0]) != values.get(key):
                    diffs.append('%s: row %d holds %d, expected %s' % (name, row, int(dat[row, 0]), values.get(key))); break
            if cfg['cont'] and not cfg['chunk']:
                fill = [r for r in range(dat.shape[0]) if r not in f['data']]
                bad = [r for r in fill if int(dat[r, 0]) != -32768]
                if bad: diffs.append('%s: unwritten slot %d reads %d, expected the int16 fill value' % (name, bad[0], int(dat[bad[0], 0])))
        if read_back and not diffs:
            from . import build as _b
            drf = _b.load_pkg()
            import warnings
            with warnings.catch_warnings():
                warnings.simplefilter('ignore')
                rd = drf.DigitalRFReader(top)
                lo = min(f['c1'] for f in ref.files.values()) if ref.files else 0
                hi = max(f['c2'] for f in ref.files.values()) if ref.files else 0
                if ref.files:
                    got = rd.read(lo - 2, hi + 2, 'ch')
                    # expected blocks: maximal runs of present indices (incl. fill slots in continuous-unchunked files)
                    present = {}
                    for name, f in ref.files.items():
                        sem = spec.sem(f['rows'], f['nrows'])
                        for row, k in sem.items():
                            present[k] = values.get(f['data'].get(row), -32768)
                    ks = sorted(present)
                    blocks = {}
                    for k in ks:
                        if k - 1 in present: blocks[cur].append(present[k])
                        else: cur = k; blocks[k] = [present[k]]
                    gotd = {int(k): [int(x) for x in v[:, 0]] for k, v in got.items()}
                    if gotd != blocks:
                        diffs.append('reader returned blocks %s, expected %s' % ([(k, len(v)) for k, v in gotd.items()][:6], [(k, len(v)) for k, v in blocks.items()][:6]))
                    b0, b1 = rd.get_bounds('ch')
                    if (b0, b1) != (ks[0], ks[-1]): diffs.append('bounds %s != %s' % ((b0, b1), (ks[0], ks[-1])))
                rd.close()
        return diffs
    finally:
        if not keep: shutil.rmtree(top, ignore_errors=True)
