import numpy as np, digital_rf as drf
w=drf.DigitalRFWriter('t5/ch', np.int16, 3600, 1000, 10**10, 10, 1, is_complex=False, is_continuous=False, marching_periods=False)
print(w.rf_write(np.zeros((3,1),np.int16)))
print('zero-length write at 7 ->', w.rf_write(np.zeros((0,1),np.int16), 7))
print(w.get_next_available_sample(), w.get_total_samples_written(), w.get_total_gap_samples())
print(w.rf_write(np.zeros((2,1),np.int16), 9))
print(w.get_next_available_sample(), w.get_total_samples_written(), w.get_total_gap_samples())
w.close()
