"""Prototype: path-forking symbolic executor for clang -O0 + mem2reg LLVM-14 IR -> z3 Int.

Values:  python int (concrete, canonical unsigned in [0,2^N)), z3 ArithRef (symbolic, same range), z3 BoolRef for i1
Pointers: Ptr(region, path) ; path = tuple of ints / z3 terms ; region None = null
Memory:  region -> {path: value}; unknown cells are lazily created symbolic.
Exploration: re-execution with a decision prefix (DFS); z3 incremental solver decides branch feasibility.
"""
import re, z3, itertools, time, sys

M = lambda bits: 1 << bits

# ----------------------------------------------------------------------------- parsing

def split_top(s, sep=','):
    out, depth, cur = [], 0, []
    i = 0
    while i < len(s):
        c = s[i]
        if c in '([{<':
            depth += 1
        elif c in ')]}>':
            depth -= 1
        if c == sep and depth == 0:
            out.append(''.join(cur).strip()); cur = []
        elif c == '"':
            j = s.index('"', i + 1)
            cur.append(s[i:j + 1]); i = j
        else:
            cur.append(c)
        i += 1
    if cur:
        out.append(''.join(cur).strip())
    return out


class Ty:
    def __init__(self, kind, **kw):
        self.kind = kind; self.__dict__.update(kw)
    def __repr__(self):
        return self.s
    @property
    def s(self):
        k = self.kind
        if k == 'int': return 'i%d' % self.bits
        if k == 'ptr': return self.to.s + '*'
        if k == 'arr': return '[%d x %s]' % (self.n, self.elem.s)
        if k == 'struct': return self.name or '{...}'
        return k


def parse_type(s, mod):
    s = s.strip()
    # strip trailing '*'s
    stars = 0
    while s.endswith('*'):
        s = s[:-1].strip(); stars += 1
    if s.endswith(')') and not s.startswith('('):  # function type "i32 (i8*, ...)"
        t = Ty('func')
    elif re.fullmatch(r'i\d+', s):
        t = Ty('int', bits=int(s[1:]))
    elif s in ('float', 'double', 'x86_fp80', 'void', 'label', 'metadata'):
        t = Ty(s)
    elif s.startswith('['):
        m = re.fullmatch(r'\[(\d+) x (.*)\]', s)
        t = Ty('arr', n=int(m.group(1)), elem=parse_type(m.group(2), mod))
    elif s.startswith('%'):
        t = Ty('struct', name=s)
    elif s.startswith('{'):
        t = Ty('struct', name=None, fields=[parse_type(x, mod) for x in split_top(s[1:-1].strip())])
    elif s == '...':
        t = Ty('vararg')
    else:
        raise ValueError('type? ' + s)
    for _ in range(stars):
        t = Ty('ptr', to=t)
    return t


class Instr:
    __slots__ = ('dest', 'op', 'text', 'cache')
    def __init__(self, dest, op, text):
        self.dest, self.op, self.text, self.cache = dest, op, text, None


class Func:
    def __init__(self, name, params, ret):
        self.name, self.params, self.ret = name, params, ret
        self.blocks = {}; self.entry = None


class Module:
    def __init__(self, text):
        self.structs = {}; self.globals = {}; self.funcs = {}; self.decls = set()
        self._parse(text)

    def _parse(self, text):
        lines = text.split('\n')
        i = 0
        while i < len(lines):
            ln = lines[i]
            m = re.match(r'(%[\w.]+) = type (.*)$', ln)
            if m:
                body = m.group(2).strip()
                if body.startswith('{'):
                    self.structs[m.group(1)] = body
                else:
                    self.structs[m.group(1)] = None  # opaque
                i += 1; continue
            m = re.match(r'(@[\w.$]+) = (.*)$', ln)
            if m:
                self.globals[m.group(1)] = m.group(2)
                i += 1; continue
            m = re.match(r'declare .*?(@[\w.$]+)\(', ln)
            if m:
                self.decls.add(m.group(1)); i += 1; continue
            m = re.match(r'define (.*?)(@[\w.$]+)\((.*)\) .*\{$', ln)
            if m:
                retty = re.sub(r'\b(dso_local|noundef|internal|signext|zeroext|noalias|nonnull)\b', '', m.group(1)).strip()
                params = []
                for p in split_top(m.group(3)):
                    if not p: continue
                    toks = p.split()
                    params.append((toks[0] if not toks[0].startswith('%struct') else toks[0], toks[-1]))
                    # type may contain spaces ([2 x i8]*): recompute
                    name = toks[-1]
                    tyS = p[:p.rindex(name)]
                    tyS = re.sub(r'\b(noundef|nocapture|readonly|writeonly|noalias|nonnull|signext|zeroext)\b', '', tyS).strip()
                    params[-1] = (tyS, name)
                f = Func(m.group(2), params, retty)
                i += 1
                label = 'entry%d' % len(params)
                # the implicit entry label is the next unnamed value number
                label = str(len(params))
                f.entry = label
                f.blocks[label] = []
                while lines[i] != '}':
                    ln = lines[i]
                    mm = re.match(r'([\w.]+):', ln)
                    if mm:
                        label = mm.group(1); f.blocks[label] = []
                    elif ln.strip():
                        t = ln.strip()
                        while t.endswith('['):
                            i += 1
                            while lines[i].strip() != ']':
                                t += ' ' + lines[i].strip(); i += 1
                            t += ']'
                        t = re.sub(r', ![\w.]+ !\d+', '', t)
                        md = re.match(r'(%[\w.]+) = (.*)$', t)
                        if md:
                            dest, rest = md.group(1), md.group(2)
                        else:
                            dest, rest = None, t
                        rest = re.sub(r'^(tail |musttail |notail )', '', rest)
                        op = rest.split()[0]
                        f.blocks[label].append(Instr(dest, op, rest))
                    i += 1
                self.funcs[f.name] = f
            i += 1

    # struct field types
    def struct_fields(self, name):
        body = self.structs[name]
        return [parse_type(x, self) for x in split_top(body.strip()[1:-1].strip())]


# ----------------------------------------------------------------------------- values

class Ptr:
    __slots__ = ('region', 'path')
    def __init__(self, region, path=()):
        self.region, self.path = region, tuple(path)
    def __repr__(self):
        return 'Ptr(%s,%s)' % (self.region, self.path)
    def __eq__(self, o):
        return isinstance(o, Ptr) and self.region == o.region and all(_same(a, b) for a, b in itertools.zip_longest(self.path, o.path))
    def __hash__(self):
        return hash(self.region)

NULL = Ptr(None)


def _same(a, b):
    if isinstance(a, int) and isinstance(b, int): return a == b
    if a is None or b is None: return False
    try:
        return z3.eq(z3.simplify(a - b), z3.IntVal(0)) if not (isinstance(a, str) or isinstance(b, str)) else a == b
    except Exception:
        return a == b


class SymStr:
    """abstract C string: list of parts; part = python str | ('d', term, width)"""
    def __init__(self, parts=()):
        self.parts = list(parts)
    def copy(self): return SymStr(self.parts)
    def __repr__(self):
        return 'S<' + ''.join(p if isinstance(p, str) else '{%s}' % (p[1],) for p in self.parts) + '>'
    def norm(self):
        out = []
        for p in self.parts:
            if isinstance(p, str) and out and isinstance(out[-1], str): out[-1] += p
            elif p != '': out.append(p)
        self.parts = out; return self


class PathEnd(Exception):
    pass

class Infeasible(Exception):
    pass

class AssertFail(Exception):
    pass


class Exec:
    def __init__(self, mod, stubs, summaries=None, max_steps=200000):
        self.mod, self.stubs, self.summaries = mod, stubs, summaries or {}
        self.max_steps = max_steps
        self.nq = 0; self.tq = 0.0

    # ---- exploration driver: run `setup(ex)` then function; returns list of path results
    def explore(self, fname, setup, on_path, max_paths=100000):
        decisions_todo = [[]]
        npaths = 0
        while decisions_todo:
            prefix = decisions_todo.pop()
            self.solver = z3.Solver(); self.solver.set('timeout', 3000)
            self.mem = {}; self.region_n = 0; self.events = []; self.decisions = list(prefix); self.dpos = 0
            self.steps = 0; self.fresh_n = 0; self.pc = []; self.euclid = {}; self.new_alts = []
            args = setup(self)
            try:
                ret = self.call(fname, args)
                status = 'ret'
            except AssertFail as e:
                ret = str(e); status = 'assert_fail'
            except Infeasible:
                continue
            for alt in self.new_alts:
                decisions_todo.append(alt)
            npaths += 1
            on_path(self, status, ret)
            if npaths >= max_paths:
                break
        return npaths

    # ---- solver helpers
    def assume(self, c):
        if c is True: return
        if c is False: raise Infeasible()
        self.solver.add(c); self.pc.append(c)

    def sat(self, extra=None):
        self.nq += 1; t0 = time.time()
        if extra is not None:
            self.solver.push(); self.solver.add(extra)
        r = self.solver.check()
        if extra is not None:
            self.solver.pop()
        self.tq += time.time() - t0
        if r == z3.unknown:
            # fall back to a fresh, non-incremental solver (full preprocessing)
            s2 = z3.Solver(); s2.set('timeout', 120000)
            s2.add(*self.pc)
            if extra is not None: s2.add(extra)
            t1 = time.time(); r = s2.check(); self.tq += time.time() - t1; self.nfallback = getattr(self, 'nfallback', 0) + 1
            if r == z3.unknown:
                raise RuntimeError('solver unknown')
        return r == z3.sat

    def fresh(self, name, bits=64):
        self.fresh_n += 1
        v = z3.Int('%s!%d' % (name, self.fresh_n))
        self.assume(v >= 0); self.assume(v < M(bits))
        return v

    def decide(self, cond):
        """branch on z3 Bool / python bool; returns python bool"""
        if isinstance(cond, bool): return cond
        cond = z3.simplify(cond)
        if z3.is_true(cond): return True
        if z3.is_false(cond): return False
        if self.dpos < len(self.decisions):
            d = self.decisions[self.dpos]; self.dpos += 1
            self.assume(cond if d else z3.Not(cond))
            return d
        t_ok = self.sat(cond); f_ok = self.sat(z3.Not(cond))
        if t_ok and f_ok:
            self.new_alts.append(self.decisions[:self.dpos] + [False])
            self.decisions.append(True); self.dpos += 1
            self.assume(cond); return True
        if t_ok:
            self.decisions.append(True); self.dpos += 1
            self.assume(cond); return True
        if f_ok:
            self.decisions.append(False); self.dpos += 1
            self.assume(z3.Not(cond)); return False
        raise Infeasible()

    # ---- memory
    def new_region(self, kind, ty=None, init=None):
        self.region_n += 1
        rid = '%s#%d' % (kind, self.region_n)
        self.mem[rid] = {'ty': ty, 'cells': dict(init or {})}
        return rid

    def load(self, ptr, ty):
        if ptr.region is None:
            raise AssertFail('null deref load')
        cells = self.mem[ptr.region]['cells']
        key = self._key(ptr.path)
        if key not in cells:
            cells[key] = self.default_value(ptr, ty)
        return cells[key]

    def store(self, ptr, val):
        if ptr.region is None:
            raise AssertFail('null deref store')
        self.mem[ptr.region]['cells'][self._key(ptr.path)] = val

    def _key(self, path):
        out = []
        for p in path:
            if isinstance(p, int): out.append(p)
            else:
                p = z3.simplify(p)
                out.append(p.as_long() if z3.is_int_value(p) else ('sym', str(p)))
        return tuple(out)

    def default_value(self, ptr, ty):
        if ty is None:
            return self.fresh('m_%s_%s' % (ptr.region, '_'.join(map(str, self._key(ptr.path)))), 64)
        if ty.kind == 'int':
            return self.fresh('m_%s_%s' % (ptr.region, '_'.join(map(str, self._key(ptr.path)))), ty.bits)
        if ty.kind == 'ptr':
            return NULL
        raise RuntimeError('default for %s at %s' % (ty, ptr))

    # ---- ints
    def wrap_add(self, a, b, bits):
        if isinstance(a, int) and isinstance(b, int): return (a + b) % M(bits)
        s = a + b
        return z3.If(s < M(bits), s, s - M(bits))
    def wrap_sub(self, a, b, bits):
        if isinstance(a, int) and isinstance(b, int): return (a - b) % M(bits)
        return z3.If(a >= b, a - b, a - b + M(bits))
    def wrap_mul(self, a, b, bits):
        if isinstance(a, int) and isinstance(b, int): return (a * b) % M(bits)
        p = a * b
        # obligation-style: if provably no overflow use plain product
        if not self.sat(p >= M(bits)):
            return p
        return p % M(bits)
    def udivrem(self, a, b):
        if isinstance(a, int) and isinstance(b, int):
            if b == 0: raise AssertFail('div by zero')
            return a // b, a % b
        if isinstance(b, int):
            if b == 0: raise AssertFail('div by zero')
            return a / b, a % b
        if self.sat(b == 0): raise AssertFail('possible div by zero')
        key = (str(a), str(b))
        if key not in self.euclid:
            self.fresh_n += 1
            q = z3.Int('q!%d' % self.fresh_n); r = z3.Int('r!%d' % self.fresh_n)
            self.assume(z3.And(a == q * b + r, r >= 0, r < b, q >= 0))
            self.euclid[key] = (q, r)
        return self.euclid[key]
    def signed(self, a, bits):
        if isinstance(a, int): return a - M(bits) if a >= M(bits - 1) else a
        return z3.If(a >= M(bits - 1), a - M(bits), a)
    def unsigned(self, a, bits):
        if isinstance(a, int): return a % M(bits)
        return z3.If(a < 0, a + M(bits), a)

    # ---- operand evaluation
    def operand(self, tyS, tok, env):
        tok = tok.strip()
        ty = parse_type(tyS, self.mod)
        if tok.startswith('%'):
            return env[tok]
        if tok in ('null',): return NULL
        if tok in ('true',): return True
        if tok in ('false',): return False
        if tok in ('undef', 'poison'): return 0
        if re.fullmatch(r'-?\d+', tok):
            v = int(tok)
            return v % M(ty.bits) if ty.kind == 'int' else v
        if tok.startswith('@'):
            return self.global_ptr(tok)
        if tok.startswith('getelementptr'):
            m = re.match(r'getelementptr (inbounds )?\((.*)\)$', tok)
            parts = split_top(m.group(2))
            base_ty = parts[0]
            bt, bv = parts[1].rsplit(' ', 1)
            base = self.operand(bt, bv, env)
            idx = [self.operand(*p.rsplit(' ', 1), env) for p in parts[2:]]
            return self.gep(base, parse_type(base_ty, self.mod), idx)
        if tok.startswith('bitcast'):
            m = re.match(r'bitcast \((.*) to (.*)\)$', tok)
            t, v = m.group(1).rsplit(' ', 1)
            return self.operand(t, v, env)
        if tok.startswith('0x') or re.fullmatch(r'-?\d+\.\d+e[+-]\d+', tok):
            return ('fp', tok)
        raise ValueError('operand? %s %s' % (tyS, tok))

    def global_ptr(self, name):
        rid = 'G' + name
        if rid not in self.mem:
            init = self.mod.globals.get(name)
            cells = {}
            if init is not None:
                m = re.search(r'constant \[(\d+) x i8\] c"(.*)"', init)
                if m:
                    raw = m.group(2)
                    s = re.sub(r'\\([0-9A-Fa-f]{2})', lambda mm: chr(int(mm.group(1), 16)), raw)
                    s = s.split('\0')[0]
                    cells[()] = SymStr([s])
                else:
                    m = re.search(r'constant \[(\d+) x (i\d+)\] \[(.*)\]', init)
                    if m:
                        bits = int(m.group(2)[1:])
                        for k, e in enumerate(split_top(m.group(3))):
                            cells[(k,)] = int(e.split()[-1]) % M(bits)
            self.mem[rid] = {'ty': None, 'cells': cells}
        return Ptr(rid)

    def gep(self, base, base_ty, idx):
        if base.region is None:
            return NULL
        path = list(base.path)
        first = idx[0]
        if not (isinstance(first, int) and first == 0):
            # pointer arithmetic over elements
            if path and not isinstance(path[-1], str):
                last = path[-1]
                path[-1] = last + first if not (isinstance(last, int) and isinstance(first, int)) else last + first
            else:
                path.append(first)
        elif not path and base_ty.kind not in ('struct', 'arr'):
            path.append(0)
        for ix in idx[1:]:
            path.append(ix)
        # normalise [N x i8] decay: (.., 0) on a char buffer => pointer to string start
        return Ptr(base.region, path)

    # ---- calls
    def call(self, fname, args):
        if fname in self.summaries:
            return self.summaries[fname](self, *args)
        if fname in self.mod.funcs:
            return self.run(self.mod.funcs[fname], args)
        if fname in self.stubs:
            return self.stubs[fname](self, *args)
        raise RuntimeError('no stub for ' + fname)

    def run(self, f, args):
        env = {}
        for (t, n), a in zip(f.params, args):
            env[n] = a
        label, prev = f.entry, None
        while True:
            for ins in f.blocks[label]:
                self.steps += 1
                if self.steps > self.max_steps: raise RuntimeError('step budget')
                try:
                    r = self.step(ins, env, prev, f)
                except (AssertFail, Infeasible, PathEnd):
                    raise
                except Exception as e:
                    if not getattr(e, '_noted', False):
                        e._noted = True
                        print('ERROR at', f.name, ins.text[:200], file=sys.stderr)
                    raise
                if r is not None:
                    kind, v = r
                    if kind == 'br':
                        prev, label = label, v
                        break
                    if kind == 'ret':
                        return v
            else:
                raise RuntimeError('fell off block')

    def step(self, ins, env, prev, f):
        op, t = ins.op, ins.text
        if op == 'br':
            m = re.match(r'br label %([\w.]+)$', t)
            if m: return ('br', m.group(1))
            m = re.match(r'br i1 (.+), label %([\w.]+), label %([\w.]+)$', t)
            c = self.operand('i1', m.group(1), env)
            return ('br', m.group(2) if self.decide(c) else m.group(3))
        if op == 'ret':
            if t == 'ret void': return ('ret', None)
            ty, v = t[4:].rsplit(' ', 1)
            return ('ret', self.operand(ty, v, env))
        if op == 'phi':
            m = re.match(r'phi (.+?) (\[.*)$', t)
            ty = m.group(1)
            for pair in split_top(m.group(2)):
                v, lab = pair.strip()[1:-1].rsplit(',', 1)
                if lab.strip()[1:] == prev:
                    env[ins.dest] = self.operand(ty, v.strip(), env); return
            raise RuntimeError('phi no pred')
        if op in ('add', 'sub', 'mul', 'udiv', 'urem', 'and', 'or', 'xor', 'shl', 'lshr', 'sdiv', 'srem'):
            m = re.match(r'\w+ (?:nuw |nsw |exact )*(i\d+) (.+), (.+)$', t)
            bits = int(m.group(1)[1:])
            a = self.operand(m.group(1), m.group(2), env); b = self.operand(m.group(1), m.group(3), env)
            if op == 'add': r = self.wrap_add(a, b, bits)
            elif op == 'sub': r = self.wrap_sub(a, b, bits)
            elif op == 'mul': r = self.wrap_mul(a, b, bits)
            elif op == 'udiv': r = self.udivrem(a, b)[0]
            elif op == 'urem': r = self.udivrem(a, b)[1]
            elif op == 'and' and bits == 1:
                r = z3.And(a, b) if not (isinstance(a, bool) and isinstance(b, bool)) else (a and b)
            elif isinstance(a, int) and isinstance(b, int):
                r = {'and': a & b, 'or': a | b, 'xor': a ^ b, 'shl': (a << b) % M(bits), 'lshr': a >> b}[op]
            else:
                raise RuntimeError('symbolic bitop ' + t)
            env[ins.dest] = r; return
        if op == 'icmp':
            m = re.match(r'icmp (\w+) (.+?) ([^ ,]+), (.+)$', t)
            pred, ty = m.group(1), m.group(2)
            a = self.operand(ty, m.group(3), env); b = self.operand(ty, m.group(4), env)
            if isinstance(a, Ptr) or isinstance(b, Ptr):
                eq = (a == b)
                env[ins.dest] = eq if pred == 'eq' else (not eq); return
            bits = parse_type(ty, self.mod).bits
            if pred in ('slt', 'sle', 'sgt', 'sge'):
                a, b = self.signed(a, bits), self.signed(b, bits)
            r = {'eq': lambda: a == b, 'ne': lambda: a != b, 'ult': lambda: a < b, 'ule': lambda: a <= b,
                 'ugt': lambda: a > b, 'uge': lambda: a >= b, 'slt': lambda: a < b, 'sle': lambda: a <= b,
                 'sgt': lambda: a > b, 'sge': lambda: a >= b}[pred]()
            env[ins.dest] = r; return
        if op in ('zext', 'sext', 'trunc', 'bitcast', 'ptrtoint', 'inttoptr'):
            m = re.match(r'\w+ (.+?) ([^ ]+) to (.+)$', t)
            fromT, v, toT = parse_type(m.group(1), self.mod), self.operand(m.group(1), m.group(2), env), parse_type(m.group(3), self.mod)
            if op == 'bitcast': env[ins.dest] = v; return
            if op == 'zext':
                if fromT.bits == 1:
                    v = (1 if v else 0) if isinstance(v, bool) else z3.If(v, z3.IntVal(1), z3.IntVal(0))
                env[ins.dest] = v; return
            if op == 'sext':
                if fromT.bits == 1:
                    v = (M(toT.bits) - 1 if v else 0) if isinstance(v, bool) else z3.If(v, z3.IntVal(M(toT.bits) - 1), z3.IntVal(0))
                else:
                    s = self.signed(v, fromT.bits); v = self.unsigned(s, toT.bits)
                env[ins.dest] = v; return
            if op == 'trunc':
                env[ins.dest] = v % M(toT.bits) if isinstance(v, int) else v % M(toT.bits); return
        if op == 'select':
            m = re.match(r'select i1 (.+?), (.+?) ([^ ,]+), (.+?) ([^ ,]+)$', t)
            c = self.operand('i1', m.group(1), env)
            a = self.operand(m.group(2), m.group(3), env); b = self.operand(m.group(4), m.group(5), env)
            if isinstance(c, bool): env[ins.dest] = a if c else b
            else: env[ins.dest] = z3.If(c, a, b)
            return
        if op == 'alloca':
            m = re.match(r'alloca (.+?), align', t)
            ty = parse_type(m.group(1), self.mod)
            env[ins.dest] = Ptr(self.new_region('stack', ty)); return
        if op == 'load':
            m = re.match(r'load (?:volatile )?(.+?), (.+?) ([^ ,]+)(?:, align \d+)?$', t)
            ty = parse_type(m.group(1), self.mod)
            p = self.operand(m.group(2), m.group(3), env)
            env[ins.dest] = self.load(p, ty); return
        if op == 'store':
            m = re.match(r'store (?:volatile )?(.+?) ([^ ,]+), (.+?) ([^ ,]+)(?:, align \d+)?$', t)
            v = self.operand(m.group(1), m.group(2), env)
            p = self.operand(m.group(3), m.group(4), env)
            self.store(p, v); return
        if op == 'getelementptr':
            m = re.match(r'getelementptr (?:inbounds )?(.+)$', t)
            parts = split_top(m.group(1))
            base_ty = parse_type(parts[0], self.mod)
            bt, bv = parts[1].rsplit(' ', 1)
            base = self.operand(bt, bv, env)
            idx = [self.operand(*p.rsplit(' ', 1), env) for p in parts[2:]]
            env[ins.dest] = self.gep(base, base_ty, idx); return
        if op == 'call':
            m = re.match(r'call (.+?) (@[\w.$]+)\((.*)\)(?: #\d+)?$', t)
            if not m: raise RuntimeError('call? ' + t)
            fname, argS = m.group(2), m.group(3)
            args = []
            for a in split_top(argS):
                if not a: continue
                a = re.sub(r'\b(noundef|nocapture|readonly|writeonly|noalias|nonnull|signext|zeroext|align \d+)\b', '', a).strip()
                a = re.sub(r'\s+', ' ', a)
                if a.startswith('metadata'): args.append(None); continue
                # split type / value: value is last token unless constant expression
                mm = re.match(r'(.+?) ((?:getelementptr|bitcast) .*)$', a)
                if mm: ty, v = mm.group(1), mm.group(2)
                else: ty, v = a.rsplit(' ', 1)
                args.append(self.operand(ty, v, env))
            if fname.startswith('@llvm.lifetime') or fname.startswith('@llvm.dbg'):
                return
            r = self.call(fname, args)
            if ins.dest: env[ins.dest] = r
            return
        if op == 'switch':
            m = re.match(r'switch (i\d+) ([^ ,]+), label %([\w.]+) \[(.*)\]$', t)
            v = self.operand(m.group(1), m.group(2), env)
            cases = re.findall(r'i\d+ (-?\d+), label %([\w.]+)', m.group(4))
            bits = int(m.group(1)[1:])
            for cv, lab in cases:
                if self.decide(v == (int(cv) % M(bits))) if not isinstance(v, int) else v == int(cv) % M(bits):
                    return ('br', lab)
            return ('br', m.group(3))
        if op == 'unreachable':
            raise AssertFail('unreachable')
        raise RuntimeError('unhandled instr: ' + t)
