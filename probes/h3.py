import sys, time, z3
from llsym import *
import envstubs
mod = Module(open('w.ll').read())
stubs = envstubs.mk_stubs()
ILEN = 2
def zmin(a, b): return z3.If(a <= b, a, b)
def setup(ex):
    obj = ex.new_region('wobj'); g = ex.new_region('garr'); b = ex.new_region('barr'); rows = ex.new_region('rows'); stw = ex.new_region('stw')
    v = {nm: z3.Int(nm) for nm in ['sw', 'left', 'maxf', 'vlen', 'gidx', 'gstart', 'chunk', 'cont', 'fex']}
    for x in v.values(): ex.assume(z3.And(x >= 0, x < 2**40))
    for nm in ['chunk', 'cont', 'fex']: ex.assume(v[nm] <= 1)
    g0, g1, b0, b1 = z3.Ints('g0 g1 b0 b1')
    for x in (g0, g1, b0, b1): ex.assume(z3.And(x >= 0, x < 2**40))
    # valid input
    ex.assume(z3.And(b0 == 0, b1 > b0, g1 > g0, b1 - b0 <= g1 - g0, b1 < v['vlen'], g0 >= v['gidx']))
    ex.assume(z3.And(v['sw'] < v['vlen'], v['left'] >= 1, v['left'] <= v['maxf']))
    nxt = z3.If(v['sw'] < b1, g0 + v['sw'], g1 + (v['sw'] - b1))
    for i, (G, B) in enumerate([(g0, b0), (g1, b1)]):
        ex.store(Ptr(g, (i,)), G); ex.store(Ptr(b, (i,)), B)
    ex.store(Ptr(obj, (19,)), v['gidx']); ex.store(Ptr(obj, (9,)), v['gstart']); ex.store(Ptr(obj, (15,)), v['chunk']); ex.store(Ptr(obj, (14,)), v['cont'])
    last = nxt + v['left']
    sw, vlen, left = v['sw'], v['vlen'], v['left']
    spec = z3.If(sw < b1,
                 (zmin(b1, sw + left) - sw) + z3.If(g1 < last, zmin(vlen - b1, last - g1), 0),
                 zmin(vlen, sw + left) - sw)
    ex.spec = spec; ex.stw = stw; ex.rows = rows
    ex.rowspec = z3.If(z3.Or(v['fex'] == 0, v['chunk'] == 1), 1, 0) + z3.If(z3.And(sw < b1, g1 < last), 1, 0)
    ex.sig = (g1 == last)
    return [Ptr(obj), sw, left, v['maxf'], Ptr(g, (0,)), Ptr(b, (0,)), ILEN, vlen, nxt, Ptr(rows), Ptr(stw), v['fex']]
bad = []; n_ok = 0
def on_path(ex, status, ret):
    global n_ok
    if status != 'ret': bad.append(('status', status, ret)); return
    rows = ex.mem[ex.rows]['cells'].get(())
    if rows == M(32) - 1: bad.append(('rejected valid input', ex.solver.model() if ex.sat() else None)); return
    got = ex.mem[ex.stw]['cells'].get(())
    if ex.sat(got != ex.spec):
        ex.solver.push(); ex.solver.add(got != ex.spec); ex.solver.check(); m = ex.solver.model(); ex.solver.pop()
        bad.append(('stw mismatch', {str(d): m[d] for d in m.decls() if not str(d).startswith(('m_', 'q!', 'r!'))}, m.eval(got), m.eval(ex.spec)))
    else: n_ok += 1
    if ex.sat(z3.And(rows != ex.rowspec, z3.Not(ex.sig))): bad.append(('rows mismatch outside known signature',))
    elif ex.sat(rows != ex.rowspec):
        ex.solver.push(); ex.solver.add(rows != ex.rowspec); ex.solver.check(); m = ex.solver.model(); ex.solver.pop()
        bad.append(('rows mismatch (signature g1==last)', {str(d): m[d] for d in m.decls() if str(d) in ('g0','g1','b1','sw','left','vlen','fex','chunk')}, 'rows', rows, 'spec', m.eval(ex.rowspec)))
ex = Exec(mod, stubs)
t0 = time.time(); n = ex.explore('@digital_rf_create_rf_data_index', setup, on_path)
print('paths', n, 'ok', n_ok, 'bad', len(bad), 'queries', ex.nq, 'wall %.1f' % (time.time() - t0))
for b_ in bad[:3]: print(b_)
