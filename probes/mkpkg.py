# synthesize a digital_rf package from /repo/python/digital_rf sources + freshly built extension
import sys, types, importlib
def load(extdir='/tmp/probe/ext/digital_rf_so'):
    pkg = types.ModuleType('digital_rf')
    pkg.__path__ = ['/repo/python/digital_rf', extdir]
    pkg.__file__ = '/repo/python/digital_rf/__init__.py'
    sys.modules['digital_rf'] = pkg
    exec(compile(open(pkg.__file__).read(), pkg.__file__, 'exec'), pkg.__dict__)
    return pkg
