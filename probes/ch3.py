import sys
sys.path.insert(0, '/tmp/probe')
import mkpkg; drf = mkpkg.load()
from typing import List, Tuple, Dict
import digital_rf.digital_rf_hdf5 as H

class FakeData:
    def __init__(self, n): self.shape = (n, 1)
    def __getitem__(self, sl):
        if isinstance(sl, tuple): sl = sl[0]
        return ('slice', sl.start, sl.stop)
class FakeIndex:
    def __init__(self, rows): self.rows = rows; self.shape = (len(rows), 2)
    def __getitem__(self, rc):
        if rc is Ellipsis: return self
        r, c = rc
        return self.rows[r][c]
class FakeFile(dict):
    def close(self): pass
class Rec:
    def __init__(self): self.items_ = []
    def __setitem__(self, k, v): self.items_.append((k, v))

def _read_matches_spec(rows: List[Tuple[int, int]], n: int, s0: int, s1: int) -> bool:
    """
    pre: 1 <= len(rows) <= 2
    pre: rows[0][1] == 0 and all(rows[i][0] >= 0 for i in range(len(rows)))
    pre: all(rows[i+1][1] > rows[i][1] and rows[i+1][0] - rows[i][0] >= rows[i+1][1] - rows[i][1] for i in range(len(rows)-1))
    pre: rows[-1][1] < n <= 12
    pre: 0 <= s0 <= s1
    post: _
    """
    t = H._top_level_dir_properties.__new__(H._top_level_dir_properties)
    t.top_level_dir = '/w'; t.channel_name = 'ch'; t.access_mode = 'local'; t.rdcc_nbytes = 1
    t._cachedFilename = '/w/ch/f'; t._cachedFile = None
    t.rf_data = FakeData(n); t.rf_data_len = n
    t.rf_index = FakeIndex(rows); t.rf_index_len = len(rows)
    import os
    H.os.access = lambda p, m: True
    out = Rec()
    t._read(s0, s1, ['f'], out, len_only=True)
    exp = []
    for i, (g, o) in enumerate(rows):
        stop = rows[i+1][1] if i + 1 < len(rows) else n
        lo = max(g, s0); hi = min(g + (stop - o) - 1, s1)
        if lo <= hi:
            exp.append((lo, hi - lo + 1))
    return out.items_ == exp
