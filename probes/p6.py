import z3, time, sys
exec(open('p5.py').read().split("k,n,d=z3.Ints")[0])
s_,p,n,d=z3.Ints('s p n d')
E=Enc()
st=straight(ll,'digital_rf_get_sample_ceil',[s_,p,n,d,'OUT'])
out=st['%4']
T=10**12
num=(s_*T+p)*n; den=d*T
Q,R=E.divmod(num,den)
spec=Q+z3.If(R!=0,1,0)
pre=z3.And(s_>=0,s_<253402300800,p>=0,p<T,n>=1,n<2**32,d>=1,d<=10**9,n*d<2**64, spec<2**63)
s=z3.Solver(); s.set('timeout',int(sys.argv[1])*1000); s.add(pre,*E.cons,out!=spec)
t0=time.time(); r=s.check(); print('ceil symbolic n,d',r,round(time.time()-t0,2))
# overflow obligations
bad=0
for i,o in enumerate(E.obl):
    s=z3.Solver(); s.set('timeout',20000); s.add(pre,*E.cons,z3.Or(o>=2**64,o<0))
    r=s.check()
    if r!=z3.unsat: bad+=1; print('ovf',i,r)
print('ovf obligations',len(E.obl),'not discharged',bad)
s=z3.Solver(); s.set('timeout',60000); s.add(pre,*E.cons, out==spec, s_>1700000000, p>5, n>3, d>7)
t0=time.time(); r=s.check(); print('witness',r,round(time.time()-t0,2)); 
if r==z3.sat:
    m=s.model(); print({str(v):m[v] for v in (s_,p,n,d)}, m.eval(out))
