import sys
sys.path.insert(0, '/tmp/probe')
import mkpkg; drf = mkpkg.load()
from typing import List, Tuple
import digital_rf.ringbuffer as rb

PATHS = ['/w/ch0/2020-01-01T00-00-00/rf@%d.000.h5' % i for i in range(4)]

def _size_accounting(ev: List[Tuple[int, int, int]], limit: int) -> bool:
    """
    pre: len(ev) <= 3
    pre: all(0 <= p < 4 and 1 <= s <= 100 and 0 <= k <= 10 for (p, k, s) in ev)
    pre: limit >= 100
    post: _
    """
    removed = []
    h = rb.DigitalRFRingbufferHandler(size=limit, dryrun=True)
    for (p, k, s) in ev:
        rec = h.FileRecord(key=p * 1000, size=s, path=PATHS[p], group=('/w/ch0', 'rf'))
        h._add_record(rec)
    return h.active_size == sum(r.size for r in h.records.values())
