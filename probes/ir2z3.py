import re, z3
M64 = 2**64
def parse_func(ll, name):
    m = re.search(r'define [^@]*@%s\((.*?)\)[^{]*\{\n(.*?)\n\}' % re.escape(name), ll, re.S)
    return m.group(1), m.group(2).split('\n')
def wrap(x, bits=64): return x % (2**bits)
def straightline(ll, name, args):
    sig, body = parse_func(ll, name)
    env = {}
    for i,a in enumerate(args): env['%%%d'%i] = a
    stores = {}
    def val(tok):
        tok = tok.strip()
        if tok.startswith('%'): return env[tok]
        return z3.IntVal(int(tok))
    for line in body:
        line = line.strip()
        line = re.sub(r',\s*!tbaa.*$', '', line)
        m = re.match(r'(%\d+) = (udiv|urem|mul|add|sub)( nuw| nsw| exact)* i64 (.+), (.+)$', line)
        if m:
            dst, op, _, a, b = m.groups(); a=val(a); b=val(b)
            if op=='udiv': r = a / b
            elif op=='urem': r = a % b
            elif op=='mul': r = wrap(a*b)
            elif op=='add': r = wrap(a+b)
            elif op=='sub': r = wrap(a-b)
            env[dst]=r; continue
        m = re.match(r'(%\d+) = icmp (ne|eq) i64 (.+), (.+)$', line)
        if m:
            dst, op, a, b = m.groups(); a=val(a); b=val(b)
            env[dst] = (a!=b) if op=='ne' else (a==b); continue
        m = re.match(r'(%\d+) = zext i1 (.+) to i64$', line)
        if m:
            env[m.group(1)] = z3.If(val(m.group(2)), z3.IntVal(1), z3.IntVal(0)); continue
        m = re.match(r'(%\d+) = sext i1 (.+) to i64$', line)
        if m:
            env[m.group(1)] = z3.If(val(m.group(2)), z3.IntVal(M64-1), z3.IntVal(0)); continue
        m = re.match(r'store i64 (.+), i64\* (%\d+), align 8', line)
        if m:
            stores[m.group(2)] = val(m.group(1)); continue
        if line.startswith('ret'): continue
        raise Exception('unhandled: '+line)
    return stores
