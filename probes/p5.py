import z3, time
import ir2z3
ll = open('rf.ll').read()
class Enc:
    def __init__(s): s.cache={}; s.cons=[]; s.obl=[]; s.n=0
    def divmod(s,a,b):
        key=(a.get_id() if hasattr(a,'get_id') else a, b.get_id() if hasattr(b,'get_id') else b)
        if key not in s.cache:
            q=z3.Int('q%d'%s.n); r=z3.Int('r%d'%s.n); s.n+=1
            s.cons += [a == q*b + r, r>=0, r<b, q>=0]
            s.cache[key]=(q,r)
        return s.cache[key]
E=Enc()
class V:  # wrapper giving / and % via euclid vars
    pass
# patch straightline ops by re-implementing quickly
import re
def straight(ll,name,args):
    sig, body = ir2z3.parse_func(ll,name)
    env={'%%%d'%i:a for i,a in enumerate(args)}; stores={}
    def val(t):
        t=t.strip()
        return env[t] if t.startswith('%') else z3.IntVal(int(t))
    for line in body:
        line=re.sub(r',\s*!tbaa.*$','',line.strip())
        m=re.match(r'(%\d+) = (udiv|urem|mul|add|sub)( nuw| nsw| exact)* i64 (.+), (.+)$',line)
        if m:
            dst,op,_,a,b=m.groups(); a=val(a); b=val(b)
            if op=='udiv': r=E.divmod(a,b)[0]
            elif op=='urem': r=E.divmod(a,b)[1]
            elif op=='mul': r=a*b; E.obl.append(r)
            elif op=='add': r=a+b; E.obl.append(r)
            elif op=='sub': r=a-b; E.obl.append(r)
            env[dst]=r; continue
        m=re.match(r'(%\d+) = icmp (ne|eq) i64 (.+), (.+)$',line)
        if m:
            dst,op,a,b=m.groups(); a=val(a); b=val(b); env[dst]=(a!=b) if op=='ne' else (a==b); continue
        m=re.match(r'(%\d+) = zext i1 (.+) to i64$',line)
        if m: env[m.group(1)]=z3.If(val(m.group(2)),z3.IntVal(1),z3.IntVal(0)); continue
        m=re.match(r'(%\d+) = sext i1 (.+) to i64$',line)
        if m: env[m.group(1)]=z3.If(val(m.group(2)),z3.IntVal(2**64-1),z3.IntVal(0)); continue
        m=re.match(r'store i64 (.+), i64\* (%\d+), align 8',line)
        if m: stores[m.group(2)]=val(m.group(1)); continue
        if line.startswith('ret'): continue
        raise Exception(line)
    return stores
k,n,d=z3.Ints('k n d')
st=straight(ll,'digital_rf_get_timestamp_floor',[k,n,d,'S','P'])
sec,ps=st['%3'],st['%4']
Q,R=E.divmod(k*d,n)
Q2,R2=E.divmod(R*10**12,n)
pre=z3.And(k>=0,k<2**63,n>=1,n<2**32,d>=1,d<=10**9,n*d<2**64,Q<253402300800)
for nm,bad in [('sec',sec!=Q),('ps',ps!=Q2)]:
    s=z3.Solver(); s.set('timeout',120000); s.add(pre,*E.cons,bad)
    t0=time.time(); r=s.check(); print(nm,r,round(time.time()-t0,2))
# lemma sweep: find impl euclid remainders equal to spec R
lem=[]
for key,(q,r) in list(E.cache.items()):
    for nm,t in [('R',R),('Q',Q)]:
        for cand in (q,r):
            if cand is t: continue
            s=z3.Solver(); s.set('timeout',5000); s.add(pre,*E.cons,cand!=t)
            if s.check()==z3.unsat: lem.append(cand==t); print('lemma',cand,'==',nm)
s=z3.Solver(); s.set('timeout',120000); s.add(pre,*E.cons,*lem,ps!=Q2)
t0=time.time(); r=s.check(); print('ps with lemmas',r,round(time.time()-t0,2))
