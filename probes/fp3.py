import z3, time, sys
n_, d_, fc = int(sys.argv[1]), int(sys.argv[2]), int(sys.argv[3])
X = z3.FPSort(15, 64)
RNE = z3.RNE()
k = z3.BitVec('k', 64)
kf = z3.fpUnsignedToFP(RNE, k, X)
sps = z3.fpDiv(RNE, z3.fpUnsignedToFP(RNE, z3.BitVecVal(n_,64), X), z3.fpUnsignedToFP(RNE, z3.BitVecVal(d_,64), X))
sps = z3.simplify(sps)
q = z3.fpDiv(RNE, kf, sps)
ms = z3.fpMul(RNE, q, z3.FPVal(1000, X))
msi = z3.fpToUBV(z3.RTZ(), ms, z3.BitVecSort(64))
# exact: floor(k*d*1000/n) using 128-bit
K = z3.ZeroExt(64, k)
exact = z3.UDiv(K * (d_*1000), z3.BitVecVal(n_,128))
s = z3.Solver(); s.set('timeout', int(sys.argv[4])*1000)
lo = 315532800*n_//d_; hi = 4102444800*n_//d_
s.add(z3.UGE(k, lo), z3.ULE(k, hi))
# file boundary disagreement: floor(msi/fc) != floor(exact/fc)
s.add(z3.UDiv(z3.ZeroExt(64,msi), z3.BitVecVal(fc,128)) != z3.UDiv(exact, z3.BitVecVal(fc,128)))
import os
if os.environ.get("DUMP"):
    open("fp3.smt2","w").write("(set-logic QF_BVFP)\n"+s.to_smt2()); sys.exit()
t0=time.time(); r=s.check(); print(r, round(time.time()-t0,1))
if r==z3.sat:
    m=s.model(); kv=m[k].as_long(); print(kv, m.eval(msi), m.eval(exact))
open('fp3.smt2','w').write('(set-logic QF_BVFP)\n'+s.to_smt2())
