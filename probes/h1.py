import sys, time, z3
from llsym import *
mod = Module(open('w.ll').read())
print(len(mod.funcs), 'functions parsed')

def st_memset(ex, p, val, n, vol=None):
    if p.region and ex.mem[p.region]['ty'] is not None and ex.mem[p.region]['ty'].kind == 'arr' and ex.mem[p.region]['ty'].elem.kind == 'int' and ex.mem[p.region]['ty'].elem.bits == 8:
        ex.mem[p.region]['cells'][()] = SymStr([''])
    else:
        ex.mem[p.region]['cells']['memset'] = val
def st_snprintf(ex, buf, n, fmt, *a):
    f = ex.load(Ptr(fmt.region), None)
    ex.mem[buf.region]['cells'][()] = SymStr([f.parts[0]] + [('d', x, 0) for x in a])
    return 0
def st_fprintf(ex, *a):
    ex.events.append(('stderr',)); return 0
def st_malloc(ex, n):
    ex.events.append(('malloc', n))
    return Ptr(ex.new_region('heap'), (0,))
def st_assert(ex, *a):
    raise AssertFail('C assert failed')
stubs = {'@llvm.memset.p0i8.i64': st_memset, '@snprintf': st_snprintf, '@fprintf': st_fprintf, '@malloc': st_malloc,
         '@__assert_fail': st_assert, '@exit': lambda ex, c: (_ for _ in ()).throw(AssertFail('exit'))}

ILEN = int(sys.argv[1]) if len(sys.argv) > 1 else 2
def setup(ex):
    obj = ex.new_region('wobj')
    g = ex.new_region('garr'); b = ex.new_region('barr')
    rows = ex.new_region('rows'); stw = ex.new_region('stw')
    v = {}
    for nm in ['samples_written','samples_left','max_this','vlen','next_gs','global_index','gstart','needs_chunking','is_cont','file_exists']:
        v[nm] = z3.Int(nm); ex.assume(v[nm] >= 0); ex.assume(v[nm] < 2**62)
    for nm in ['needs_chunking','is_cont','file_exists']:
        ex.assume(v[nm] <= 1)
    G = [z3.Int('g%d'%i) for i in range(ILEN)]; B = [z3.Int('b%d'%i) for i in range(ILEN)]
    for i in range(ILEN):
        ex.assume(z3.And(G[i] >= 0, G[i] < 2**62, B[i] >= 0, B[i] < 2**62))
        ex.store(Ptr(g,(i,)), G[i]); ex.store(Ptr(b,(i,)), B[i])
    ex.store(Ptr(obj,(19,)), v['global_index'])   # global_index
    ex.store(Ptr(obj,(8,)), v['gstart'])          # global_start_sample
    ex.store(Ptr(obj,(15,)), v['needs_chunking'])
    ex.store(Ptr(obj,(14,)), v['is_cont'])
    ex.v = v; ex.G = G; ex.B = B; ex.rows = rows; ex.stw = stw
    return [Ptr(obj), v['samples_written'], v['samples_left'], v['max_this'], Ptr(g,(0,)), Ptr(b,(0,)), ILEN, v['vlen'], v['next_gs'], Ptr(rows), Ptr(stw), v['file_exists']]

res = []
def on_path(ex, status, ret):
    rows = ex.mem[ex.rows]['cells'].get((), None)
    res.append((status, ret, rows, len(ex.pc)))
ex = Exec(mod, stubs)
t0 = time.time()
n = ex.explore('@digital_rf_create_rf_data_index', setup, on_path)
print('paths', n, 'solver queries', ex.nq, 'solver time %.1f' % ex.tq, 'wall %.1f' % (time.time()-t0))
from collections import Counter
print(Counter((s, str(r) if not isinstance(r, Ptr) else ('NULL' if r.region is None else 'arr'), str(rows)) for s, r, rows, _ in res))
