import numpy as np, random
from fractions import Fraction
print(np.finfo(np.longdouble))
def reader_ms(k, n, d):
    sps = np.longdouble(np.uint64(n)) / np.longdouble(np.uint64(d))
    return int(np.uint64(np.uint64(k) / sps * 1000)), int(np.uint64(np.uint64(k) / sps))
random.seed(1)
for (n,d) in [(200,3),(1000000,3),(100000000,7),(1,1),(10,1),(48000,1),(44100,1),(25000000,1),(1000000,1),(30000,1001),(100,7)]:
    bad_lo=bad_hi=0; tot=0; ex=None
    for _ in range(20000):
        fc = random.choice([1,10,100,400,1000,2000,3600000])
        j = random.randrange(10**9*1000//fc//3, 4*10**9*1000//fc)  # file number
        file_ms = j*fc
        k = -((-file_ms*n)//(d*1000))  # ceil
        exact_ms = (k*d*1000)//n
        assert exact_ms >= file_ms
        ms, s = reader_ms(k,n,d)
        tot+=1
        if ms < file_ms: bad_lo+=1; ex=(k,fc,file_ms,ms,exact_ms)
        if ms > exact_ms: bad_hi+=1
    print((n,d), tot, 'reader ms below file boundary:', bad_lo, 'above exact:', bad_hi, ex)
