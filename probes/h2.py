import sys, time, z3
from collections import Counter
from llsym import *
import envstubs
mod = Module(open('w.ll').read())
stubs = envstubs.mk_stubs()
F = dict(directory=0, sub_directory=1, basename=2, is_complex=3, num_subchannels=4, rank=5, uuid_str=6, subdir_cadence_secs=7,
         file_cadence_millisecs=8, global_start_sample=9, sample_rate_numerator=10, sample_rate_denominator=11, sample_rate=12,
         max_chunk_size=13, is_continuous=14, needs_chunking=15, chunk_size=16, dtype_id=17, complex_dtype_id=18, global_index=19,
         present_seq=20, dataset_index=21, dataset_avail=22, block_index=23, dataset=24, dataspace=25, filespace=26, memspace=27,
         hdf5_file=28, dataset_prop=29, index_dataset=30, index_prop=31, next_index_avail=32, marching_dots=33, init_utc_timestamp=34,
         last_utc_timestamp=35, has_failure=36)
def time_parts(ex, t, y, mo, d, h, mi, s):
    ex.store(y, t); 
    for p in (mo, d, h, mi, s): ex.store(p, 0)
    return 0
def ts_floor(ex, k, n, d, psec, pps):
    kd = k * d
    ex.store(psec, kd / n); ex.store(pps, ((kd % n) * 10**12) / n); return 0
def s_ceil(ex, s_, p, n, d, out):
    num = (s_ * 10**12 + p) * n; den = d * 10**12
    ex.store(out, (num + den - 1) / den); return 0
def check_dir(ex, p):
    import envstubs
    st = envstubs.get_str(ex, p).norm()
    e = envstubs.env(ex); k = ('dir', envstubs.strid(st))
    if k not in e.exists: e.exists[k] = z3.Bool('direxists!%d' % len(e.exists))
    ex.events.append(('checkdir', st))
    b = e.exists[k]
    if isinstance(b, bool): return 0 if b else M(32) - 1
    return z3.If(b, z3.IntVal(0), z3.IntVal(M(32) - 1))
def subdir_file(ex, obj, gs, subdir, basename, pleft, pmax):
    import envstubs
    L = lambda name: ex.load(Ptr(obj.region, (F[name],)), None)
    n, d, sc, fc, start = L('sample_rate_numerator'), L('sample_rate_denominator'), L('subdir_cadence_secs'), L('file_cadence_millisecs'), L('global_start_sample')
    k = gs + start
    ms = (k * d * 1000) / n; sec = (k * d) / n
    dir_sec = (sec / sc) * sc; file_ms = (ms / fc) * fc
    cdiv = lambda a, b: (a + b - 1) / b
    fstart = cdiv(file_ms * n, 1000 * d); nstart = cdiv((file_ms + fc) * n, 1000 * d)
    envstubs.set_str(ex, subdir, SymStr([('d', dir_sec, 4), '-00-00T00-00-00']))
    envstubs.set_str(ex, basename, SymStr(['tmp.rf@', ('d', file_ms / 1000, 0), '.', ('d', file_ms % 1000, 3), '.h5']))
    ex.store(pleft, nstart - k); ex.store(pmax, nstart - fstart)
    ex.last_file = dict(k=k, file_ms=file_ms, fstart=fstart, nstart=nstart, dir_sec=dir_sec)
    return 0
summaries = {'@digital_rf_get_subdir_file': subdir_file, '@digital_rf_check_hdf5_directory': check_dir, '@digital_rf_get_time_parts': time_parts, '@digital_rf_get_timestamp_floor': ts_floor, '@digital_rf_get_sample_ceil': s_ceil}

ILEN = int(sys.argv[1]); CONT = int(sys.argv[2]); CHUNK = int(sys.argv[3]); N_, D_ = int(sys.argv[4]), int(sys.argv[5]); FC = int(sys.argv[6]); SC = int(sys.argv[7])
MAXV = int(sys.argv[8])
def setup(ex):
    ex.tsize = 2; ex.fault_mode = None; ex.fault_vars = []
    obj = ex.new_region('wobj')
    def setf(name, v): ex.store(Ptr(obj, (F[name],)), v)
    d = ex.new_region('dirstr'); ex.mem[d]['cells'][()] = SymStr(['/data/ch'])
    setf('directory', Ptr(d, (0,))); setf('sub_directory', NULL)
    u = ex.new_region('uuid'); ex.mem[u]['cells'][()] = SymStr(['UUID']); setf('uuid_str', Ptr(u, (0,)))
    ex.mem[obj]['cells'][(F['basename'],)] = SymStr([''])
    start = z3.Int('start'); ex.assume(start >= 315532800 * N_ // D_); ex.assume(start <= 4102444800 * N_ // D_)
    for k, v in dict(is_complex=0, num_subchannels=1, rank=2, subdir_cadence_secs=SC, file_cadence_millisecs=FC, global_start_sample=start,
                     sample_rate_numerator=N_, sample_rate_denominator=D_, max_chunk_size=max(1, FC * N_ // (D_ * 1000)), is_continuous=CONT,
                     needs_chunking=CHUNK, chunk_size=0, dtype_id=7001, complex_dtype_id=0, global_index=0, present_seq=M(32) - 1,
                     dataset_index=0, dataset_avail=0, block_index=0, dataset=0, dataspace=0, filespace=0, memspace=0, hdf5_file=0,
                     dataset_prop=7002, index_dataset=0, index_prop=7003, next_index_avail=0, marching_dots=0, init_utc_timestamp=0,
                     last_utc_timestamp=0, has_failure=0).items():
        setf(k, v)
    g = ex.new_region('garr'); b = ex.new_region('barr'); vec = ex.new_region('vector')
    G = [z3.Int('g%d' % i) for i in range(ILEN)]; B = [z3.Int('b%d' % i) for i in range(ILEN)]
    for i in range(ILEN):
        ex.assume(z3.And(G[i] >= 0, G[i] < 2**40, B[i] >= 0, B[i] < 2**40))
        ex.store(Ptr(g, (i,)), G[i]); ex.store(Ptr(b, (i,)), B[i])
    vlen = z3.Int('vlen'); ex.assume(vlen >= 1); ex.assume(vlen <= MAXV)
    ex.obj = obj; ex.G = G; ex.B = B; ex.vlen = vlen; ex.start = start
    return [Ptr(obj), Ptr(g, (0,)), Ptr(b, (0,)), ILEN, Ptr(vec, (('byte', 0),)) if False else Ptr(vec, (0,)), vlen]

res = []
def on_path(ex, status, ret):
    kinds = [e[0] for e in ex.events if e[0] not in ('stderr', 'H5Awrite')]
    res.append((status, str(ret), tuple(kinds)))
ex = Exec(mod, stubs, summaries)
t0 = time.time()
n = ex.explore('@digital_rf_write_blocks_hdf5', setup, on_path, max_paths=int(sys.argv[9]) if len(sys.argv) > 9 else 100000)
print('paths', n, 'solver queries', ex.nq, 'solver time %.1f' % ex.tq, 'wall %.1f' % (time.time() - t0))
c = Counter((s, r, len(k)) for s, r, k in res)
for k, v in sorted(c.items(), key=lambda kv: -kv[1])[:25]: print(v, k)
ok = [k for s, r, k in res if s == 'ret' and r == '0']
if ok: print('example success trace:', ok[0])
