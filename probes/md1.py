import numpy as np, digital_rf as drf, os, datetime
w = drf.DigitalMetadataWriter('t4/md', 3600, 1200, 1, 1, 'md')
w.write([99, 100, 150], [{'v': 1}, {'v': 2}, {'v': 3}])
r = drf.DigitalMetadataReader('t4/md')
print('bounds', r.get_bounds(), 'expected (99, 150)')
print('ffill read(120,120):', dict(r.read(120, 120, method='ffill')), 'expected key 100')
print('read_latest', dict(r.read_latest()))
# list_drf empty-subdir lookback
os.makedirs('t4/md/1970-01-01T01-00-00')  # empty subdir at t=3600
os.makedirs('t4/md/1970-01-01T02-00-00')
try:
    print(drf.lsdrf('t4/md', starttime=datetime.datetime(1970,1,1,1,30), include_dmd_properties=False))
except Exception as e:
    print('lsdrf raised', type(e).__name__, e)
