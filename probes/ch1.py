import sys, importlib.util
from typing import List, Tuple, Optional
# load list_drf from repo source directly (stdlib only + util)
sys.path.insert(0, '/repo/python')
spec = importlib.util.spec_from_file_location('list_drf_src', '/repo/python/digital_rf/list_drf.py', submodule_search_locations=None)
import types
pkg = types.ModuleType('digital_rf'); pkg.__path__ = ['/repo/python/digital_rf']; sys.modules['digital_rf'] = pkg
import importlib
list_drf = importlib.import_module('digital_rf.list_drf')

def _slice_is_window(dec: List[Tuple[int, int]], start: Optional[int], end: Optional[int]) -> bool:
    """
    pre: len(dec) <= 4
    pre: all(dec[i] <= dec[i+1] for i in range(len(dec)-1))
    post: _
    """
    slc = list_drf._decorated_list_slice(dec, start, end, False)
    sel = dec[slc]
    want = [x for x in dec if (start is None or x[0] >= start) and (end is None or x[0] <= end)]
    return sel == want
