import sys, posixpath
sys.path.insert(0, '/tmp/probe')
import mkpkg; drf = mkpkg.load()
import digital_rf.mirror as mir

class SymFS:
    """files: path -> content id (int) ; missing = not present. dirs: set. log of mutating ops."""
    def __init__(self, files, dirs): self.files = dict(files); self.dirs = set(dirs); self.log = []; self.snap = []
    def _snap(self): self.snap.append(dict(self.files))
class FakePath:
    def __init__(self, fs): self.fs = fs
    join = staticmethod(posixpath.join); split = staticmethod(posixpath.split); dirname = staticmethod(posixpath.dirname)
    abspath = staticmethod(lambda p: p); relpath = staticmethod(posixpath.relpath); basename = staticmethod(posixpath.basename)
    def exists(self, p): return p in self.fs.files or p in self.fs.dirs
    def isfile(self, p): return p in self.fs.files
    def isdir(self, p): return p in self.fs.dirs
class FakeOS:
    def __init__(self, fs): self.fs = fs; self.path = FakePath(fs)
    def makedirs(self, d): self.fs.dirs.add(d); self.fs.log.append(('makedirs', d))
    def rename(self, a, b):
        if a not in self.fs.files: raise FileNotFoundError(a)
        self.fs.files[b] = self.fs.files.pop(a); self.fs.log.append(('rename', a, b)); self.fs._snap()
    def rmdir(self, d):
        if any(posixpath.dirname(f) == d for f in self.fs.files): raise OSError('not empty')
        self.fs.dirs.discard(d); self.fs.log.append(('rmdir', d))
class FakeCmp:
    def __init__(self, fs): self.fs = fs
    def cmp(self, a, b):
        if a not in self.fs.files or b not in self.fs.files: raise FileNotFoundError(a)
        return self.fs.files[a] == self.fs.files[b]

SRC = '/s/ch/2020-01-01T00-00-00/rf@1.000.h5'; DST = '/d/ch/2020-01-01T00-00-00/rf@1.000.h5'
TMP = '/d/ch/2020-01-01T00-00-00/tmp.rf@1.000.h5'

def _mirror_copy(src_there: bool, src_id: int, dst_there: bool, dst_id: int, tmp_there: bool, tmp_id: int, move: bool) -> bool:
    """
    pre: 0 <= src_id < 3 and 0 <= dst_id < 3 and 0 <= tmp_id < 3
    post: _
    """
    files = {}
    if src_there: files[SRC] = src_id
    if dst_there: files[DST] = dst_id
    if tmp_there: files[TMP] = tmp_id
    fs = SymFS(files, ['/s/ch/2020-01-01T00-00-00'])
    def copy2(a, b):
        if a not in fs.files: raise FileNotFoundError(a)
        fs.files[b] = fs.files[a]; fs.log.append(('copy', a, b)); fs._snap()
    def move_(a, b):
        if a not in fs.files: raise FileNotFoundError(a)
        fs.files[b] = fs.files[a]; fs._snap(); del fs.files[a]; fs.log.append(('move', a, b)); fs._snap()
    mir.os = FakeOS(fs); mir.filecmp = FakeCmp(fs)
    h = mir.DigitalRFMirrorHandler.__new__(mir.DigitalRFMirrorHandler)
    h.src = '/s'; h.dest = '/d'; h.verbose = True; h.mirror_fun = move_ if move else copy2
    mir.print = lambda *a, **k: None
    h.mirror_to_dest(SRC)
    ok = True
    if src_there:
        ok = ok and fs.files.get(DST) == src_id            # fidelity
        for s in fs.snap:                                   # every prefix: an intact copy exists somewhere
            ok = ok and (s.get(SRC) == src_id or s.get(DST) == src_id or s.get(TMP) == src_id)
    else:
        ok = ok and fs.files.get(DST) == (dst_id if dst_there else None)
    return ok
