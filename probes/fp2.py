import numpy as np, digital_rf as drf
k=21874332994
w=drf.DigitalRFWriter('t1/ch', np.int16, 3600, 100, k-2, 10, 1, is_complex=False, is_continuous=False, marching_periods=False)
w.rf_write(np.arange(5,dtype=np.int16))
w.close()
r=drf.DigitalRFReader('t1')
print(r.get_bounds('ch'))
for a,b in [(k-2,k+2),(k,k),(k-1,k),(k,k+1),(k-2,k-1)]:
    print((a-k,b-k), {kk-k:v.tolist() for kk,v in r.read(a,b,'ch').items()})
import os
for root,ds,fs in os.walk('t1'): print(root,fs)
