import numpy as np, digital_rf as drf, h5py, glob
w=drf.DigitalRFWriter('t6/ch', np.int16, 3600, 1000, 10**10, 10, 1, is_complex=False, is_continuous=False, marching_periods=False)
w.rf_write_blocks(np.arange(10,dtype=np.int16), [0, 10], [0, 5]); w.close()
for f in sorted(glob.glob('t6/ch/*/rf@*.h5')):
    with h5py.File(f,'r') as h: print(f, 'rows', h['rf_data'].shape[0], 'index', h['rf_data_index'][...].tolist())
r=drf.DigitalRFReader('t6'); print(r.get_bounds('ch'), r.get_continuous_blocks(10**10, 10**10+30, 'ch'))
