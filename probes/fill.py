import numpy as np, digital_rf as drf, shutil, os, itertools, warnings
for dt in ['<f4','>f4','<f8','>f8','<i2','>i2','<i4','>i4','<i8','>i8','i1','u1','<u2','>u2','>u8']:
  for cplx in (False, True):
    shutil.rmtree('t3', ignore_errors=True); os.makedirs('t3/ch')
    w=drf.DigitalRFWriter('t3/ch', np.dtype(dt), 3600, 1000, 10**10, 10, 1, is_complex=cplx, is_continuous=True, marching_periods=False)
    n = 2 if cplx else 1
    w.rf_write(np.ones((3,n),dtype=np.dtype(dt)) , 2); w.close()
    r=drf.DigitalRFReader('t3')
    d=r.read(10**10, 10**10+9, 'ch')
    v=list(d.values())[0]
    print(dt, cplx, v.dtype, v[0].tolist(), v[5].tolist(), v[2].tolist())
