"""Prototype environment stubs (libc strings, HDF5, file system) for llsym."""
import re, z3
from llsym import Ptr, NULL, SymStr, AssertFail, M

U32 = (1 << 32)

def strid(st):
    out = []
    for p in st.parts:
        if isinstance(p, str): out.append(p)
        else:
            t = p[1]
            out.append((p[0], t if isinstance(t, (int, str)) else ('z3', t.get_id()), p[2]))
    return tuple(out)

def skey(p):
    return (p.region, tuple(p.path[:-1])), (p.path[-1] if p.path else 0)

def get_str(ex, p):
    (rid, key), off = skey(p)
    cells = ex.mem[rid]['cells']
    key = ex._key(key)
    if key not in cells:
        cells[key] = SymStr([('opaque', '%s%s' % (rid, key))])
    s = cells[key]
    if not isinstance(s, SymStr):
        raise RuntimeError('not a string at %s: %r' % (p, s))
    if off:
        first = s.parts[0]
        assert isinstance(first, str) and isinstance(off, int) and off <= len(first)
        return SymStr([first[off:]] + s.parts[1:])
    return s.copy()

def set_str(ex, p, s):
    (rid, key), off = skey(p)
    assert off == 0 or (isinstance(off, int) and off == 0), off
    ex.mem[rid]['cells'][ex._key(key)] = s.norm()

def st_strcpy(ex, d, s):
    set_str(ex, d, get_str(ex, s)); return d
def st_strcat(ex, d, s):
    a = get_str(ex, d); a.parts += get_str(ex, s).parts; set_str(ex, d, a); return d
def st_strlen(ex, s):
    st = get_str(ex, s).norm()
    if all(isinstance(p, str) for p in st.parts):
        return sum(len(p) for p in st.parts)
    return ex.fresh('strlen', 16)
def str_eq(ex, a, b):
    """z3 Bool / python bool: are the two abstract strings equal"""
    a, b = a.norm().parts, b.norm().parts
    if len(a) != len(b):
        return False
    conj = []
    for x, y in zip(a, b):
        if isinstance(x, str) or isinstance(y, str):
            if x != y: return False
        else:
            if x[0] != y[0] or x[2] != y[2]: return False
            if x[0] == 'opaque':
                if x[1] != y[1]: return False
            else:
                conj.append(x[1] == y[1])
    conj = [c for c in conj if c is not True]
    if any(c is False for c in conj): return False
    return z3.And(*conj) if conj else True
def st_strcmp(ex, a, b):
    eq = str_eq(ex, get_str(ex, a), get_str(ex, b))
    if isinstance(eq, bool): return 0 if eq else 1
    return z3.If(eq, z3.IntVal(0), z3.IntVal(1))
def st_strstr(ex, h, n):
    hs, ns = get_str(ex, h).norm(), get_str(ex, n).norm()
    needle = ns.parts[0]
    first = hs.parts[0]
    assert isinstance(first, str) and needle in first, (hs, ns)
    k = first.index(needle)
    return Ptr(h.region, tuple(h.path[:-1]) + (k,))

def parse_fmt(fmt):
    out = []; pos = 0
    for m in re.finditer(r'%(0?)(\d*)(l|ll)?([iduscx%])', fmt):
        if m.start() > pos: out.append(fmt[pos:m.start()])
        out.append(('conv', m.group(4), int(m.group(2) or 0)))
        pos = m.end()
    if pos < len(fmt): out.append(fmt[pos:])
    return out
def st_snprintf(ex, buf, n, fmt, *args):
    f = get_str(ex, fmt).norm()
    assert len(f.parts) == 1 and isinstance(f.parts[0], str), f
    parts = []; ai = 0
    for it in parse_fmt(f.parts[0]):
        if isinstance(it, str): parts.append(it)
        else:
            _, conv, width = it
            a = args[ai]; ai += 1
            if conv == 's': parts += get_str(ex, a).parts
            else: parts.append(('d', a, width))
    set_str(ex, buf, SymStr(parts)); return 0

def st_memset(ex, p, val, n, vol=None):
    reg = ex.mem[p.region]
    ty = reg['ty']
    key = ex._key(p.path)
    if ty is not None and ty.kind == 'arr' and ty.elem.kind == 'int' and ty.elem.bits == 8 and not key:
        reg['cells'][()] = SymStr([''])
    elif ty is not None and ty.kind == 'arr' and ty.elem.kind == 'int':
        for i in range(ty.n): reg['cells'][(i,)] = 0
    else:
        reg['cells'].setdefault('memset', val)
def st_memcpy(ex, d, s, n, vol=None):
    src = ex.mem[s.region]['cells']
    for k, v in list(src.items()):
        ex.mem[d.region]['cells'][k] = v


class Env:
    """HDF5 / FS model state kept on the executor as ex.env"""
    def __init__(self):
        self.next_id = 1000; self.obj = {}; self.exists = {}
    def new(self, kind, **kw):
        self.next_id += 1; self.obj[self.next_id] = dict(kind=kind, **kw); return self.next_id

def env(ex):
    if not hasattr(ex, 'env') or ex.env_owner is not ex.solver:
        ex.env = Env(); ex.env_owner = ex.solver
    return ex.env

def ev(ex, *a):
    ex.events.append(a)

def idv(x):
    return x if isinstance(x, int) else ('sym', str(x))

def status(ex, what):
    """return value of a fallible env call: 0 success, or (fault mode) symbolic negative"""
    fm = getattr(ex, 'fault_mode', None)
    if not fm: return 0
    ex.fault_points = getattr(ex, 'fault_points', 0) + 1
    f = z3.Bool('fault!%d!%s' % (ex.fault_points, what))
    ex.fault_vars.append(f)
    return z3.If(f, z3.IntVal(U32 - 1), z3.IntVal(0))

def mk_stubs():
    S = {}
    S['@strcpy'] = st_strcpy; S['@strcat'] = st_strcat; S['@strlen'] = st_strlen; S['@strcmp'] = st_strcmp
    S['@strstr'] = st_strstr; S['@snprintf'] = st_snprintf
    S['@llvm.memset.p0i8.i64'] = st_memset; S['@llvm.memcpy.p0i8.p0i8.i64'] = st_memcpy
    S['@fprintf'] = lambda ex, *a: (ev(ex, 'stderr'), 0)[1]
    S['@printf'] = lambda ex, *a: 0
    S['@fflush'] = lambda ex, *a: 0
    S['@free'] = lambda ex, p: None
    def malloc(ex, n):
        return Ptr(ex.new_region('heap'), (0,))
    S['@malloc'] = malloc
    def afail(ex, *a): raise AssertFail('C assert')
    S['@__assert_fail'] = afail
    def cexit(ex, c): raise AssertFail('exit()')
    S['@exit'] = cexit
    S['@H5open'] = lambda ex: 0
    S['@H5check_version'] = lambda ex, *a: 0
    S['@time'] = lambda ex, p: ex.fresh('time', 40)
    def access(ex, p, mode):
        s = get_str(ex, p).norm()
        e = env(ex)
        # existence is symbolic per distinct (syntactic) name; same abstract name -> same answer unless changed by events
        k = strid(s)
        if k not in e.exists:
            e.exists[k] = z3.Bool('exists!%d' % len(e.exists))
        ev(ex, 'access', s, e.exists[k])
        b = e.exists[k]
        if isinstance(b, bool): return 0 if b else U32 - 1
        return z3.If(b, z3.IntVal(0), z3.IntVal(U32 - 1))
    S['@access'] = access
    def stat(ex, p, buf):
        s = get_str(ex, p).norm()
        r = z3.Bool('stat_ok!%d' % len(ex.events)); ev(ex, 'stat', s)
        return z3.If(r, z3.IntVal(0), z3.IntVal(U32 - 1))
    S['@stat'] = stat
    def mkdir(ex, p, mode):
        s = get_str(ex, p).norm(); ev(ex, 'mkdir', s); return status(ex, 'mkdir')
    S['@mkdir'] = mkdir
    def rename(ex, a, b):
        sa, sb = get_str(ex, a).norm(), get_str(ex, b).norm(); ev(ex, 'rename', sa, sb)
        e = env(ex); e.exists[strid(sa)] = False; e.exists[strid(sb)] = True
        return status(ex, 'rename')
    S['@rename'] = rename
    def remove(ex, a):
        sa = get_str(ex, a).norm(); ev(ex, 'remove', sa); env(ex).exists[strid(sa)] = False; return 0
    S['@remove'] = remove
    def errno_loc(ex):
        return Ptr(ex.new_region('errno'))
    S['@__errno_location'] = errno_loc
    # ---- HDF5
    def H5Fcreate(ex, name, flags, fcpl, fapl):
        s = get_str(ex, name).norm()
        st = status(ex, 'H5Fcreate')
        fid = env(ex).new('file', name=s)
        ev(ex, 'H5Fcreate', s, flags, fid)
        env(ex).exists[strid(s)] = True
        if isinstance(st, int): return fid
        return z3.If(st == 0, z3.IntVal(fid), z3.IntVal(M(64) - 1))
    S['@H5Fcreate'] = H5Fcreate
    def H5Screate_simple(ex, rank, dims, maxdims):
        d0 = ex.load(Ptr(dims.region, tuple(dims.path[:-1]) + (0,)), None) if dims.region else None
        m0 = ex.load(Ptr(maxdims.region, tuple(maxdims.path[:-1]) + (0,)), None) if maxdims.region else None
        sid = env(ex).new('space', dims0=d0, max0=m0, sel=None)
        ev(ex, 'H5Screate_simple', sid, d0, m0); return sid
    S['@H5Screate_simple'] = H5Screate_simple
    def H5Dcreate2(ex, loc, name, ty, space, lcpl, dcpl, dapl):
        s = get_str(ex, name).norm()
        did = env(ex).new('dataset', name=s, file=idv(loc), space=idv(space), type=ty)
        sp = env(ex).obj.get(space, {}) if isinstance(space, int) else {}
        ev(ex, 'H5Dcreate2', idv(loc), s, did, sp.get('dims0'), sp.get('max0'), ty); return did
    S['@H5Dcreate2'] = H5Dcreate2
    def H5Dget_space(ex, d):
        sid = env(ex).new('space', of=idv(d), sel=None); return sid
    S['@H5Dget_space'] = H5Dget_space
    def H5Sselect_hyperslab(ex, sp, op, start, stride, count, block):
        o = ex.load(Ptr(start.region, tuple(start.path[:-1]) + (0,)), None)
        c = ex.load(Ptr(count.region, tuple(count.path[:-1]) + (0,)), None)
        if isinstance(sp, int) and sp in env(ex).obj: env(ex).obj[sp]['sel'] = (o, c)
        ev(ex, 'H5Sselect_hyperslab', idv(sp), o, c); return 0
    S['@H5Sselect_hyperslab'] = H5Sselect_hyperslab
    def H5Dwrite(ex, d, memtype, memspace, filespace, plist, buf):
        fs = env(ex).obj.get(filespace) if isinstance(filespace, int) else None
        ms = env(ex).obj.get(memspace) if isinstance(memspace, int) else None
        st = status(ex, 'H5Dwrite')
        ev(ex, 'H5Dwrite', idv(d), memtype, (ms or {}).get('dims0'), (fs or {}).get('sel'), buf, st); return st
    S['@H5Dwrite'] = H5Dwrite
    def H5Dset_extent(ex, d, dims):
        d0 = ex.load(Ptr(dims.region, tuple(dims.path[:-1]) + (0,)), None)
        st = status(ex, 'H5Dset_extent'); ev(ex, 'H5Dset_extent', idv(d), d0, st); return st
    S['@H5Dset_extent'] = H5Dset_extent
    for nm in ('H5Dclose', 'H5Sclose', 'H5Fclose', 'H5Aclose', 'H5Tclose', 'H5Pclose'):
        def mk(nm):
            def f(ex, i):
                st = status(ex, nm) if nm in ('H5Dclose', 'H5Fclose') else 0
                ev(ex, nm, idv(i), st); return st
            return f
        S['@' + nm] = mk(nm)
    S['@H5Tget_size'] = lambda ex, t: ex.tsize
    S['@H5Screate'] = lambda ex, k: env(ex).new('space', scalar=True)
    S['@H5Tcopy'] = lambda ex, t: env(ex).new('type', of=idv(t))
    S['@H5Tset_size'] = lambda ex, t, n: 0
    def H5Acreate2(ex, loc, name, ty, space, acpl, aapl):
        s = get_str(ex, name).norm(); return env(ex).new('attr', name=s, loc=idv(loc))
    S['@H5Acreate2'] = H5Acreate2
    def H5Awrite(ex, a, memtype, buf):
        o = env(ex).obj.get(a, {})
        try:
            v = ex.load(buf, None) if len(buf.path) == 0 or not isinstance(ex.mem[buf.region]['cells'].get(ex._key(buf.path[:-1])), SymStr) else get_str(ex, buf)
        except Exception:
            v = get_str(ex, buf)
        ev(ex, 'H5Awrite', o.get('loc'), o.get('name'), v); return 0
    S['@H5Awrite'] = H5Awrite
    for nm in ('H5Tget_class', 'H5Tget_order', 'H5Tget_precision', 'H5Tget_offset', 'H5Tget_sign'):
        S['@' + nm] = (lambda nm: lambda ex, t: ex.fresh(nm, 31))(nm)
    def H5Pset_chunk(ex, p, rank, dims):
        d0 = ex.load(Ptr(dims.region, tuple(dims.path[:-1]) + (0,)), None)
        ev(ex, 'H5Pset_chunk', idv(p), d0); return 0
    S['@H5Pset_chunk'] = H5Pset_chunk
    S['@H5Eprint2'] = lambda ex, *a: 0
    return S
