import sys, time, z3
from llsym import *
import envstubs
mod = Module(open('w.ll').read())
stubs = envstubs.mk_stubs()
calls = []
def set_fill(ex, prop, ty, ptr):
    reg = ex.mem[ptr.region]; key = ex._key(ptr.path)
    cells = {k: v for k, v in reg['cells'].items() if isinstance(k, tuple)}
    ex.events.append(('fill', ty, ptr.region, key, {k: cells[k] for k in cells if k[:len(key)] == key or key[:len(k)] == k or True}))
    return 0
stubs['@H5Pset_fill_value'] = set_fill
stubs['@H5Tget_order'] = lambda ex, t: ex.order
stubs['@H5Tget_class'] = lambda ex, t: ex.cls
stubs['@H5Tget_size'] = lambda ex, t: ex.size
stubs['@H5Tget_sign'] = lambda ex, t: ex.sign
summaries = {'@digital_rf_is_little_endian': lambda ex: 1}
def setup(ex):
    obj = ex.new_region('wobj')
    ex.order, ex.cls, ex.size, ex.sign, cplx = z3.Ints('order cls size sign cplx')
    for x, hi in ((ex.order, 4), (ex.cls, 12), (ex.size, 17), (ex.sign, 3), (cplx, 1)):
        ex.assume(z3.And(x >= 0, x <= hi))
    ex.store(Ptr(obj, (3,)), cplx); ex.store(Ptr(obj, (17,)), 7001); ex.store(Ptr(obj, (18,)), 7002); ex.store(Ptr(obj, (29,)), 7003)
    ex.cplx = cplx
    return [Ptr(obj)]
res = []
def on_path(ex, status, ret):
    m = None
    if ex.sat(): m = ex.solver.model()
    vals = {str(v): (m.eval(v, model_completion=True).as_long() if m is not None else None) for v in (ex.order, ex.cls, ex.size, ex.sign, ex.cplx)}
    fills = [e for e in ex.events if e[0] == 'fill']
    res.append((status, ret, vals, [(f[1], f[3], f[4]) for f in fills]))
ex = Exec(mod, stubs, summaries)
t0 = time.time(); n = ex.explore('@digital_rf_set_fill_value', setup, on_path)
print('paths', n, 'queries', ex.nq, 'wall %.1f' % (time.time() - t0))
for r in res[:40]: print(r[0], r[1], r[2], str(r[3])[:230])
