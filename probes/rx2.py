import sys, time, re, z3
sys.path.insert(0,'/tmp/probe'); from rx import *
import mkpkg; drf = mkpkg.load()
from digital_rf import list_drf as L
p = z3.String('p')
ns_char = z3.Intersect(ANYCHAR, z3.Complement(z3.Union(z3.Re('/'), z3.Re('\n'), z3.Range('A','S'), z3.Range('U','Z'))))
ns_sub = z3.Star(z3.Intersect(ns_char, z3.Complement(z3.Re('t'))))
ns = z3.Star(ns_char)
pre = z3.Re('/w/ch0/')
D = z3.Concat(pre, ns_sub, z3.Re('/'), ns)
for name, RA, RSUB, RFILE in [('DRF', L.RE_DRF, L.RE_SUBDIR, L.RE_DRFFILE), ('DMD', L.RE_DMD, L.RE_SUBDIR, L.RE_DMDFILE), ('DRFDMD', L.RE_DRFDMD, L.RE_SUBDIR, L.RE_FILE)]:
    A = match_lang(RA, re.I)
    sub_exact = T(list(sre_parse.parse('^'+RSUB+'$'))[1:], EPS, False)
    file_l = z3.Intersect(match_lang('^'+RFILE), ns)
    B = z3.Concat(pre, sub_exact, z3.Re('/'), file_l)
    for tag, X in [('A-not-B', z3.Intersect(D, A, z3.Complement(B))), ('B-not-A', z3.Intersect(D, B, z3.Complement(A)))]:
        s = z3.Solver(); s.set('timeout', 120000); s.add(z3.InRe(p, X))
        t0=time.time(); r=s.check(); print(name, tag, r, round(time.time()-t0,2), (repr(s.model()[p]) if r==z3.sat else ''))
