import re, z3, sys, time
try:
    import re._parser as sre_parse, re._constants as sc
except ImportError:
    import sre_parse, sre_constants as sc
ANYCHAR = z3.AllChar(z3.ReSort(z3.StringSort()))
SIGSTAR = z3.Full(z3.ReSort(z3.StringSort()))
EPS = z3.Re("")
NL = z3.Re("\n")
def charset(items, icase):
    parts=[]; neg=False
    for op, av in items:
        if op == sc.NEGATE: neg=True
        elif op == sc.LITERAL: parts.append(lit(av, icase))
        elif op == sc.RANGE: parts.append(z3.Range(chr(av[0]), chr(av[1])))  # icase ignored for ranges of digits
        elif op == sc.CATEGORY:
            if av == sc.CATEGORY_DIGIT: parts.append(z3.Range('0','9'))
            elif av == sc.CATEGORY_NOT_DIGIT: parts.append(z3.Intersect(ANYCHAR, z3.Complement(z3.Range('0','9'))))
            else: raise NotImplementedError(av)
        else: raise NotImplementedError(op)
    r = parts[0] if len(parts)==1 else z3.Union(*parts)
    if neg: r = z3.Intersect(ANYCHAR, z3.Complement(r))
    return r
def lit(c, icase):
    ch = chr(c)
    if icase and ch.lower()!=ch.upper():
        return z3.Union(z3.Re(ch.lower()), z3.Re(ch.upper()))
    return z3.Re(ch)
def T(seq, K, icase):
    """regex for: seq followed by continuation K (CPS, handles lookahead and $)"""
    seq = list(seq)
    if not seq: return K
    (op, av), rest = seq[0], seq[1:]
    if op == sc.LITERAL: return z3.Concat(lit(av, icase), T(rest,K,icase))
    if op == sc.NOT_LITERAL: return z3.Concat(z3.Intersect(ANYCHAR, z3.Complement(lit(av,icase))), T(rest,K,icase))
    if op == sc.ANY: return z3.Concat(z3.Intersect(ANYCHAR, z3.Complement(z3.Re("\n"))), T(rest,K,icase))
    if op == sc.IN: return z3.Concat(charset(av, icase), T(rest,K,icase))
    if op == sc.SUBPATTERN:
        sub = av[3]
        return T(list(sub)+rest, K, icase)
    if op == sc.BRANCH:
        return z3.Union(*[T(list(b)+rest, K, icase) for b in av[1]])
    if op in (sc.MAX_REPEAT, sc.MIN_REPEAT):
        lo, hi, sub = av
        # no lookaround inside repeats supported: translate body standalone
        body = T(list(sub), EPS, icase)
        if hi == sc.MAXREPEAT:
            r = z3.Concat(*([body]*lo + [z3.Star(body)])) if lo>0 else z3.Star(body)
        else:
            r = z3.Loop(body, lo, hi)
        return z3.Concat(r, T(rest,K,icase))
    if op == sc.ASSERT_NOT:
        direction, sub = av
        assert direction == 1
        X = T(list(sub), SIGSTAR, icase)
        return z3.Intersect(T(rest,K,icase), z3.Complement(X))
    if op == sc.AT:
        if av == sc.AT_END:  # $ : end or before final newline
            tail = T(rest,K,icase)
            return z3.Intersect(tail, z3.Union(EPS, NL))
        if av == sc.AT_BEGINNING: raise NotImplementedError('^ mid')
    raise NotImplementedError((op,av))
def match_lang(pattern, flags=0):
    """language of strings s such that re.compile(pattern, flags).match(s) succeeds (prefix match)"""
    p = sre_parse.parse(pattern, flags)
    seq = list(p)
    if seq and seq[0] == (sc.AT, sc.AT_BEGINNING): seq = seq[1:]
    return T(seq, SIGSTAR, bool(flags & re.I))
if __name__ == '__main__':
    sys.path.insert(0,'/tmp/probe'); import mkpkg; drf = mkpkg.load()
    from digital_rf import list_drf as L
    s_sub = z3.String('sub'); s_file = z3.String('file')
    noslash = z3.Star(z3.Intersect(ANYCHAR, z3.Complement(z3.Union(z3.Re('/'), z3.Re('\n'), z3.Range('A','S'), z3.Range('U','Z')))))
    path = z3.Concat(z3.StringVal('/w/ch0/'), s_sub, z3.StringVal('/'), s_file)
    A = z3.InRe(path, match_lang(L.RE_DRF, re.I))
    B = z3.And(z3.InRe(s_sub, match_lang('^'+L.RE_SUBDIR+'$')), z3.InRe(s_file, match_lang('^'+L.RE_DRFFILE)))
    s = z3.Solver(); s.set('timeout', 120000)
    s.add(z3.InRe(s_sub, noslash), z3.InRe(s_file, noslash), z3.Not(z3.Contains(s_sub, z3.StringVal('t'))), z3.Length(s_sub) <= 24, z3.Length(s_file)<=24)
    s.add(A != B)
    t0=time.time(); r=s.check(); print(r, round(time.time()-t0,2))
    if r==z3.sat: m=s.model(); print(repr(m[s_sub]), repr(m[s_file]), m.eval(A), m.eval(B))
