import z3, time, sys, numpy as np
from fractions import Fraction
def ld_to_fraction(x):
    m, e = np.frexp(x)            # x = m * 2**e, 0.5<=m<1
    mi = int(m * np.longdouble(2)**64)  # exact: 64-bit significand
    assert np.longdouble(mi) * np.longdouble(2)**(int(e)-64) == x
    return Fraction(mi) * Fraction(2)**(int(e)-64)
def rne(s, A, B, e, tag):
    """x = A/B (B>0 const or term), assume 2^e <= x < 2^(e+1); returns integer mantissa M with value M*2^(e-63)"""
    M = z3.Int('M_'+tag)
    def sc(t, p): return t * (2**p) if p >= 0 else t  # helper not used for neg
    # binade constraint
    if e >= 0: s.add(A >= (2**e) * B, A < (2**(e+1)) * B)
    else: s.add(A * (2**(-e)) >= B, A * (2**(-e-1)) < B)
    sh = 63 - e
    # diff = A*2^sh - M*B  (scaled by B)
    if sh >= 0: lhs = A * (2**sh); rhsM = M * B; unit = B
    else: lhs = A; rhsM = M * B * (2**(-sh)); unit = B * (2**(-sh))
    diff = lhs - rhsM
    s.add(2*diff <= unit, 2*diff >= -unit)
    s.add(z3.Implies(z3.Or(2*diff == unit, 2*diff == -unit), M % 2 == 0))
    s.add(M >= 2**63, M <= 2**64)
    return M
n_, d_, fc = int(sys.argv[1]), int(sys.argv[2]), int(sys.argv[3])
S = ld_to_fraction(np.longdouble(np.uint64(n_)) / np.longdouble(np.uint64(d_)))
lo = 315532800*n_//d_; hi = 4102444800*n_//d_
t0 = time.time(); found = None; nq = 0
import math
e_lo = math.floor(math.log2(315532800)) - 1; e_hi = math.floor(math.log2(4102444800)) + 1
for e in range(e_lo, e_hi+1):
  for de in (9, 10):
    s = z3.Solver(); s.set('timeout', 60000)
    k = z3.Int('k'); s.add(k >= lo, k <= hi)
    # q = RNE(k / S) ; k/S = k*Sden / Snum
    M1 = rne(s, k * S.denominator, z3.IntVal(S.numerator), e, 'q')
    e2 = e + de
    # y = RNE(1000*M1*2^(e-63)) in binade e2: A = 1000*M1, B = 2^(e2-e) relative scaling -> x' = 1000*M1 / 2^(63-e) ; use scaled: x'' = 1000*M1 (units 2^(e-63)), binade of x'' is e2-(e-63)=63+de
    M2 = z3.Int('M2')
    s.add(1000*M1 >= 2**(63+de), 1000*M1 < 2**(64+de))
    diff = 1000*M1 - M2 * (2**de)
    s.add(2*diff <= 2**de, 2*diff >= -(2**de), z3.Implies(z3.Or(2*diff == 2**de, 2*diff == -(2**de)), M2 % 2 == 0), M2 >= 2**63, M2 <= 2**64)
    ms_fp = M2 / (2**(63 - e2)) if e2 < 63 else M2 * 2**(e2-63)
    ms_ex = (k * d_ * 1000) / n_
    s.add((ms_fp / fc) != (ms_ex / fc))
    nq += 1
    r = s.check()
    if r == z3.sat:
        m = s.model(); found = (m[k].as_long(), m.eval(ms_fp).as_long(), m.eval(ms_ex).as_long(), e, de); break
    elif r != z3.unsat: print('unknown', e, de)
  if found: break
print('queries', nq, 'time %.2f' % (time.time()-t0), found)
if found:
    kk = found[0]
    sps = np.longdouble(np.uint64(n_)) / np.longdouble(np.uint64(d_))
    print('numpy check: fp ms =', int(np.uint64(np.uint64(kk) / sps * 1000)), 'model fp ms =', found[1], 'exact =', found[2])
