import datetime
from typing import List
def _first_is_min(a: int, b: int) -> bool:
    """
    pre: 0 <= a < 2000 and 0 <= b < 2000
    post: _
    """
    groups = [str(a), str(b)]
    groups.sort()
    return int(groups[0]) == min(a, b)

def _td_cmp(s: int, t: int) -> bool:
    """
    pre: 0 <= s < 10**10 and 0 <= t < 10**10
    post: _
    """
    a = datetime.timedelta(seconds=s, milliseconds=5)
    b = datetime.timedelta(seconds=t)
    return (a < b) == (s * 1000 + 5 < t * 1000)
