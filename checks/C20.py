"""C20 Live metadata visibility and non-destructive reading.  CrossHair on the real metadata writer/reader and RF reader over in-memory
h5py / os stand-ins with an open/close and mutation log."""
from vlib import common, smt, chx

FUNCS = ['DigitalMetadataWriter.write/_write/_sample_group_generator', 'DigitalMetadataReader.get_bounds/read/read_latest/__init__/_add_metadata',
         'DigitalRFReader.get_digital_metadata', 'list_drf._yield_matching_files (read-only)']

META = {
    '_write_new': 'when write() returns every file it opened is closed and every group exists (visible to any reader)',
    '_reader_sees_write': 'a reader created before a write and one created after it both report the new sample at once: bounds, range read, read_latest (no cached state)',
    '_read_latest': 'read_latest returns the sample with the highest index',
    '_bounds': 'bounds are recomputed from the files on every call',
    '_init_nondestructive': 'constructing a metadata reader deletes nothing, except in the documented accept_empty=False mode on a channel without fields',
    '_add_metadata_nondestructive': 'reading deletes a metadata file only if opening it fails although it is accessible and it is older than one file cadence; a file that opens is never touched',
}
READER = {'_get_dmd_default': 'DigitalRFReader.get_digital_metadata builds the metadata reader in its non-destructive mode (accept_empty left at True)',
          '_two_files': 'RF reads use only os.access and read-only h5py opens (two-file harness: each readable file opened once, read-only)',
          '_bounds_scan': 'RF bounds use only the listing and read-only opens; vanished / corrupt files are skipped, nothing is removed'}

REPLAY = '''
from vlib import build
import numpy as np, tempfile, os, shutil, sys, warnings, hashlib
warnings.simplefilter('ignore')
drf = build.load_pkg()
top = tempfile.mkdtemp(); ch = os.path.join(top, 'ch'); os.makedirs(ch)
w = drf.DigitalRFWriter(ch, 'i2', 3600, 1000, 10**10, 10, 1, 'u', is_complex=False, marching_periods=False)
w.rf_write(np.arange(25, dtype='i2'))
md = os.path.join(ch, 'metadata'); os.makedirs(md)
mw = drf.DigitalMetadataWriter(md, 3600, 60, 10, 1, 'metadata')
def snap():
    out = {}
    for d, _, fs in os.walk(top):
        for f in fs:
            p = os.path.join(d, f); out[p] = (os.path.getsize(p), hashlib.md5(open(p, 'rb').read()).hexdigest())
    return out
bad = 0
w.close()
s0 = snap()
r = drf.DigitalRFReader(top)
try: r.get_digital_metadata('ch')
except Exception as e: print('get_digital_metadata:', type(e).__name__)
r.get_bounds('ch'); r.read(10**10, 10**10 + 30, 'ch'); drf.lsdrf(top)
if snap() != s0: print('reading changed the tree:', set(s0) ^ set(snap())); bad = 1
mw.write(10**10 + 5, {'v': 1})
def open_fds():
    out = []
    for f in os.listdir('/proc/self/fd'):
        try: t = os.readlink('/proc/self/fd/' + f)
        except OSError: continue
        if t.startswith(md): out.append(os.path.relpath(t, md))
    return out
if open_fds(): print('write() returned with metadata files still open in the writer:', open_fds()); bad = 1
import subprocess
def other_process():
    # what a reader in ANOTHER process sees right now (inside one process HDF5 shares an open file, which hides unflushed data)
    code = "import sys; sys.path.insert(0, %r); from vlib import chload; drf = chload.load(); r = drf.DigitalMetadataReader(sys.argv[1]); print(r.get_bounds(), sorted(int(k) for k in r.read_latest().keys()))" % sys.path[0]
    p = subprocess.run([sys.executable, '-c', code, md], stdout=subprocess.PIPE, stderr=subprocess.PIPE, text=True)
    return p.stdout.strip().splitlines()[-1] if p.stdout.strip() else 'FAILED: ' + p.stderr.strip().splitlines()[-1][:200]
seen = other_process()
if seen != str(((10**10 + 5, 10**10 + 5), [10**10 + 5])).replace('((', '(').replace('),', ')', 1) and seen != '(%d, %d) [%d]' % (10**10 + 5, 10**10 + 5, 10**10 + 5):
    print('a reader in another process sees', seen, 'after write() returned'); bad = 1
r2 = drf.DigitalMetadataReader(md)
if r2.get_bounds() != (10**10 + 5, 10**10 + 5): print('bounds', r2.get_bounds()); bad = 1
mw.write(10**10 + 700, {'v': 2})
if list(r2.read_latest().keys()) != [10**10 + 700] or r2.get_bounds()[1] != 10**10 + 700: print('earlier reader does not see the new sample'); bad = 1
seen = other_process()
if seen != '(%d, %d) [%d]' % (10**10 + 5, 10**10 + 700, 10**10 + 700): print('a reader in another process sees', seen, 'after the second write() returned'); bad = 1
if open_fds(): print('write() returned with metadata files still open in the writer:', open_fds()); bad = 1
shutil.rmtree(top)
sys.exit(1 if bad else 0)
'''


REPLAY_LIVE = '''
from vlib import build
import numpy as np, tempfile, os, shutil, sys, warnings
warnings.simplefilter('ignore')
drf = build.load_pkg()
kw = %r
a, d1, d2, pos = kw.get('a', 0), kw.get('d1', 1), kw.get('d2', 1), kw.get('pos', 2)
base = 0
three = [base + a, base + a + d1, base + a + d1 + d2]
new = three[pos]; old = [x for x in three if x != new]
top = tempfile.mkdtemp(); md = os.path.join(top, 'md'); os.makedirs(md)
w = drf.DigitalMetadataWriter(md, 1000, 100, 1, 1, 'md')
w.write(old, [{'v': int(x)} for x in old])
r_old = drf.DigitalMetadataReader(md)
bad = 0
if r_old.get_bounds() != (old[0], old[1]) or list(r_old.read_latest().keys()) != [old[1]]: print('before the write:', r_old.get_bounds(), list(r_old.read_latest().keys())); bad = 1
r_old.read(old[0], old[1], method='ffill')
w.write(new, {'v': int(new)})
r_new = drf.DigitalMetadataReader(md)
for nm, r in (('reader created before the write', r_old), ('reader created after the write', r_new)):
    got = (r.get_bounds(), list(r.read(new, new).keys()), list(r.read_latest().keys()), list(r.read(new, new, method='ffill').keys()))
    want = ((three[0], three[2]), [new], [three[2]], [new])
    if got != want: print(nm, 'reports', got, 'expected', want); bad = 1
shutil.rmtree(top)
sys.exit(1 if bad else 0)
'''


REPLAY_COLS = '''
# column-restricted reads of valid, old metadata files (columns present in some samples only, or in none): nothing on disk changes
from vlib import build
import numpy as np, tempfile, os, shutil, sys, warnings, hashlib, glob
warnings.simplefilter('ignore')
drf = build.load_pkg()
top = tempfile.mkdtemp(); md = os.path.join(top, 'md'); os.makedirs(md)
w = drf.DigitalMetadataWriter(md, 3600, 60, 1, 1, 'md')
w.write([1000, 1070, 1130], [{'v': 1, 'extra': 5}, {'v': 2}, {'v': 3}])
for f in glob.glob(os.path.join(md, '*', '*.h5')): os.utime(f, (1.0, 1.0))          # files much older than one cadence
def snap(): return {p: hashlib.md5(open(p, 'rb').read()).hexdigest() for p in sorted(glob.glob(os.path.join(md, '**', '*'), recursive=True)) if os.path.isfile(p)}
s0 = snap(); bad = 0
r = drf.DigitalMetadataReader(md)
for cols in (None, 'v', 'extra', 'nosuch', ['v'], ['extra'], ['v', 'nosuch']):
    for method in (None, 'ffill'):
        try: r.read(1000, 1200, columns=cols, method=method)
        except KeyError: pass
        except Exception as e: print('read(columns=%r) raised' % (cols,), type(e).__name__, e)
        if snap() != s0:
            print('read(columns=%r, method=%r) changed the tree: missing' % (cols, method), [os.path.basename(p) for p in s0 if p not in snap()]); bad = 1; s0 = snap()
if r.get_bounds() != (1000, 1130): print('bounds afterwards', r.get_bounds()); bad = 1
shutil.rmtree(top)
sys.exit(1 if bad else 0)
'''


REPLAY_GAP = '''
# metadata written into non-adjacent subdirectories (a whole subdirectory period never written in between): range reads across the gap and
# read_latest return everything, for a reader created before and one created after the second write
from vlib import build
import tempfile, os, shutil, sys, warnings
warnings.simplefilter('ignore')
drf = build.load_pkg()
top = tempfile.mkdtemp(); md = os.path.join(top, 'md'); os.makedirs(md)
w = drf.DigitalMetadataWriter(md, 20, 10, 1, 1, 'md')
w.write([1000003], [{'v': 1}])
r_old = drf.DigitalMetadataReader(md)
w.write([1000047, 1000095], [{'v': 2}, {'v': 3}])
bad = 0
for nm, r in (('reader created before', r_old), ('reader created after', drf.DigitalMetadataReader(md))):
    got = (r.get_bounds(), sorted(int(k) for k in r.read(1000000, 1000099).keys()), sorted(int(k) for k in r.read_latest().keys()), sorted(int(k) for k in r.read(1000050, 1000060, method='ffill').keys()))
    want = ((1000003, 1000095), [1000003, 1000047, 1000095], [1000095], [1000047])
    if got != want: print(nm, 'the writes reports', got, 'expected', want); bad = 1
shutil.rmtree(top)
sys.exit(1 if bad else 0)
'''

MDLIST = {'_md_file_list': 'metadata reader: the candidate files of read(s0, s1) are exactly the existing files of the periods of s0 .. s1, ascending, whichever other files and subdirectories exist or are missing in between (six file periods in three subdirectories, existence of every file and empty subdirectory symbolic)',
          '_md_list_witness': 'reachability: a candidate list spanning the first and the last subdirectory'}


def main(tier):
    rep = common.Report('C20', tier, 'model_checking', functions=FUNCS)
    st = smt.Stats()
    rep.assume('h5py / os replaced by in-memory stand-ins that log opens, closes and mutating calls', 'interleavings at call granularity: a write has returned before the query starts')
    rep.outside_claim('remote (http) metadata readers', 'concurrent partial writes inside one write() call')
    T = 180 if tier == 'quick' else 900
    res = chx.run_module('meta', names=list(META), per_condition_timeout=T)
    body = lambda kw: REPLAY
    live = lambda kw: REPLAY_LIVE % (kw,)
    chx.report(rep, res, META, replays=dict({k: body for k in META}, _reader_sees_write=live, _read_latest=live, _bounds=live, _add_metadata_nondestructive=lambda kw: REPLAY_COLS), sigs={k: 'C20.' + k.strip('_') for k in META})
    res = chx.run_module('reader', names=list(READER), per_condition_timeout=T)
    chx.report(rep, res, READER, replays={k: body for k in READER}, sigs={k: 'C20.' + k.strip('_') for k in READER})
    res = chx.run_module('mdlist', per_condition_timeout=300 if tier == 'quick' else 900)
    chx.report(rep, res, MDLIST, replays={'_md_file_list': lambda kw: REPLAY_GAP}, sigs={'_md_file_list': 'C20.md_file_list'})
    # real-tree validation: reading a valid tree changes nothing; writes are visible to earlier and later readers
    path = rep.write_replay('real_tree', REPLAY)
    ok, out = rep.run_replay(path)
    import os
    if ok is False:
        rep.ob('real tree: RF / metadata / listing queries leave every file byte-identical; metadata writes are visible to readers created before and after', 'witness', None, 0, 0, 1)
        os.remove(path)
    elif ok is True:
        rep.violation('real tree: reading is non-destructive and writes are visible', 'C20.real_tree', out[-300:], reproduced=True)
    else:
        rep.ob('real tree validation', 'inconclusive', detail=out[-300:])
    return rep.finish()
