"""C08 Reader query coherence.  CrossHair (z3-backed symbolic execution) on the real reader functions with list-backed stand-ins for
h5py datasets and the file system; the numeric conversion of the vector reads is decided per stored type with z3 / exact integer
reasoning over numpy's promotion table; N1 (candidate file list) is shared with C01."""
import time
from vlib import common, smt, chx
from checks import readerside

FUNCS = ['_top_level_dir_properties._read', 'DigitalRFReader._combine_blocks', 'DigitalRFReader.read', 'DigitalRFReader.get_continuous_blocks',
         '_top_level_dir_properties._get_bounds/_get_first_sample/_get_last_sample', 'DigitalRFReader.get_bounds',
         'DigitalRFReader.read_vector_raw / read_vector / read_vector_1d', 'DigitalRFReader._get_file_list']

TITLES = {
    '_read_lengths': 'block lengths without reading == Blocks(Sem(index)) clipped to the range (per file, <=3 index rows)',
    '_read_slices': 'data read: one slice per block, exactly the rows of the requested samples, column = sub_channel',
    '_read_witness': 'reachability: a two-block result is reachable',
    '_combine3': 'cross-file merge: adjacent blocks merge, gaps split, ascending order, any input order (3 blocks, lengths)',
    '_combine2_arrays': 'cross-file merge in data mode: adjacent arrays concatenated in order, otherwise returned as-is',
    '_combine_witness': 'reachability: a merge is reachable',
    '_read_glue': 'read(): range, file list, one shared mapping, len_only=False and sub_channel forwarded to every top-level directory; result = merge',
    '_read_all_dirs': 'read() / get_continuous_blocks(): every top-level directory of the channel contributes, in any directory order, also when the blocks found so far already reach both ends of the request (interleaved sessions)',
    '_read_glue_errors': 'read(): inverted range / missing sub-channel refused with ValueError before touching files',
    '_blocks_glue': 'get_continuous_blocks(): same file list and range as read(), len_only=True (lengths == lengths of read blocks)',
    '_two_files': 'two files: blocks of both in file order, unreadable/vanished file skipped, each readable file opened once',
    '_split_invariance': 'read(a,c) == merge(read(a,b), read(b+1,c)) for every split point (per-file extraction + merge)',
    '_cache_sequence': 'a long-lived reader: a pass over missing files between two reads of a file leaves the second read equal to the first (no stale cached handle)',
    '_appearing_file': 'a long-lived reader sees a file that was not finalized yet when an earlier pass probed it as soon as it exists (monotone visibility: nothing about a failed probe is remembered)',
    '_first_last': 'first/last sample of a file == min/max of Sem(index, rows)',
    '_bounds_scan': 'bounds = first sample of first readable file, last of last readable file; vanished/corrupt files skipped; RF files only',
    '_bounds_merge': 'bounds across top-level directories == (min first, max last) over directories holding data',
    '_vector_raw': 'vector read: the single fully covering block with shape (n,) or (n, subchannels) if exactly one block of exactly n samples, IOError otherwise (n = 1 included)',
}

REPLAY_VECTOR = '''
from vlib import build
import numpy as np, tempfile, os, shutil, sys, warnings
warnings.simplefilter('ignore')
drf = build.load_pkg()
kw = %r
nsub, vlen, got, sub, off = kw.get('nsub', 1), kw.get('vlen', 1), kw.get('got_len', 1), kw.get('sub'), kw.get('off', 0)
d = tempfile.mkdtemp(); os.makedirs(d + '/ch')
S = 10**10
w = drf.DigitalRFWriter(d + '/ch', 'i2', 3600, 1000, S, 10, 1, 'u', is_complex=False, num_subchannels=nsub, is_continuous=False, marching_periods=False)
w.rf_write(np.arange(got * nsub, dtype='i2').reshape(got, nsub), next_sample=off); w.close()
r = drf.DigitalRFReader(d)
bad = 0
try:
    z = r.read_vector_raw(S, vlen, 'ch', sub)
    ok = off == 0 and vlen <= got and z.shape[0] == vlen and z.shape in ((vlen,), (vlen, nsub))
    print('returned shape', z.shape, 'OK' if ok else 'WRONG'); bad = not ok
except IOError as e:
    print('IOError', e); bad = off == 0 and vlen <= got and vlen >= 1
except Exception as e:
    print('unexpected', type(e).__name__, e); bad = 1
shutil.rmtree(d)
sys.exit(1 if bad else 0)
'''


def main(tier):
    rep = common.Report('C08', tier, 'model_checking', functions=FUNCS)
    st = smt.Stats()
    rep.assume('h5py datasets behave like 2-d arrays (shape, row slicing, column selection); os.access answers arbitrarily per file',
               'collections.OrderedDict is replaced by an insertion-ordered list-backed mapping inside _combine_blocks (a real dict would realise symbolic keys)',
               'files satisfy the C06 well-formedness of their index (established for the writer in C06)')
    rep.outside_claim('more than 3 index rows per file, more than 2 files per harness, more than 3 blocks in a merge',
                      'DigitalRFReader.__init__ / channel discovery', 'remote (http/file) access modes')
    T = 90 if tier == 'quick' else 600
    res = chx.run_module('reader', per_condition_timeout=T)
    from checks import C11
    chx.report(rep, res, TITLES, replays=dict(readerside.READ_REPLAYS, _vector_raw=lambda kw: REPLAY_VECTOR % (kw,), _bounds_merge=lambda kw: C11.REPLAY_BOUNDS % (kw,)),
               sigs={'_vector_raw': 'C08.read_vector_raw.length1'})
    readerside.c08_part(rep, st, tier)
    return rep.finish()
