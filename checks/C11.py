"""C11 Multi-session and multi-directory continuity without overwrite.
E-LL: digital_rf_handle_metadata verify branch (stored attributes symbolic) and the constructor tail; the write path on a channel whose
finalized files may already exist (existence of every final name symbolic); CrossHair: reader merge across top-level directories."""
import time
import z3
from vlib import build, common, smt, wrun, envstubs, chx
from vlib.llsym import Module, Exec, Ptr, SymStr, M, Inconclusive
from vlib.wobj import WObj
from checks import wcommon, C01

FUNCS = C01.FUNCS + ['digital_rf_handle_metadata (verify)', 'digital_rf_create_write_hdf5', 'DigitalRFReader.get_bounds / read (multi-directory merge)']
ATTRS = ['H5Tget_class', 'H5Tget_size', 'H5Tget_order', 'H5Tget_precision', 'H5Tget_offset', 'subdir_cadence_secs', 'file_cadence_millisecs',
         'sample_rate_numerator', 'sample_rate_denominator', 'is_complex', 'num_subchannels', 'is_continuous']

REPLAY_SESSION = '''
from vlib import build, refmodel
import numpy as np, tempfile, os, shutil, sys, glob, hashlib
top = tempfile.mkdtemp(prefix='tmp.drf_'); ch = os.path.join(top, 'ch'); os.makedirs(ch)
cfg = dict(n=10, d=1, sc=3600, fc=1000, start=10**10)
def session(start_rel, n):
    rw = refmodel.RealWriter(build, ch, cfg['n'], cfg['d'], cfg['sc'], cfg['fc'], cfg['start'], 0)
    if not rw.obj: return 'NULL'
    r = rw.write_blocks([start_rel], [0], (np.arange(n, dtype=np.int16) + 100).reshape(-1, 1))
    r2 = rw.write_blocks([start_rel + 50], [0], (np.arange(5, dtype=np.int16) + 200).reshape(-1, 1))
    rw.close(); return (r, r2)
bad = 0
print('session 1', session(0, 25))
h0 = {f: hashlib.md5(open(f, 'rb').read()).hexdigest() for f in glob.glob(os.path.join(ch, '*', 'rf@*.h5'))}
r = session(12, 10)            # would need the finalized period 1 (samples 10..19)
print('session 2', r)
h1 = {f: hashlib.md5(open(f, 'rb').read()).hexdigest() for f in h0}
if h1 != h0: print('a finalized file of session 1 changed'); bad = 1
if r == 'NULL' or r[0] == 0: print('write into a finalized period was accepted'); bad = 1
if r != 'NULL' and r[1] != 0: print('writer not usable for a later free period after the refusal:', r); bad = 1
# mismatching parameters
rw = refmodel.RealWriter(build, ch, 20, 1, cfg['sc'], cfg['fc'], cfg['start'], 0)
if rw.obj: print('session with a different sample rate was accepted'); bad = 1
shutil.rmtree(top)
sys.exit(1 if bad else 0)
'''


REPLAY_BOUNDS = '''
from vlib import build
import numpy as np, tempfile, os, shutil, sys, warnings
warnings.simplefilter('ignore')
drf = build.load_pkg()
kw = %r
top = tempfile.mkdtemp(); tops = []
base = 10**9
want_f, want_l = [], []
for i in (1, 2, 3):
    f, n = kw.get('f%%d' %% i), kw.get('n%%d' %% i, 0)
    d = os.path.join(top, 'top%%d' %% i); os.makedirs(os.path.join(d, 'ch')); tops.append(d)
    w = drf.DigitalRFWriter(os.path.join(d, 'ch'), 'i2', 3600, 1000, base, 1, 1, 'u', is_complex=False, is_continuous=False, marching_periods=False)
    if f is not None:
        w.rf_write(np.zeros(n + 1, dtype='i2'), next_sample=f)
        want_f.append(base + f); want_l.append(base + f + n)
    w.close()
r = drf.DigitalRFReader(tops)
got = r.get_bounds('ch')
want = (min(want_f), max(want_l)) if want_f else (None, None)
print('bounds', got, 'expected', want)
shutil.rmtree(top)
sys.exit(1 if got != want else 0)
'''


def verify_branch(rep):
    mod = Module(build.c_ir()); stubs = envstubs.mk_stubs()
    res = []

    def setup(ex):
        o = WObj(ex)
        vals = {k: z3.Int('w_' + k) for k in ('sc', 'fc', 'n', 'd', 'cplx', 'nsub', 'cont')}
        for v in vals.values(): ex.assume(z3.And(v >= 0, v < 2**31))
        o.fresh_open_state(vals['n'], vals['d'], vals['sc'], vals['fc'], z3.Int('start'), vals['cont'], 1, vals['cplx'], vals['nsub'])
        ex.user['fs_init'] = lambda e, s: True            # drf_properties.h5 exists
        ans = {}
        for nm in ('H5Tget_class', 'H5Tget_order', 'H5Tget_precision', 'H5Tget_offset'):
            ex.user[nm] = z3.Int('t_' + nm); ex.assume(z3.And(ex.user[nm] >= 0, ex.user[nm] < 2**31))
        ex.user['tsize'] = z3.Int('t_H5Tget_size'); ex.assume(z3.And(ex.user['tsize'] >= 0, ex.user['tsize'] < 2**31))
        stored = {}
        def aread(e, name, buf):
            nm = name.text()
            if nm not in stored:
                stored[nm] = z3.Int('stored_' + nm); e.assume(z3.And(stored[nm] >= 0, stored[nm] < 2**31))
            return stored[nm]
        ex.user['H5Aread'] = aread
        ex.user['H5Fopen_ok'] = lambda e, s: True
        expected = {'H5Tget_class': ex.user['H5Tget_class'], 'H5Tget_size': ex.user['tsize'], 'H5Tget_order': ex.user['H5Tget_order'],
                    'H5Tget_precision': ex.user['H5Tget_precision'], 'H5Tget_offset': ex.user['H5Tget_offset'], 'subdir_cadence_secs': vals['sc'],
                    'file_cadence_millisecs': vals['fc'], 'sample_rate_numerator': vals['n'], 'sample_rate_denominator': vals['d'],
                    'is_complex': vals['cplx'], 'num_subchannels': vals['nsub'], 'is_continuous': vals['cont']}
        ex.user['stored'] = stored; ex.user['expected'] = expected
        return [o.ptr]

    def on_path(ex, status, ret):
        stored, expected = ex.user['stored'], ex.user['expected']
        mut = [e for e in ex.events if e[0] in wcommon.wpath.MUTATING]
        if status != 'ret':
            res.append(('abort', False)); return
        if ex.valid(ret == 0):
            alleq = z3.And(*[stored[k] == expected[k] for k in ATTRS if k in stored])
            res.append(('accept', set(stored) >= set(ATTRS) and ex.valid(alleq) and not mut))
        else:
            some_ne = z3.Or(*[stored[k] != expected[k] for k in stored]) if stored else z3.BoolVal(False)
            res.append(('reject', ex.valid(some_ne) and not mut))

    ex = Exec(mod, stubs)
    try:
        n = ex.explore('@digital_rf_handle_metadata', setup, on_path)
    except Inconclusive as e:
        rep.ob('channel parameters verified against the stored ones', 'inconclusive', detail=str(e)); return
    acc = [ok for k, ok in res if k == 'accept']; rej = [ok for k, ok in res if k == 'reject']
    good = bool(acc) and all(acc) and len(rej) >= len(ATTRS) and all(rej) and not any(k == 'abort' for k, _ in res)
    title_ = 'a new session is accepted iff all 12 stored channel parameters equal its own; any single mismatch refuses it; the directory is untouched either way'
    if not good and acc and not all(acc):
        # some accepting path does not force all stored values to equal the session's: run sessions differing in one parameter on the real build
        rep.violation(title_, 'C11.verify_params', 'an accepting path of digital_rf_handle_metadata does not compare every stored parameter with the session\'s own (accept=%s)' % acc,
                      replay_body=REPLAY_PARAMS, queries=ex.nq, solver_s=ex.tq, paths=n)
        return
    rep.ob(title_,
           'discharged' if good else 'inconclusive', 'all 12 stored values and all writer parameters symbolic (< 2^31)', ex.nq, ex.tq, n,
           detail=None if good else 'accept=%s reject=%s' % (acc, rej), sample={'attributes': ATTRS, 'paths': n})


REPLAY_PARAMS = '''
# a second session whose parameters differ from the stored ones in exactly one item must be refused and must leave the directory untouched
from vlib import build, refmodel
import numpy as np, tempfile, os, shutil, sys, glob, hashlib
bad = 0
base = dict(n=100, d=1, sc=3600, fc=1000, cont=0, dtype='short', cplx=0, nsub=1)
variants = [('sample rate written as another fraction (200/2)', dict(n=200, d=2)), ('numerator', dict(n=101)), ('denominator', dict(d=3)), ('subdir cadence', dict(sc=7200)),
            ('file cadence', dict(fc=500)), ('continuous flag', dict(cont=1)), ('complex flag', dict(cplx=1)), ('subchannels', dict(nsub=2)),
            ('element size', dict(dtype='int')), ('element class', dict(dtype='float'))]
def snap(ch): return {f: hashlib.md5(open(f, 'rb').read()).hexdigest() for f in sorted(glob.glob(os.path.join(ch, '**', '*'), recursive=True)) if os.path.isfile(f)}
for what, chg in variants:
    top = tempfile.mkdtemp(prefix='tmp.drf_'); ch = os.path.join(top, 'ch'); os.makedirs(ch)
    S = 10**10
    rw = refmodel.RealWriter(build, ch, base['n'], base['d'], base['sc'], base['fc'], S, base['cont'], dtype=base['dtype'], cplx=base['cplx'], nsub=base['nsub'])
    rw.write_blocks([0], [0], np.arange(150, dtype=np.int16).reshape(-1, 1)); rw.close()
    before = snap(ch)
    p = dict(base, **chg)
    rw2 = refmodel.RealWriter(build, ch, p['n'], p['d'], p['sc'], p['fc'], S, p['cont'], dtype=p['dtype'], cplx=p['cplx'], nsub=p['nsub'])
    if rw2.obj:
        print('a session differing in: %s was ACCEPTED' % what); bad = 1
        rw2.close()
    if snap(ch) != before: print('directory changed by a session differing in: %s' % what); bad = 1
    shutil.rmtree(top)
# and an identical session is accepted
top = tempfile.mkdtemp(prefix='tmp.drf_'); ch = os.path.join(top, 'ch'); os.makedirs(ch)
for i in range(2):
    rw = refmodel.RealWriter(build, ch, 100, 1, 3600, 1000, 10**10, 0)
    if not rw.obj: print('an identical session was refused'); bad = 1
    else:
        rw.write_blocks([300 * i], [0], np.arange(150, dtype=np.int16).reshape(-1, 1)); rw.close()
shutil.rmtree(top)
sys.exit(1 if bad else 0)
'''


TITLES = {'_bounds_merge': 'reader: bounds across top-level directories == (min first, max last) over the directories that hold data',
          '_read_all_dirs': 'reader: every top-level directory contributes to a read, in any directory order, also when the blocks found so far already reach both ends of the request (sessions interleaved over directories)',
          '_read_glue': 'reader: one read accumulates the blocks of every top-level directory into one mapping and merges them',
          '_combine3': 'reader: blocks from different directories merge exactly when adjacent, in ascending order'}


def main(tier):
    rep = common.Report('C11', tier, 'model_checking', functions=FUNCS)
    st = smt.Stats()
    rep.assume('existence of every final data-file name is an arbitrary boolean at session start (earlier sessions may have finalized any period)',
               'H5Fcreate with H5F_ACC_EXCL fails if the (tmp) name exists', 'environment stubs; no I/O faults')
    rep.outside_claim('two writers active on the same channel at the same time', 'the same file period recorded in two top-level directories (not allowed by the format)')
    verify_branch(rep)
    from checks import extglue
    extglue.run_init(rep, st, tier); extglue.run_py_init_call(rep)      # the session parameters compared are the ones the caller gave
    if not wcommon.gate(rep, st): return rep.finish()
    specs = wcommon.session_specs(tier)
    t0 = time.time()
    results = wrun.run_all(specs)
    tot = wcommon.report(rep, specs, results, lambda nm: True, label='session')
    rep.ob('later-session histories explored', 'witness', '%d configurations' % len(specs), tot['q'], tot['s'], tot['paths'])
    res = chx.run_module('reader', names=list(TITLES), per_condition_timeout=120 if tier == 'quick' else 600)
    chx.report(rep, res, TITLES, replays=dict(__import__('checks.readerside', fromlist=['READ_REPLAYS']).READ_REPLAYS, _bounds_merge=lambda kw: REPLAY_BOUNDS % (kw,)), sigs={k: 'C11.' + k.strip('_') for k in TITLES})
    path = rep.write_replay('sessions_real', REPLAY_SESSION)
    ok, out = rep.run_replay(path)
    import os
    if ok is False:
        rep.ob('real build: a second session is refused inside a finalized period (file bytes unchanged), stays usable for a later period, and a session with another rate is refused',
               'witness', None, 0, 0, 1); os.remove(path)
    elif ok is True:
        rep.violation('real build: sessions', 'C11.real_sessions', out[-300:], reproduced=True)
    else:
        rep.ob('real-build session replay', 'inconclusive', detail=out[-300:])
    return rep.finish()
