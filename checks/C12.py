"""C12 Digital Metadata round-trip (index / selection logic).  CrossHair on the real DigitalMetadataReader / DigitalMetadataWriter methods over
an in-memory HDF5 store; file placement is C13's subject and is supplied by stubs here."""
from vlib import common, smt, chx

FUNCS = ['DigitalMetadataReader.get_bounds', 'DigitalMetadataReader.read', 'DigitalMetadataReader._add_metadata', 'DigitalMetadataReader._populate_data',
         'DigitalMetadataReader.read_latest', 'DigitalMetadataWriter.write', 'DigitalMetadataWriter._write', 'DigitalMetadataWriter._sample_group_generator']

TITLES = {
    '_bounds': 'bounds == (smallest, largest) index written (1..3 samples over up to 3 files; group names ordered as h5py returns them: as strings)',
    '_read_range': 'range read returns exactly the samples with start <= index <= end, ascending, each with its own value (3 samples, up to 3 files)',
    '_read_ffill': 'forward-fill read additionally returns the latest sample at or before the start, once, ascending',
    '_read_latest': 'read_latest returns the sample with the highest index',
    '_read_column': "columns='name' returns the column value, columns=['name'] a {name: value} dict, for exactly the in-range samples",
    '_meta_witness': 'reachability: a two-sample forward-filled read is reachable',
    '_write_new': 'write (list-of-dicts): accepted iff no index exists; one group per index in the file of that index with its own value; an existing index is refused with IOError and the stored sample is unchanged; all files closed on return',
    '_write_dict_forms': 'write (dict form, 3 samples): length-3 lists distributed per sample, scalars / other lengths repeated, strings never distributed (any length), nested dicts (3 levels, equal inner names in two branches) keep structure',
    '_write_subdirs': 'write: a batch straddling a subdirectory boundary and a later write call with any other index on the same writer (back-fill): every sample is stored in the file of its index inside the subdirectory of that file, whatever was written before',
    '_write_witness': 'reachability: an accepted write is reachable',
}

REPLAY = '''
from vlib import build
import numpy as np, tempfile, os, shutil, sys, warnings
warnings.simplefilter('ignore')
drf = build.load_pkg()
kw, mode = %r, %r
top = tempfile.mkdtemp(); md = os.path.join(top, 'md'); os.makedirs(md)
w = drf.DigitalMetadataWriter(md, 1000, 100, 1, 1, 'md')
bad = 0
if mode == 'read':
    a = kw['a']; samples = [a] + ([a + kw['d1']] if 'd1' in kw and kw.get('n', 3) >= 2 else []) + ([a + kw['d1'] + kw['d2']] if 'd2' in kw and kw.get('n', 3) >= 3 else [])
    base = 0        # the harness indices themselves: their decimal strings must have the same number of digits as in the counterexample
    w.write([base + s for s in samples], [{'v': s} for s in samples])
    r = drf.DigitalMetadataReader(md)
    b = r.get_bounds()
    if b != (base + samples[0], base + samples[-1]): print('bounds', b, 'expected', (base + samples[0], base + samples[-1])); bad = 1
    lo, hi = kw.get('lo', 0), kw.get('hi', 320)
    for method in (None, 'ffill'):
        got = [int(k) - base for k in r.read(base + lo, base + hi, method=method).keys()]
        want = [s for s in samples if lo <= s <= hi]
        if method:
            before = [s for s in samples if s <= lo]
            want = ([before[-1]] if before else []) + [s for s in samples if lo < s <= hi]
        if got != want: print('read(%%d, %%d, method=%%s) keys %%s expected %%s' %% (lo, hi, method, got, want)); bad = 1
else:
    a = kw.get('a', 0); d1 = kw.get('d1', 1); d2 = kw.get('d2', 1); slen = kw.get('slen', 3)
    samples = [a, a + d1, a + d1 + d2]; text = 'abcd'[:slen]
    w.write(samples, {'per': [10, 20, 30], 'all': 7, 'txt': text, 'sub': {'x': [4, 5, 6], 't': text, 'deep': {'y': [7, 8, 9], 'z': {'w': 1}}}, 'other': {'deep': {'y': 0}}})
    r = drf.DigitalMetadataReader(md)
    got = r.read(samples[0], samples[-1])
    for i, s in enumerate(samples):
        g = got.get(s)
        want = {'per': [10, 20, 30][i], 'all': 7, 'txt': text, 'sub': {'x': [4, 5, 6][i], 't': text, 'deep': {'y': [7, 8, 9][i], 'z': {'w': 1}}}, 'other': {'deep': {'y': 0}}}
        if g != want: print('sample', s, 'read back', g, 'expected', want); bad = 1
shutil.rmtree(top)
sys.exit(1 if bad else 0)
'''


REPLAY_SUBDIRS = '''
from vlib import build
import numpy as np, tempfile, os, shutil, sys, glob, warnings
warnings.simplefilter('ignore')
drf = build.load_pkg()
import h5py
kw = %r
a, d1, d2, e2 = kw.get('a', 0), kw.get('d1', 1), kw.get('d2', 1), kw.get('e2', 399)
top = tempfile.mkdtemp(); md = os.path.join(top, 'md'); os.makedirs(md)
w = drf.DigitalMetadataWriter(md, 200, 100, 1, 1, 'md')
samples = [a, a + d1, a + d1 + d2]
w.write(samples, [{'v': int(x)} for x in samples]); w.write([e2], [{'v': int(e2)}])
bad = 0
import datetime
for s in samples + [e2]:
    f = (s // 100) * 100; sub = (f // 200) * 200
    want = os.path.join(md, (datetime.datetime(1970, 1, 1) + datetime.timedelta(seconds=sub)).strftime('%%Y-%%m-%%dT%%H-%%M-%%S'), 'md@%%d.h5' %% f)
    where = [p for p in glob.glob(os.path.join(md, '*', 'md@*.h5')) if str(s) in h5py.File(p, 'r')]
    if where != [want]: print('sample', s, 'stored in', [p[len(md) + 1:] for p in where], 'expected', want[len(md) + 1:]); bad = 1
r = drf.DigitalMetadataReader(md)
got = sorted(int(k) for k in r.read(0, 400).keys())
if got != sorted(samples + [e2]): print('read(0, 400) returns', got, 'written', sorted(samples + [e2])); bad = 1
shutil.rmtree(top)
sys.exit(1 if bad else 0)
'''


def main(tier):
    rep = common.Report('C12', tier, 'model_checking', functions=FUNCS)
    st = smt.Stats()
    rep.assume('h5py replaced by an in-memory store of files / groups / datasets (create_group refuses existing names; keys listed in insertion order; '
               'group names are decimal strings and order as strings)', 'file placement supplied by stubs (decided in C13)',
               'collections.OrderedDict replaced by an insertion-ordered list-backed mapping; numpy helpers by a list-backed shim')
    rep.outside_claim('value fidelity of scalars / strings / arrays through h5py and HDF5', 'more than 3 samples / 3 files per harness; indices >= 1000 in the harness channel')
    res = chx.run_module('meta', names=list(TITLES), per_condition_timeout=180 if tier == 'quick' else 900)
    rd = lambda kw: REPLAY % (kw, 'read'); wr = lambda kw: REPLAY % (kw, 'write')
    chx.report(rep, res, TITLES, replays={'_bounds': rd, '_read_range': rd, '_read_ffill': rd, '_read_latest': rd, '_read_column': rd, '_write_dict_forms': wr, '_write_subdirs': lambda kw: REPLAY_SUBDIRS % (kw,)},
               sigs={k: 'C12.' + k.strip('_') for k in TITLES})
    return rep.finish()
