"""C13 Digital Metadata file placement agrees between writer and reader.
E-AST: the numeric expressions of the real writer (_sample_group_generator: file index key, file timestamp, subdirectory timestamp) and reader
(_get_file_list: candidate window, loops, name format) are translated to SMT -- numpy.longdouble steps modelled exactly (IEEE RNE in LIA per
binade) when present -- and compared with  mfile(k) = floor(floor(k*d/n)/fc)*fc  for all k in 1980..2100 per (rate, cadence)."""
import ast, os, time
import z3
from vlib import build, common, smt, rates, astnum

PYFILE = os.path.join(build.PYPKG, 'digital_metadata.py')
FUNCS = ['DigitalMetadataWriter._sample_group_generator', 'DigitalMetadataReader._get_file_list']

REPLAY = '''
from vlib import build
import numpy as np, tempfile, os, shutil, sys, glob, warnings
warnings.simplefilter('ignore')
drf = build.load_pkg()
n, d, sc, fc, k = %r
top = tempfile.mkdtemp(); md = os.path.join(top, 'md'); os.makedirs(md)
w = drf.DigitalMetadataWriter(md, sc, fc, n, d, 'md')
ks = [k - 1, k, k + 1]
w.write(ks, [{'v': int(x %% 1000)} for x in ks])
bad = 0
mfile = lambda x: (((x * d) // n) // fc) * fc
r = drf.DigitalMetadataReader(md)
for x in ks:
    want = 'md@%%d.h5' %% mfile(x)
    import h5py
    where = [os.path.basename(p) for p in glob.glob(os.path.join(md, '*', 'md@*.h5')) if str(x) in h5py.File(p, 'r')]
    got = list(r.read(x, x).keys())
    if where != [want]: print('sample %%d stored in %%s, expected %%s' %% (x, where, want)); bad = 1
    if got != [x]: print('read(%%d, %%d) returned %%s' %% (x, x, got)); bad = 1
shutil.rmtree(top)
print('placement', 'WRONG' if bad else 'ok')
sys.exit(1 if bad else 0)
'''


REPLAY_RANGE = '''
# a range read returns exactly the written samples inside the range: the files in front of / behind the range contribute nothing, and the
# first / last file of the range are filtered against it
from vlib import build
import numpy as np, tempfile, os, shutil, sys, warnings
warnings.simplefilter('ignore')
drf = build.load_pkg()
n, d, sc, fc, k = %r
bad = 0
first = lambda T: -((-T * n) // d)            # first sample at or after second T
F0 = (((k * d) // n) // fc) * fc
for F in (F0, F0 + fc, F0 + 2 * fc):
    a, b, e = first(F) - 1, first(F), first(F + fc)
    if e - b < 2: continue
    top = tempfile.mkdtemp(); md = os.path.join(top, 'md'); os.makedirs(md)
    w = drf.DigitalMetadataWriter(md, sc, fc, n, d, 'md')
    ks = [a, b, b + 1, e, first(F + 2 * fc)]
    w.write(ks, [{'v': i} for i in range(len(ks))])
    r = drf.DigitalMetadataReader(md)
    for (q0, q1, want) in ((b + 1, e, [b + 1, e]), (b + 1, e - 1, [b + 1]), (b, e, [b, b + 1, e]), (b + 1, first(F + 2 * fc) - 1, [b + 1, e])):
        got = list(r.read(q0, q1).keys())
        if got != want: print('rate %%d/%%d cadences %%d/%%d: read(%%d, %%d) returned %%s, written samples in range %%s' %% (n, d, sc, fc, q0, q1, got, want)); bad = 1
    shutil.rmtree(top)
sys.exit(1 if bad else 0)
'''


def _env(n, d, sc, fc, k0, k1):
    return {'self._file_cadence_secs': fc, 'self._subdir_cadence_secs': sc, 'self._samples_per_second': astnum.ld_const(n, d),
            'self._sample_rate_numerator': n, 'self._sample_rate_denominator': d, 'sample0': k0, 'sample1': k1}


def check_cfg(n, d, sc, fc, st, wfn, rfn):
    """-> list of (name, 'unsat'|'sat'|'unknown', k) for one configuration"""
    out = []
    lo, hi = -((-rates.Y1980 * n) // d), (rates.Y2100 * n) // d
    k = z3.Int('k')
    MF = (((k * d) / n) / fc) * fc
    # ---- writer
    grp = next((c for c in ast.walk(wfn) if isinstance(c, ast.Call) and ast.unparse(c.func) == 'itertools.groupby'), None)
    if grp is None or not isinstance(grp.args[1], ast.Lambda): raise astnum.Unsupported('writer groupby key not found')
    lam = grp.args[1]; svar = lam.args.args[0].arg
    wasg = [(ln, nm, v) for ln, nm, v in astnum.assignments(wfn)]
    ch = astnum.Choices()
    for run in ch.runs():
        env = _env(n, d, sc, fc, k, k); env[svar] = k
        cx = astnum.Ctx(run, env, {'k': (lo, hi)})
        for ln, nm, v in wasg:
            if ln < lam.lineno:
                try: cx.env[nm] = astnum.ev(v, cx)
                except astnum.Unsupported: pass
        idx = astnum.ev(lam.body, cx)
        if isinstance(idx, (astnum.LD, astnum.LDC)): idx = cx.trunc(idx)
        cx.env['file_idx'] = idx
        vals = {}
        for ln, nm, v in wasg:
            if ln > lam.lineno and nm in ('file_ts', 'start_sub_ts'):
                cx.env[nm] = vals[nm] = astnum.ev(v, cx)
        if 'file_ts' not in vals or 'start_sub_ts' not in vals: raise astnum.Unsupported('writer file_ts/start_sub_ts not found')
        for nm, claim in (('writer: file timestamp == floor(floor(k*d/n)/cadence)*cadence', vals['file_ts'] == MF),
                          ('writer: subdirectory timestamp == file timestamp rounded down to the subdirectory cadence', vals['start_sub_ts'] == (MF / sc) * sc)):
            r, m = smt.solve([k >= lo, k <= hi] + cx.cons, [z3.Not(claim)], 60, st)
            out.append((nm, r, m[k].as_long() if r == 'sat' else None))
    # ---- reader: candidate window for a single-sample and a range query
    rasg = [(ln, nm, v) for ln, nm, v in astnum.assignments(rfn)]
    loops = [x for x in ast.walk(rfn) if isinstance(x, ast.For)]
    outer = next((l for l in loops if isinstance(l.iter, ast.Call) and ast.unparse(l.iter.func) == 'range'), None)
    if outer is None: raise astnum.Unsupported('reader subdirectory loop not found')
    s0, s1 = z3.Ints('s0 s1')
    ch = astnum.Choices()
    for run in ch.runs():
        env = _env(n, d, sc, fc, s0, s1)
        cx = astnum.Ctx(run, env, {'s0': (lo, hi), 's1': (lo, hi), 'k': (lo, hi)})
        for ln, nm, v in rasg:
            if ln < outer.lineno and nm in ('start_ts', 'end_ts', 'start_sub_ts', 'end_sub_ts'):
                val = astnum.ev(v, cx)
                if isinstance(val, (astnum.LD, astnum.LDC)): val = cx.trunc(val)
                cx.env[nm] = val
        body_asg = {x.targets[0].id: x.value for x in ast.walk(outer) if isinstance(x, ast.Assign) and isinstance(x.targets[0], ast.Name)}
        ar = next((v for v in body_asg.values() if isinstance(v, ast.Call) and ast.unparse(v.func) in ('np.arange', 'numpy.arange')), None)
        mask = next((v for v in body_asg.values() if isinstance(v, ast.Call) and ast.unparse(v.func) in ('np.logical_and', 'numpy.logical_and')), None)
        fmt = next((v for v in body_asg.values() if isinstance(v, ast.BinOp) and isinstance(v.op, ast.Mod) and isinstance(v.left, ast.Constant) and isinstance(v.left.value, str)), None)
        if ar is None or mask is None or fmt is None or fmt.left.value != '%s@%i.h5': raise astnum.Unsupported('reader loop structure / name format changed')
        arr_name = next(k_ for k_, v in body_asg.items() if v is ar)
        inner = next(l for l in ast.walk(outer) if isinstance(l, ast.For) and l is not outer)
        DIR = (MF / sc) * sc
        a, b, c = (astnum.ev(x, cx) for x in outer.iter.args)
        def body_terms(dir_term, file_term):
            """arange bounds, mask conjuncts and formatted timestamp of the loop body for subdirectory `dir_term` and candidate file `file_term`"""
            cx.env[outer.target.id] = dir_term
            # simple local assignments of the loop body that the arange / mask expressions may refer to (evaluated in source order)
            for st_ in outer.body:
                if isinstance(st_, ast.Assign) and len(st_.targets) == 1 and isinstance(st_.targets[0], ast.Name) and st_.value is not ar and st_.value is not mask and st_.value is not fmt:
                    try: cx.env[st_.targets[0].id] = astnum.ev(st_.value, cx)
                    except astnum.Unsupported: pass
            a2_, b2_, c2_ = (astnum.ev(x, cx) for x in ar.args)
            def evf(node):
                if isinstance(node, ast.Compare):
                    l_, r_ = evf(node.left), evf(node.comparators[0]); op = type(node.ops[0])
                    return {ast.GtE: l_ >= r_, ast.Gt: l_ > r_, ast.LtE: l_ <= r_, ast.Lt: l_ < r_}[op]
                cx.env[arr_name] = file_term; cx.env[inner.target.id] = file_term
                return astnum.ev(node, cx)
            m1_, m2_ = (evf(x) for x in mask.args)
            return a2_, b2_, c2_, m1_, m2_, evf(fmt.right.elts[1])
        a2, b2, c2, m1, m2, p = body_terms(DIR, MF)
        claim = z3.And(a <= DIR, DIR < b, (DIR - a) % c == 0, a2 <= MF, MF < b2, (MF - a2) % c2 == 0, m1, m2, p == MF)
        r, m = smt.solve([s0 >= lo, s0 <= k, k <= s1, s1 <= hi] + cx.cons, [z3.Not(claim)], 120, st)
        out.append(('reader: for s0 <= k <= s1 the file <prefix>@mfile(k).h5 in subdirectory (mfile(k)//sc)*sc is a candidate', r, m[k].as_long() if r == 'sat' else None))
        # tightness: nothing but the files of the range is a candidate (read() treats the first and the last candidate as the edge files whose
        # samples are filtered against the range; an extra candidate in front would leave the real first file unfiltered)
        ii, jj = z3.Ints('ii jj')
        Dv = a + ii * c
        ncons = len(cx.cons)
        a2v, b2v, c2v, m1v, m2v, pv = body_terms(Dv, z3.Int('Tv'))
        Tv = z3.Int('Tv')
        MF0 = (((s0 * d) / n) / fc) * fc; MF1 = (((s1 * d) / n) / fc) * fc
        listed = z3.And(ii >= 0, Dv < b, jj >= 0, Tv == a2v + jj * c2v, Tv < b2v, m1v, m2v)
        r, m = smt.solve([s0 >= lo, s0 <= s1, s1 <= hi] + cx.cons, [listed, z3.Not(z3.And(MF0 <= Tv, Tv <= MF1, pv == Tv))], 120, st)
        out.append(('reader: every candidate file lies between the file of the first and the file of the last requested sample (no extra candidate in front of or behind the range)',
                    r, m[s0].as_long() + 1 if r == 'sat' else None))
        del cx.cons[ncons:]
        a2, b2, c2, m1, m2, p = body_terms(DIR, MF)
        r, m = smt.solve([s0 == k, s1 == k, k >= lo, k <= hi] + cx.cons, [z3.Not(z3.And(cx.env['start_ts'] == MF, cx.env['end_ts'] == MF))], 60, st)
        out.append(('reader: a single-sample query looks in exactly the file the writer uses (start == end == mfile(k))', r, m[k].as_long() if r == 'sat' else None))
    return out


def main(tier):
    rep = common.Report('C13', tier, 'proof', functions=FUNCS)
    st = smt.Stats()
    rep.assume('numpy.longdouble is the x87 80-bit format (64-bit significand, round-to-nearest-even); np.uint64(x) truncates toward zero',
               'h5py / os calls between the numeric expressions are irrelevant to placement')
    rep.outside_claim('rates and cadences outside the listed configurations', 'times outside 1980..2100')
    try:
        wfn = astnum.find_function(PYFILE, 'DigitalMetadataWriter._sample_group_generator')
        rfn = astnum.find_function(PYFILE, 'DigitalMetadataReader._get_file_list')
    except astnum.Unsupported as e:
        rep.ob('placement functions found', 'inconclusive', detail=str(e)); return rep.finish()
    rate_list = rates.QUICK_RATES if tier == 'quick' else rates.thorough_rates(40)
    cads = [(3600, 60), (10, 1), (2, 1), (3600, 3600), (7, 7)] if tier == 'quick' else [(3600, 60), (10, 1), (2, 1), (3600, 3600), (7, 7), (86400, 3600), (100, 5), (1, 1), (60, 20)]
    agg = {}; ncfg = 0; t0 = time.time()
    for (n, d) in rate_list:
        for (sc, fc) in cads:
            if fc * n < d: continue        # fewer than one sample per file
            ncfg += 1
            try:
                res = check_cfg(n, d, sc, fc, st, wfn, rfn)
            except (astnum.Unsupported, StopIteration, KeyError) as e:
                rep.ob('placement expressions translated', 'inconclusive', detail='unsupported syntax: %r' % (e,)); return rep.finish()
            for nm, r, kk in res:
                cur = agg.get(nm)
                if cur is None or (cur[0] == 'unsat' and r != 'unsat'):
                    agg[nm] = (r, (n, d, sc, fc, kk))
    for nm, (r, cfg) in agg.items():
        if r == 'unsat':
            rep.ob(nm, 'discharged', '%d (rate, cadence) configurations x all indices with time in [1980, 2100)' % ncfg, st.queries, time.time() - t0, ncfg,
                   sample={'obligation': nm, 'configurations': ncfg})
        elif r == 'sat':
            rep.violation(nm, 'C13.' + nm.split(':')[0], '%s fails at rate %d/%d, cadences %ds/%ds, index %d' % ((nm,) + cfg[:5]),
                          replay_body=(REPLAY_RANGE if 'every candidate file lies between' in nm else REPLAY) % (cfg,), bounds='rate %d/%d cadence %d/%d' % cfg[:4], sample={'config': cfg})
        else:
            rep.ob(nm, 'inconclusive', detail='solver unknown at %s' % (cfg,))
    rep.extra['solver'] = {'queries': st.queries, 'seconds': round(st.seconds, 2)}
    return rep.finish()
