"""C18 cp / mv / ln transfer exactly the listed set.  CrossHair on the real _run_cp / _run_mv / _run_ln / _parse_srcdest_args with an in-memory
file system and the listing replaced by a stub (which files are listed is C14; same data on the destination is C01 on identical files)."""
from vlib import common, smt, chx

FUNCS = ['list_drf._run_cp', 'list_drf._run_mv', 'list_drf._run_ln', 'list_drf._parse_srcdest_args']
_T = 'with channel option absent, "ch0", "ch0/" or "./ch0": exactly the listed files arrive at dest/<same relative path> with the same content, directories created as needed, nothing else appears, the listing receives the same selection options; '
TITLES = {'_run_cp': 'cp ' + _T + 'source unchanged', '_run_mv': 'mv ' + _T + 'source reduced by exactly the transferred set',
          '_run_ln': 'ln (hard and symbolic) ' + _T + 'source unchanged', '_run_witness': 'reachability: a successful transfer is reachable',
          '_run_cmd': 'cp / mv / ln (hard, symbolic) with channel option absent, "ch0", "ch0/" or "./ch0": exactly the listed files arrive at dest/<same relative path> with the same content, directories created as needed, source unchanged (cp, ln) or reduced by exactly the transferred set (mv), nothing else appears, and the listing receives the same selection options'}
REPLAY = '''
from vlib import build
import os, tempfile, shutil, sys, argparse
drf = build.load_pkg()
from digital_rf import list_drf as L
kw = %r
chs = [[], ['ch0'], ['ch0/'], ['./ch0']][kw.get('ch_style', 0)]
cmd = ['cp', 'mv', 'ln'][kw.get('cmd', 0)]
bad = False
# the same selection options must reach the listing as `drf ls` would use: every option is tried with a value that differs from the others
OPTS = [dict(), dict(include_drf_properties=True, include_dmd_properties=False), dict(include_drf_properties=False, include_dmd_properties=True),
        dict(include_drf=False), dict(include_dmd=False), dict(reverse=True)]
for opts in OPTS:
    top = tempfile.mkdtemp(); src = top + '/s'; dst = top + '/d'
    if kw.get('dest_linked'):
        os.makedirs(top + '/mnt/disk1/archive/d'); os.symlink(top + '/mnt/disk1/archive/d', dst)       # destination reached through a symlinked directory
    chd = src + '/ch0'; os.makedirs(chd + '/2020-01-01T00-00-00'); os.makedirs(chd + '/metadata/2020-01-01T00-00-00')
    open(chd + '/drf_properties.h5', 'w').write('props'); open(chd + '/2020-01-01T00-00-00/rf@1577836810.000.h5', 'w').write('data')
    open(chd + '/metadata/dmd_properties.h5', 'w').write('mprops'); open(chd + '/metadata/2020-01-01T00-00-00/metadata@1577836810.h5', 'w').write('mdata')
    sel = dict(recursive=True, reverse=False, starttime=None, endtime=None, include_drf=True, include_dmd=True, include_drf_properties=None, include_dmd_properties=None)
    sel.update(opts)
    listed = [os.path.relpath(p, src) for p in L.lsdrf(src, **sel)]
    if kw.get('dst_pre') and 'ch0/2020-01-01T00-00-00/rf@1577836810.000.h5' in listed:
        dpre = dst + '/ch0/2020-01-01T00-00-00/rf@1577836810.000.h5'; os.makedirs(os.path.dirname(dpre)); open(dpre, 'w').write('old!')
        t = os.path.getmtime(chd + '/2020-01-01T00-00-00/rf@1577836810.000.h5'); os.utime(dpre, (t + 5, t + 5))
    srcdata = {r: open(os.path.join(src, r)).read() for r in listed}
    before = sorted(os.path.relpath(os.path.join(d_, f), src) for d_, _, fs in os.walk(src) for f in fs)
    a = argparse.Namespace(src=src, dest=dst, chs=[','.join(chs)] if chs else [], func=None, **sel)
    if cmd == 'ln': a.symbolic = bool(kw.get('symbolic'))
    {'cp': L._run_cp, 'mv': L._run_mv, 'ln': L._run_ln}[cmd](a)
    got = sorted(os.path.relpath(os.path.join(d_, f), dst) for d_, _, fs in os.walk(dst + '/') for f in fs)
    if got != sorted(listed): print(opts, 'listed', sorted(listed), 'at destination', got); bad = True
    for r in listed:
        p = os.path.join(dst, r)
        if not os.path.isfile(p): print('destination', r, 'is not a readable file (dangling link?)'); bad = True
        if os.path.isfile(p) and open(p).read() != srcdata[r]: print('destination', r, 'holds', repr(open(p).read()), 'instead of', repr(srcdata[r])); bad = True
    after = sorted(os.path.relpath(os.path.join(d_, f), src) for d_, _, fs in os.walk(src) for f in fs)
    want_after = [r for r in before if not (cmd == 'mv' and r in listed)]
    if after != want_after: print(opts, 'source afterwards', after, 'expected', want_after); bad = True
    shutil.rmtree(top)
sys.exit(1 if bad else 0)
'''


def main(tier):
    rep = common.Report('C18', tier, 'model_checking', functions=FUNCS)
    st = smt.Stats()
    rep.assume('os / shutil replaced by an in-memory file system; ilsdrf replaced by a stub that yields the files below the normalised source path (its selection is C14)')
    rep.outside_claim('argparse wiring in drf_command.py', 'time-window option parsing (util.parse_identifier_to_time)', 'more than 2 files per harness')
    res = chx.run_module('mirror', names=list(TITLES), per_condition_timeout=180 if tier == 'quick' else 900)
    chx.report(rep, res, TITLES, replays={'_run_cmd': lambda kw: REPLAY % (kw,), '_run_cp': lambda kw: REPLAY % (dict(kw, cmd=0),), '_run_mv': lambda kw: REPLAY % (dict(kw, cmd=1),), '_run_ln': lambda kw: REPLAY % (dict(kw, cmd=2),)},
               sigs={k: 'C18.run_cmd' for k in TITLES})
    return rep.finish()
