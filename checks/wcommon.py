"""Shared configuration sets and reporting for the properties decided on the write-path harness (C01, C02, C05, C06, C07, C19)."""
import time
from vlib import wrun, wpath, build, smt, envstubs, kernels
from vlib.llsym import Module

BIGV = 2**31

MODES = [('gapped', 0, 1), ('cont-chunked', 1, 1), ('cont', 1, 0)]


def call(ilen, max_files=None, maxv=BIGV, **kw):
    c = dict(ilen=ilen, maxv=maxv, maxg=2**32 - 1)
    if max_files: c['max_files'] = max_files
    c.update(kw)
    return c


def valid_specs(tier, modes=MODES):
    """histories of valid calls on a fresh channel, abstract (rate-independent) file windows"""
    S = []
    def add(name, cont, chunk, calls, cost=1, **kw):
        S.append(dict(name=name, n=1, d=1, sc=1, fc=1000, cont=cont, chunk=chunk, calls=calls, cost=cost, **kw))
    for mname, cont, chunk in modes:
        add('%s: 1 call, 1 block, <=3 files' % mname, cont, chunk, [call(1)], 1)
        add('%s: 2 calls, 1 block each, <=2 files each' % mname, cont, chunk, [call(1, 2), call(1, 2)], 3)
        add('%s: C API digital_rf_write_hdf5 x2, <=2 files each' % mname, cont, chunk, [call(1, 2), call(1, 2)], 3, api='single')
        add('%s: 3 calls into one file (1 block, %s, 1 block)' % (mname, '2 blocks' if not cont else '1 block'), cont, chunk,
            [call(1, 1), call(2 if not cont else 1, 1), call(1, 1)], 4)
        if not cont:
            add('%s: 1 call, 2 blocks, <=3 files' % mname, cont, chunk, [call(2)], 2)
            add('%s: 1 call, 3 blocks, <=2 files' % mname, cont, chunk, [call(3, 2)], 6)
            add('%s: 2 blocks then 1 block, <=2 files each' % mname, cont, chunk, [call(2, 2), call(1, 2)], 10)
            add('%s: complex, 3 subchannels, 8-byte elements, 2 blocks, <=2 files' % mname, cont, chunk, [call(2, 2)], 2, cplx=1, nsub=3, tsize=8)
        if tier == 'thorough':
            if cont: add('%s: 3 calls, <=2 files each' % mname, cont, chunk, [call(1, 2), call(1, 2), call(1, 2)], 30)
            add('%s: 2 calls, 1 block each, <=3 files each' % mname, cont, chunk, [call(1, 3), call(1, 3)], 10)
            if not cont:
                add('%s: 1 block then 2 blocks, <=2 files each' % mname, cont, chunk, [call(1, 2), call(2, 2)], 12)
                add('%s: 2 blocks twice, <=2 files each' % mname, cont, chunk, [call(2, 2), call(2, 2)], 40)
                add('%s: 1 call, 3 blocks, <=3 files' % mname, cont, chunk, [call(3, 3)], 30)
                add('%s: 3 calls, 1 block each, <=2 files each' % mname, cont, chunk, [call(1, 2), call(1, 2), call(1, 2)], 12)
            else:
                add('%s: 1 call, <=4 files' % mname, cont, chunk, [call(1, 4)], 2)
    # W2, inductive step: ONE call from ANY state satisfying the representation invariant Inv_W (a file is open; see wpath.install_open_state);
    # together with the obligation that every accepted call re-establishes Inv_W this covers call number k of a history of any length
    for mname, cont, chunk in modes:
        add('%s: any Inv_W state, 1 call, 1 block, <=3 files' % mname, cont, chunk, [call(1)], 2, pre='open')
        add('%s: any Inv_W state, C API digital_rf_write_hdf5, <=3 files' % mname, cont, chunk, [call(1)], 2, pre='open', api='single')
        if not cont:
            add('%s: any Inv_W state, 1 call, 2 blocks, <=3 files' % mname, cont, chunk, [call(2)], 4, pre='open')
            add('%s: any Inv_W state, 1 call, 3 blocks, <=2 files' % mname, cont, chunk, [call(3, 2)], 10, pre='open')
            add('%s: any Inv_W state, complex, 3 subchannels, 8-byte elements, 2 blocks, <=2 files' % mname, cont, chunk, [call(2, 2)], 3, pre='open', cplx=1, nsub=3, tsize=8)
        if tier == 'thorough':
            add('%s: any Inv_W state, 1 call, 1 block, <=4 files' % mname, cont, chunk, [call(1, 4)], 4, pre='open')
            add('%s: any Inv_W state, 2 calls, 1 block each, <=2 files each' % mname, cont, chunk, [call(1, 2), call(1, 2)], 10, pre='open')
            if not cont:
                add('%s: any Inv_W state, 1 call, 3 blocks, <=3 files' % mname, cont, chunk, [call(3, 3)], 40, pre='open')
                add('%s: any Inv_W state, 1 call, 4 blocks, <=2 files' % mname, cont, chunk, [call(4, 2)], 40, pre='open')
    # regular-window twins (rate m Hz, 1 s files, 2 s subdirs): every path yields a concrete history that is replayed on the real build
    for mname, cont, chunk in modes:
        for m in ((2, 5) if tier == 'quick' else (1, 2, 5)):
            reg = dict(m=m, fc=1000, sc=2)
            if cont:
                add('%s: regular windows m=%d, 2 calls' % (mname, m), cont, chunk, [call(1, 2, maxv=3 * m), call(1, 2, maxv=3 * m)], 3,
                    window_regular=reg, witness=25, start_lo=10**9 * m, start_hi=4 * 10**9 * m)
            else:
                add('%s: regular windows m=%d, 2 blocks then 1' % (mname, m), cont, chunk, [call(2, 2, maxv=3 * m), call(1, 2, maxv=3 * m)], 10,
                    window_regular=reg, witness=40, start_lo=10**9 * m, start_hi=4 * 10**9 * m)
    return S


def gate(rep, st):
    """the abstraction used by the harness is licensed by C04's lemmas, re-proved here on the same tree"""
    from checks import C04
    mod = Module(build.c_ir()); stubs = envstubs.mk_stubs()
    kp = kernels.prove_time_kernels(mod, stubs, st, 60)
    ok = kp['ok']
    t0 = time.time(); q0 = st.queries
    det = ''
    if ok:
        try:
            res, info, ex = C04.kernel_obligations(mod, stubs, dict(n=None, d=None, sc=None, fc=None, tlo=0, thi=253402300800 - 2 * 10**8), st, 60)
            bad = [nm for nm, r, _, _ in res if r != 'unsat']
            pres = C04.partition_lemma(None, st, 60)
            bad += [nm for nm, r, _, _ in pres if r != 'unsat']
            ok = not bad; det = '; '.join(bad[:3])
        except Exception as e:
            ok = False; det = str(e)
    rep.ob('gate: digital_rf_get_subdir_file == layout spec and file windows partition the sample axis (C04 lemmas, all rates/cadences)',
           'discharged' if ok else 'inconclusive', 'all rates n/d, cadences, indices; time < year 9999', st.queries - q0, time.time() - t0, 3,
           detail=None if ok else 'layout lemmas not proved on this tree (%s): the write-path abstraction is not licensed' % det)
    return ok


SESSION_OBLIGATIONS = ('data file is created exclusively', 'a data file is created only if its final name', 'a tmp file is renamed only onto',
                       'a write that would need a file period', 'the existing finalized file', 'such a refusal is not a fatal', 'after a refused period')

REPLAY_SESSION = '''
from vlib import build, refmodel
import numpy as np, tempfile, os, shutil, sys, glob, hashlib
top = tempfile.mkdtemp(prefix='tmp.drf_'); ch = os.path.join(top, 'ch'); os.makedirs(ch)
cfg = dict(n=10, d=1, sc=3600, fc=1000, start=10**10)
def session(start_rel, n, cont, again=False):
    rw = refmodel.RealWriter(build, ch, cfg['n'], cfg['d'], cfg['sc'], cfg['fc'], cfg['start'], cont)
    if not rw.obj: return 'NULL'
    r = rw.write_blocks([start_rel], [0], (np.arange(n, dtype=np.int16) + 100).reshape(-1, 1))
    if again: r = (r, rw.write_blocks([start_rel + 1], [0], (np.arange(3, dtype=np.int16) + 100).reshape(-1, 1)))[0 if r == 0 else 1]      # a second write into the same period
    r2 = rw.write_blocks([start_rel + 50], [0], (np.arange(5, dtype=np.int16) + 200).reshape(-1, 1))
    rw.close(); return (r, r2)
bad = 0
for cont, again in ((0, False), (1, False), (0, True), (1, True)):
    shutil.rmtree(ch, ignore_errors=True); os.makedirs(ch)
    print('cont', cont, 'session 1', session(0, 25, cont))
    h0 = {f: hashlib.md5(open(f, 'rb').read()).hexdigest() for f in glob.glob(os.path.join(ch, '*', 'rf@*.h5'))}
    r = session(12, 5, cont, again)            # would need the finalized period 1 (samples 10..19), once or twice in a row
    print('cont', cont, 'session 2', r)
    h1 = {f: (hashlib.md5(open(f, 'rb').read()).hexdigest() if os.path.exists(f) else None) for f in h0}
    if h1 != h0: print('a finalized file of session 1 changed or vanished'); bad = 1
    if r == 'NULL' or r[0] == 0: print('write into a finalized period was accepted'); bad = 1
    if r != 'NULL' and r[1] != 0: print('writer not usable for a later free period after the refusal:', r); bad = 1
    if glob.glob(os.path.join(ch, '*', 'tmp.*')): print('tmp file left behind'); bad = 1
shutil.rmtree(top)
sys.exit(1 if bad else 0)
'''


REPLAY_ATTRS = '''
# per-file attributes must repeat the channel parameters exactly, whatever their magnitude (each parameter is a 64-bit / int field of the API)
from vlib import build, refmodel
import numpy as np, tempfile, os, shutil, sys, glob
import h5py
bad = 0
for (n, d, sc, fc, cont, cplx, nsub) in ((2**32 + 5, 10**9, 2**33, 1000, 0, 0, 1), (10, 7, 2**33, 2**33 * 1000, 0, 1, 3), (2**33 + 1, 999999937, 86400, 1000, 1, 0, 2)):
    top = tempfile.mkdtemp(prefix='tmp.drf_'); ch = os.path.join(top, 'ch'); os.makedirs(ch)
    start = 10**9 * n // d + 1
    rw = refmodel.RealWriter(build, ch, n, d, sc, fc, start, cont, cplx=cplx, nsub=nsub)
    if not rw.obj: print('writer refused', (n, d, sc, fc)); shutil.rmtree(top); continue
    r = rw.write_blocks([0], [0], np.zeros((2, nsub * (2 if cplx else 1)), dtype=np.int16)); rw.close()
    want = dict(sample_rate_numerator=n, sample_rate_denominator=d, subdir_cadence_secs=sc, file_cadence_millisecs=fc, is_continuous=cont, is_complex=cplx,
                num_subchannels=nsub, sequence_num=0)
    files = glob.glob(os.path.join(ch, '*', 'rf@*.h5')) + [os.path.join(ch, 'drf_properties.h5')]
    if r != 0 or len(files) < 2: print('write failed', r, files); bad = 1
    for f in files:
        with h5py.File(f, 'r') as h:
            a = h['rf_data'].attrs if 'rf_data' in h else h.attrs
            for k, v in want.items():
                if k == 'sequence_num' and 'rf_data' not in h: continue
                got = int(np.asarray(a[k]).ravel()[0]) if k in a else None
                if got != v: print('%s: attribute %s == %r, channel parameter %r' % (os.path.basename(f), k, got, v)); bad = 1
    shutil.rmtree(top)
sys.exit(1 if bad else 0)
'''


REPLAY_STALE = '''
from vlib import build, refmodel
import numpy as np, tempfile, os, shutil, sys, glob, hashlib
import h5py
top = tempfile.mkdtemp(prefix='tmp.drf_'); ch = os.path.join(top, 'ch')
cfg = dict(n=10, d=1, sc=3600, fc=1000, start=10**10)
bad = 0
for cont in (0, 1):
  for second in (False, True):
    for case in ('stale tmp in a free period', 'stale tmp next to its finalized file'):
        shutil.rmtree(ch, ignore_errors=True); os.makedirs(ch)
        # session 1 finalizes period 0 (samples 0..9); a killed recorder left garbage under a tmp. name
        rw = refmodel.RealWriter(build, ch, cfg['n'], cfg['d'], cfg['sc'], cfg['fc'], cfg['start'], cont)
        rw.write_blocks([0], [0], np.arange(5, dtype=np.int16).reshape(-1, 1)); rw.close()
        fin = glob.glob(os.path.join(ch, '*', 'rf@*.h5'))[0]; sub = os.path.dirname(fin)
        h0 = hashlib.md5(open(fin, 'rb').read()).hexdigest()
        k = 1 if case.startswith('stale tmp in') else 0
        open(os.path.join(sub, 'tmp.rf@%d.000.h5' % (10**9 + k)), 'wb').write(b'garbage of a killed recorder')
        # session 2 starts inside the period of the stale file, then closes
        rw = refmodel.RealWriter(build, ch, cfg['n'], cfg['d'], cfg['sc'], cfg['fc'], cfg['start'], cont)
        r1 = rw.write_blocks([10 * k + 2], [0], (np.arange(3, dtype=np.int16) + 100).reshape(-1, 1)) if rw.obj else 'NULL'
        r2 = rw.write_blocks([10 * k + 6], [0], (np.arange(2, dtype=np.int16) + 200).reshape(-1, 1)) if (rw.obj and second) else None
        if rw.obj: rw.close()
        if hashlib.md5(open(fin, 'rb').read()).hexdigest() != h0: print('cont=%d, %s: the finalized file of session 1 changed (writes returned %r, %r)' % (cont, case, r1, r2)); bad = 1
        for f in sorted(glob.glob(os.path.join(ch, '*', 'rf@*.h5'))):
            try:
                with h5py.File(f, 'r') as h: h['rf_data'].shape
            except Exception as e:
                print('cont=%d, %s: final-named file %s is not a valid data file (%s); writes returned %r, %r' % (cont, case, os.path.basename(f), type(e).__name__, r1, r2)); bad = 1
shutil.rmtree(top)
sys.exit(1 if bad else 0)
'''


def run_all_bodies(bodies):
    """a replay made of several scenario scripts: reproduces (exit 1) if any of them does"""
    return ('import subprocess, sys, os, tempfile\nbodies = %r\nrc = 0\n'
            'for body in bodies:\n'
            '    f = tempfile.NamedTemporaryFile("w", suffix=".py", delete=False); f.write("import sys; sys.path.insert(0, %r)\\n" + body); f.close()\n'
            '    r = subprocess.call([sys.executable, f.name]); os.unlink(f.name)\n'
            '    if r == 1: rc = 1\n'
            '    elif r != 0 and rc == 0: rc = 3\n'
            'sys.exit(rc)\n') % (list(bodies), '/verif')


def report(rep, specs, results, select, sigmap=None, label='write path'):
    """fold per-configuration results into obligations of `rep`.  select(name) -> bool chooses the obligations of this property."""
    by_ob = {}
    tot = dict(paths=0, q=0, s=0.0, cut=0)
    errors = []
    for sp, r in zip(specs, results):
        tot['paths'] += r['paths']; tot['q'] += r['queries']; tot['s'] += r['solver_s']; tot['cut'] += r.get('cut_paths', 0)
        if r['error']:
            errors.append((sp['name'], r['error']))
        for nm, (v, m) in r['results'].items():
            if not select(nm): continue
            by_ob.setdefault(nm, []).append((sp, v, m, r['counts'].get(nm, 0)))
    for name, err in errors:
        rep.ob('%s configuration "%s" explored completely' % (label, name), 'inconclusive', detail=err[-300:])
    for nm, lst in by_ob.items():
        bad = [(sp, v, m) for sp, v, m, _ in lst if v != 'unsat']
        npaths = sum(c for _, _, _, c in lst)
        if not bad:
            rep.ob(nm, 'discharged', '%d configurations (modes x call histories; <=3 blocks, <=3 files per call; all rates/cadences via window abstraction)' % len(lst),
                   0, 0, npaths, sample={'obligation': nm, 'configurations': [sp['name'] for sp, _, _, _ in lst][:4]})
            continue
        sp, v, m = bad[0]
        if v == 'unknown':
            rep.ob(nm, 'inconclusive', detail='solver unknown in "%s"' % sp['name']); continue
        # a counterexample in the abstraction: realise it with regular windows and run it on the real build
        if sp.get('window_regular'):
            reg = sp['window_regular']; pm = m if 'calls' in m else m.get('model')
            real = (dict(n=reg['m'], d=1, sc=reg['sc'], fc=reg['fc'], start=pm['start'], cont=sp['cont'], chunk=sp['chunk']),
                    [dict(g=c['g'], b=c['b'], vlen=c['vlen']) for c in pm['calls']]) if pm else None
        else:
            real = wrun.realise(sp, nm)
        sig = (sigmap or {}).get(nm, 'W1.' + nm[:40])
        if nm.startswith(('a file is renamed tmp.X -> X only after', 'close releases the open file')):
            # order of close and rename: observed on the real build under strace
            from checks import C02
            rep.violation(nm, sig, 'fails in "%s": %s' % (sp['name'], str(m)[:300]), replay_body=C02.STRACE_REPLAY, bounds=sp['name'], sample={'model': str(m)[:400]})
            continue
        if nm.startswith('each data file carries exactly the 19'):
            rep.violation(nm, sig, 'fails in "%s": %s' % (sp['name'], str(m)[:300]), replay_body=REPLAY_ATTRS, bounds=sp['name'], sample={'model': str(m)[:400]})
            continue
        if nm.startswith('only files this writer created and closed'):
            from checks import readerside
            rep.violation(nm, sig, 'fails in "%s": %s' % (sp['name'], str(m)[:300]), replay_body=run_all_bodies([REPLAY_STALE, REPLAY_SESSION]), bounds=sp['name'], sample={'model': str(m)[:400]})
            continue
        if nm.startswith(SESSION_OBLIGATIONS):
            # obligations about files of an earlier session: replayed as a two-session recording on the real build
            rep.violation(nm, sig, 'fails in "%s": %s' % (sp['name'], str(m)[:300]), replay_body=REPLAY_SESSION, bounds=sp['name'], sample={'model': str(m)[:400]})
            continue
        if real is None:
            rep.ob(nm, 'inconclusive', detail='counterexample in "%s" under the window abstraction could not be realised with regular windows: %s' % (sp['name'], str(m)[:300]))
        else:
            rep.violation(nm, sig, 'fails in "%s"; history %s on config %s' % (sp['name'], real[1], real[0]),
                          replay_body=wrun.REPLAY_BODY % (real[0], real[1]), bounds=sp['name'], sample={'config': real[0], 'history': real[1]})
    # vacuity guard of the inductive step: the symbolic Inv_W pre-state must reach every kind of continuation
    ind = [(sp, r) for sp, r in zip(specs, results) if sp.get('pre') == 'open' and sp.get('checker', 'valid') == 'valid' and select(wpath.INV_NAME)]
    if ind:
        for (cont, chunk) in sorted(set((sp['cont'], sp['chunk']) for sp, _ in ind)):
            reach = {}
            for sp, r in ind:
                if (sp['cont'], sp['chunk']) == (cont, chunk):
                    for k_, v_ in (r.get('reach') or {}).items(): reach[k_] = reach.get(k_, 0) + v_
            want = ['step continues the file that was open before the call', 'step fills the open file and rolls over to a new one',
                    'step leaves the open file untouched and starts a later file', 'the file that was open before the call is finalized (renamed)']
            if chunk: want.append('step appends index rows to the file that was open before the call')
            missing = [w_ for w_ in want if not reach.get(w_)]
            mode = 'gapped' if not cont else ('cont-chunked' if chunk else 'cont')
            rep.ob('inductive step is not vacuous (%s): paths from the symbolic Inv_W state continue the open file, roll over, skip to a later file, and '
                   'finalize the open file' % mode, 'witness' if not missing else 'inconclusive', None, 0, 0, sum(reach.values()),
                   detail=None if not missing else 'not reached: %s' % missing)
    return tot


def reject_specs(tier, modes=MODES):
    """zero or one valid call followed by ONE arbitrary call (block arrays not assumed well formed), fresh channel"""
    S = []
    def add(name, cont, chunk, calls, cost=1, **kw):
        kw.setdefault('checker', 'reject')
        S.append(dict(name=name, n=1, d=1, sc=1, fc=1000, cont=cont, chunk=chunk, calls=calls, cost=cost, **kw))
    arb = lambda L, mf=2, **kw: call(L, mf, valid=False, minv=1, **kw)
    for mname, cont, chunk in modes:
        add('%s: arbitrary 1-block call on a fresh writer' % mname, cont, chunk, [arb(1)], 1)
        add('%s: arbitrary 2-block call on a fresh writer' % mname, cont, chunk, [arb(2)], 3)
        add('%s: valid call, then arbitrary 1-block call' % mname, cont, chunk, [call(1, 2), arb(1)], 4)
        add('%s: valid call, then arbitrary 2-block call' % mname, cont, chunk, [call(1, 2), arb(2)], 10)
        add('%s: valid call, then NULL data pointer' % mname, cont, chunk, [call(1, 2), arb(1, null_vector=True)], 2)
        add('%s: C API digital_rf_write_hdf5: valid call then arbitrary index' % mname, cont, chunk, [call(1, 2), arb(1)], 4, api='single')
        add('%s: valid call, then zero-length call with arbitrary arrays' % mname, cont, chunk, [call(1, 2), call(2 if not cont else 1, 2, valid=False, minv=0, maxv=0)], 2,
            checker='zero')
        # inductive step (see valid_specs): an arbitrary call from ANY Inv_W state
        add('%s: any Inv_W state, arbitrary 1-block call' % mname, cont, chunk, [arb(1)], 2, pre='open')
        add('%s: any Inv_W state, arbitrary 2-block call' % mname, cont, chunk, [arb(2)], 6, pre='open')
        add('%s: any Inv_W state, NULL data pointer' % mname, cont, chunk, [arb(1, null_vector=True)], 1, pre='open')
        add('%s: any Inv_W state, C API digital_rf_write_hdf5 with an arbitrary index' % mname, cont, chunk, [arb(1)], 2, pre='open', api='single')
        add('%s: any Inv_W state, zero-length call with arbitrary arrays' % mname, cont, chunk, [call(2 if not cont else 1, 2, valid=False, minv=0, maxv=0)], 1,
            checker='zero', pre='open')
        if tier == 'thorough':
            add('%s: any Inv_W state, arbitrary 3-block call' % mname, cont, chunk, [arb(3)], 30, pre='open')
        if tier == 'thorough':
            add('%s: arbitrary 3-block call on a fresh writer' % mname, cont, chunk, [arb(3)], 20)
            add('%s: valid 2-block call, then arbitrary 2-block call' % mname, cont, chunk, [call(2 if not cont else 1, 2), arb(2)], 40)
            add('%s: valid, valid, arbitrary 1-block' % mname, cont, chunk, [call(1, 2), call(1, 2), arb(1)], 40)
    return S


def fault_specs(tier, modes=MODES):
    from vlib import wcheck
    S = []
    def add(name, cont, chunk, calls, cost=1, **kw):
        S.append(dict(name=name, n=1, d=1, sc=1, fc=1000, cont=cont, chunk=chunk, calls=calls, cost=cost, checker='fault', getters=False, **kw))
    for mname, cont, chunk in modes:
        for sched, fn in (('one call fails once', wcheck.fault_once), ('every call from a point on fails', wcheck.fault_persistent)):
            if tier == 'quick' and fn is wcheck.fault_persistent and cont: continue      # quick: persistent schedule for gapped mode only
            if tier == 'quick':
                add('%s: 2 calls (<=2 files, then 1 file) + close; %s' % (mname, sched), cont, chunk, [call(1, 2), call(1, 1)], 10, fault=fn)
            if tier == 'thorough':
                add('%s: 2 calls (<=2 files each) + close; %s' % (mname, sched), cont, chunk, [call(1, 2), call(1, 2)], 30, fault=fn)
                add('%s: 3 calls (<=2 files, then 1 file each) + close; %s' % (mname, sched), cont, chunk, [call(1, 2), call(1, 1), call(1, 1)], 60, fault=fn, budget_s=2400)
                if not cont: add('%s: 2 blocks then 1 block + close; %s' % (mname, sched), cont, chunk, [call(2, 2), call(1, 2)], 60, fault=fn)
            # inductive step: the fault strikes during call number k (or the close) of a history of any length: 2 calls + close from ANY Inv_W state
            add('%s: any Inv_W state, 2 calls (<=2 files, then 1 file) + close; %s' % (mname, sched), cont, chunk, [call(1, 2), call(1, 1)], 12, fault=fn, pre='open')
    return S


def session_specs(tier, modes=MODES):
    S = []
    def add(name, cont, chunk, calls, cost=1, **kw):
        S.append(dict(name=name, n=1, d=1, sc=1, fc=1000, cont=cont, chunk=chunk, calls=calls, cost=cost, checker='session', fresh=False, getters=False, **kw))
    for mname, cont, chunk in modes:
        add('%s: later session, 2 calls (<=2 files, then 1 file), any finalized file may already exist' % mname, cont, chunk, [call(1, 2), call(1, 1)], 10)
        add('%s: later session after a kill, 1 call (<=2 files) then close, any finalized file and any stale tmp. file may already exist' % mname, cont, chunk,
            [call(1, 2)], 4, stale_tmp=True)
        if tier == 'thorough': add('%s: later session, 2 calls (<=2 files each)' % mname, cont, chunk, [call(1, 2), call(1, 2)], 40)
        if tier == 'thorough': add('%s: later session after a kill, 2 calls (<=2 files, then 1 file), stale tmp. files may exist' % mname, cont, chunk, [call(1, 2), call(1, 1)], 40, stale_tmp=True)
        if tier == 'thorough' and not cont:
            add('%s: later session, 2 blocks then 1 block' % mname, cont, chunk, [call(2, 2), call(1, 2)], 40)
    return S
