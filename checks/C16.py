"""C16 Ringbuffer deletes only what it must, oldest first, with exact accounting.
E-CH: CrossHair on the real handler classes produced by the factory (size / count / duration mixins), records injected directly, deletion
rule checked at the single deletion point; E-RX: the handler's path filter never matches properties files or tmp. files."""
import time
import z3
from vlib import common, smt, chx, rx, chload

FUNCS = ['DigitalRFRingbuffer._verify_ringbuffer_files', 'DigitalRFRingbufferHandlerBase._add_record/_modify_record/_remove_record/_add_to_queue/_expire_oldest_from_group',
         'CountExpirer._expire', 'SizeExpirer._add_to_queue/_remove_from_queue/_expire/_expire_oldest/_modify_record', 'TimeExpirer._expire',
         'DigitalRFRingbufferHandler (factory)']

REPLAY = '''
from vlib import build
import os, sys, tempfile, shutil
drf = build.load_pkg()
from digital_rf import ringbuffer as RB
kw, limits, ops_fixed = %r, %r, %r
top = tempfile.mkdtemp()
names = [('ch0', 10), ('ch0', 11), ('ch1', 11), ('ch1', 13)]
paths = []
for ch, t in names:
    d = os.path.join(top, ch, '2020-01-01T00-00-00'); os.makedirs(d, exist_ok=True)
    paths.append(os.path.join(d, 'rf@%%d.000.h5' %% t))
size = kw.get('size') if 'size' in limits else None; count = kw.get('count') if 'count' in limits else None
duration = kw.get('duration') if 'duration' in limits else None
h = RB.DigitalRFRingbufferHandler(size=size, count=count, duration=duration)
ops = [(kw['k1'], kw['f1'], kw.get('s1', 10)), (kw['k2'], kw['f2'], kw.get('s2', 10))] + [(o[0], o[1], kw.get('s3', 10)) for o in ops_fixed]
bad = 0
for (k, f, s) in ops:
    p = paths[min(f, 3)]
    if k in (0, 1):
        open(p, 'wb').write(b'x' * s)
        (h.add_files if k == 0 else h.modify_files)([p])
    else:
        h.remove_files([p])
    tracked = sorted(h.records)
    inq = sorted(pp for q in h.queues.values() for (_k, pp) in q)
    truth = sum(os.stat(pp).st_size for pp in tracked if os.path.exists(pp))
    if inq != tracked: print('queues and records disagree', inq, tracked); bad = 1
    if hasattr(h, 'active_size') and h.active_size != sum(r.size for r in h.records.values()):
        print('active_size %%d != sum of tracked sizes %%d after %%s' %% (h.active_size, sum(r.size for r in h.records.values()), (k, f, s))); bad = 1
    for q in h.queues.values():
        ks = [kk for kk, _ in q]
        if ks != sorted(ks): print('queue not in time order'); bad = 1
        if k != 2 and count is not None and len(q) > count: print('count limit exceeded after handling'); bad = 1
        if k != 2 and duration is not None and len(q) > 0 and q[-1][0] - q[0][0] > duration: print('duration limit exceeded after handling', (k, f, s)); bad = 1
    if k != 2 and size is not None and truth > size: print('size limit %%d exceeded after a reported file was handled: %%d bytes tracked on disk' %% (size, truth), (k, f, s)); bad = 1
    on_disk = sorted(pp for pp in paths if os.path.exists(pp))
    if any(pp not in on_disk for pp in tracked): print('tracked file missing on disk'); bad = 1
shutil.rmtree(top)
sys.exit(1 if bad else 0)
'''


REPLAY_MOVED = '''
from vlib import build
import os, sys, tempfile, shutil
drf = build.load_pkg()
from digital_rf import ringbuffer as RB
from watchdog.events import FileMovedEvent
kw = %r
top = tempfile.mkdtemp()
names = [('ch0', 10), ('ch0', 11), ('ch1', 11), ('ch1', 13)]
paths = []
for ch, t in names:
    d = os.path.join(top, ch, '2020-01-01T00-00-00'); os.makedirs(d, exist_ok=True)
    paths.append(os.path.join(d, 'rf@%%d.000.h5' %% t))
h = RB.DigitalRFRingbufferHandler(size=kw.get('size'), count=kw.get('count'))
def put(p, s): open(p, 'wb').write(b'x' * s)
f1, f2, fm = kw['f1'], kw['f2'], kw['fm']
put(paths[f1], kw.get('s1', 10)); (h.modify_files if kw.get('k1') == 1 else h.add_files)([paths[f1]])
put(paths[f2], kw.get('s2', 10)); h.add_files([paths[f2]])
src = paths[fm]; dst = paths[kw['fd']] if 'fd' in kw else (paths[(fm + 1) %% 4] if fm < 3 else paths[0])
if os.path.exists(src): os.replace(src, dst)
else: put(dst, kw.get('s2', 10))
before = sorted(p for p in paths if os.path.exists(p))
attempts = []
_rm = os.remove
class OSProxy:
    def __getattr__(self, k): return getattr(os, k)
    def remove(self, p): attempts.append((p, os.path.exists(p))); return _rm(p)
RB.os = OSProxy()
h.on_moved(FileMovedEvent(src, dst))
after = sorted(p for p in paths if os.path.exists(p))
gone = [p for p in before if p not in after]
bad = 0
for p, there in attempts:
    if not there: print('the handler tried to delete', os.path.basename(p), 'which does not exist: its books deviate from the files on disk'); bad = 1
if gone:
    # was any limit exceeded by the files that existed?
    per = {}
    for p in before: per.setdefault(os.path.dirname(p), []).append(p)
    over = (kw.get('count') is not None and any(len(v) > kw['count'] for v in per.values())) or (kw.get('size') is not None and sum(os.path.getsize(p) for p in before) > kw['size'])
    print('deleted', [os.path.basename(g) for g in gone], 'limit exceeded by existing files:', over); bad = bad or not over
shutil.rmtree(top)
sys.exit(1 if bad else 0)
'''


REPLAY_VERIFY = '''
from vlib import build
import os, sys, tempfile, shutil
drf = build.load_pkg()
from digital_rf import ringbuffer as RB
kw = %r
top = tempfile.mkdtemp()
names = [('ch0', 10), ('ch0', 11), ('ch1', 11), ('ch1', 13)]
paths = []
for ch, t in names:
    d = os.path.join(top, ch, '2020-01-01T00-00-00'); os.makedirs(d, exist_ok=True)
    if not os.path.exists(os.path.join(top, ch, 'drf_properties.h5')): open(os.path.join(top, ch, 'drf_properties.h5'), 'w').close()
    paths.append(os.path.join(d, 'rf@%%d.000.h5' %% (1577836800 + t)))
def put(p, n): open(p, 'wb').write(b'x' * n)
inb = [kw.get('i%%d' %% i, False) for i in range(4)]; ond = [kw.get('o%%d' %% i, False) for i in range(4)]
s_old, s_new = kw.get('s_old', 10), kw.get('s_new', 10)
rb = RB.DigitalRFRingbuffer.__new__(RB.DigitalRFRingbuffer)
rb.path = top; rb.starttime = None; rb.endtime = None; rb.include_drf = True; rb.include_dmd = True
rb.event_handler = RB.DigitalRFRingbufferHandler(size=kw.get('size'), count=kw.get('count'))
for i in range(4):
    if inb[i]: put(paths[i], s_old); rb.event_handler.add_files([paths[i]])
pre_gone = [p for i, p in enumerate(paths) if inb[i] and not os.path.exists(p)]
# the observer is down: files change, appear and vanish unnoticed; then it restarts and the ringbuffer is re-verified
for i in range(4):
    if ond[i]: put(paths[i], s_new)
    elif os.path.exists(paths[i]): os.remove(paths[i])
before = [p for p in paths if os.path.exists(p)]
per = {}
for p in before: per.setdefault(os.path.dirname(p), []).append(p)
over = (kw.get('count') is not None and any(len(v) > kw['count'] for v in per.values())) or (kw.get('size') is not None and sum(os.path.getsize(p) for p in before) > kw['size'])
rb._verify_ringbuffer_files(set(rb.event_handler.records.keys()))
after = [p for p in paths if os.path.exists(p)]
bad = 0
if pre_gone: print('pre-state already over the limit: nothing to show'); shutil.rmtree(top); sys.exit(0)
if len(after) < len(before) and not over: print('re-verification deleted', [os.path.basename(p) for p in before if p not in after], 'although the files on disk (%%d bytes in %%d files) are within the limits' %% (sum(os.path.getsize(p) for p in after) + 0, len(before))); bad = 1
if sorted(rb.event_handler.records.keys()) != sorted(after): print('tracked', sorted(os.path.basename(p) for p in rb.event_handler.records), 'on disk', sorted(os.path.basename(p) for p in after)); bad = 1
if kw.get('size') is not None and rb.event_handler.active_size != sum(os.path.getsize(p) for p in after): print('active_size', rb.event_handler.active_size, 'bytes on disk', sum(os.path.getsize(p) for p in after)); bad = 1
shutil.rmtree(top)
sys.exit(1 if bad else 0)
'''


REPLAY_TWINS = '''
from vlib import build
import os, sys, tempfile, shutil
drf = build.load_pkg()
from digital_rf import ringbuffer as RB
kw = %r
top = tempfile.mkdtemp()
rel = ['ch0/2020-01-01T00-00-00/rf@10.000.h5', 'ch0/2020-01-01T01-00-00/rf@10.000.h5', 'ch0/2020-01-01T00-00-00/rf@9.000.h5', 'ch0/2020-01-01T01-00-00/rf@12.000.h5']
paths = [os.path.join(top, r) for r in rel]
for p in paths: os.makedirs(os.path.dirname(p), exist_ok=True)
h = RB.DigitalRFRingbufferHandler(size=kw.get('size', 300))
bad = 0
ops = [(kw.get('k%%d' %% i, 0), kw.get('f%%d' %% i, 0), kw.get('s1', 10) if i %% 2 else kw.get('s2', 10)) for i in (1, 2, 3, 4)]      # k1 = k2 = 0 (adds)
for (k, f, s) in ops:
    p = paths[min(f, 3)]
    try:
        if k in (0, 1):
            open(p, 'wb').write(b'x' * s); (h.add_files if k == 0 else h.modify_files)([p])
        else:
            if os.path.exists(p): os.remove(p)
            h.remove_files([p])
    except Exception as e:
        print('notification', (k, f, s), 'raised', type(e).__name__, e); bad = 1; break
    tracked = sorted(h.records); inq = sorted(pp for q in h.queues.values() for (_k, pp) in q)
    on_disk = sorted(pp for pp in paths if os.path.exists(pp)); truth = sum(os.path.getsize(pp) for pp in on_disk)
    if inq != tracked: print('after', (k, f, s), 'queues hold', [os.path.relpath(x, top) for x in inq], 'records hold', [os.path.relpath(x, top) for x in tracked]); bad = 1
    if any(pp not in on_disk for pp in tracked): print('tracked file missing on disk'); bad = 1
    if h.active_size != sum(os.path.getsize(pp) for pp in tracked if os.path.exists(pp)): print('active_size', h.active_size, 'bytes of tracked files', truth); bad = 1
shutil.rmtree(top)
sys.exit(1 if bad else 0)
'''


def main(tier):
    rep = common.Report('C16', tier, 'model_checking', functions=FUNCS)
    st = smt.Stats()
    rep.assume('os.remove / os.rmdir / os.path replaced by a recording stub; file records (time key from the file name, size) are injected '
               'directly, i.e. os.stat answers are arbitrary', 'size limit >= one largest file per channel (as in the property)')
    rep.outside_claim('histories longer than 3 notifications (quick: all pairs for each single limit, all triples with all three limits)',
                      'more than 2 channels x 2 files', 'observer threads')
    # path filter: the handler never matches properties files or tmp. files (so they can never be tracked, hence never deleted)
    drf = chload.load()
    from digital_rf import ringbuffer as RB, list_drf as L
    h = RB.DigitalRFRingbufferHandler(count=1)
    W = z3.Union(*[rx.match_lang(r.pattern, r.flags) for r in h.regexes]) if len(h.regexes) > 1 else rx.match_lang(h.regexes[0].pattern, h.regexes[0].flags)
    nosl = z3.Star(z3.Intersect(rx.ANYCHAR, z3.Complement(z3.Re('/'))))
    props = z3.Concat(rx.SIGSTAR, z3.Re('/'), z3.Union(z3.Re('drf_properties.h5'), z3.Re('dmd_properties.h5'), z3.Re('metadata.h5')))
    # (at the format's depth: <channel path>/<one directory>/tmp.<name>; a name group spanning a '/' through nested timestamp-named
    #  directories is outside the property's grammar)
    comp = z3.Plus(z3.Intersect(rx.ANYCHAR, z3.Complement(z3.Union(z3.Re('/'), rx.NL))))
    tmpf = z3.Concat(z3.Re('/w/ch0/'), comp, z3.Re('/tmp.'), nosl)
    for nm, X in (('the ringbuffer path filter never matches a properties file', z3.Intersect(W, props)),
                  ("the ringbuffer path filter never matches a 'tmp.' file", z3.Intersect(W, tmpf))):
        r, w = rx.empty(X, 60, st)
        if r == 'unsat': rep.ob(nm, 'discharged', 'all paths', 1, 0, 1)
        elif r == 'sat':
            body = ('from vlib import build\nimport sys\ndrf = build.load_pkg()\nfrom digital_rf import ringbuffer as RB\nh = RB.DigitalRFRingbufferHandler(count=1)\n'
                    'p = %r\nm = any(r.match(p) for r in h.regexes)\nprint(p, "matched" if m else "not matched")\nsys.exit(1 if m else 0)\n') % rx.unescape(w)
            rep.violation(nm, 'C16.filter', 'path %r is matched' % rx.unescape(w), replay_body=body)
        else: rep.ob(nm, 'inconclusive', detail='unknown')
    res = chx.run_module('ring', per_condition_timeout=300 if tier == 'quick' else 1200, nproc=16)
    titles = {'_hist2_count': 'count limit: after any 2 notifications (add/modify/remove of any of 4 files, duplicates and unknown files included) bookkeeping == truth, deletions only of the oldest tracked file of a channel whose limit is exceeded, limit holds after every add',
              '_hist2_duration': 'duration limit: same', '_hist2_size': 'size limit (symbolic sizes, modify changes size): same, and tracked size == sum of tracked file sizes',
              '_hist_moved': 'count limit: two reports then a rename of a tracked file to another data-file name (moved event): nothing is deleted unless the files that really exist exceed the limit; the books follow the rename',
              '_hist_moved_size': 'size limit: same with symbolic sizes',
              '_verify_count': 'count limit: re-verification after an observer restart (any set tracked before, any set on disk now): afterwards the books equal the files on disk, nothing is deleted unless the files on disk exceed the limit',
              '_verify_size': 'size limit: same, with files that changed size unnoticed (tracked sizes stale): nothing is deleted on the basis of stale sizes, tracked sizes are the current ones afterwards',
              '_hist_twins': 'size limit: two reports, any notification, one more report over files two of which share a time key under different paths (same name in two subdirectories): books == truth by path after every notification, nothing deleted within the limit',
              '_ring_witness': 'reachability: a deletion is reachable'}
    replays = {'_hist2_count': lambda kw: REPLAY % (kw, ['count'], []), '_hist2_duration': lambda kw: REPLAY % (kw, ['duration'], []),
               '_hist2_size': lambda kw: REPLAY % (kw, ['size'], []),
               '_hist_moved': lambda kw: REPLAY_MOVED % (kw,), '_hist_moved_size': lambda kw: REPLAY_MOVED % (kw,),
               '_verify_count': lambda kw: REPLAY_VERIFY % (kw,), '_verify_size': lambda kw: REPLAY_VERIFY % (kw,), '_hist_twins': lambda kw: REPLAY_TWINS % (kw,)}
    for k3 in range(3):
        for f3 in range(4):
            nm = '_hist3_all_%d_%d' % (k3, f3)
            titles[nm] = 'size+count+duration limits, 3 notifications ending with %s of file %d: bookkeeping == truth, oldest-first, only when a limit is exceeded, limits hold after every add' % (['add', 'modify', 'remove'][k3], f3)
            replays[nm] = (lambda a, b: (lambda kw: REPLAY % (kw, ['size', 'count', 'duration'], [(a, b)])))(k3, f3)
    chx.report(rep, res, titles, replays=replays, sigs={k: 'C16.' + ('size_accounting' if 'size' in k or 'all' in k else k.strip('_')) for k in titles})
    return rep.finish()
