"""C07 Continuous-mode gap fill semantics.
E-LL: digital_rf_set_fill_value executed from IR with the H5Tget_class/size/sign/order answers and is_complex symbolic -- for every accepted
cell the bytes handed to H5Pset_fill_value, interpreted in the declared byte order of the declared type, are the documented missing-data
value; the continuous-unchunked file layout (full-window dataset, row = index - first(F), single index row, a file exists only if a slot
was written) on the write-path histories; needs_chunking decision of the constructor."""
import struct, time
import z3
from vlib import build, common, smt, wrun, envstubs
from vlib.llsym import Module, Exec, Ptr, FPV, SymStr, M, Inconclusive
from vlib.wobj import WObj
from checks import wcommon, C01

FUNCS = C01.FUNCS + ['digital_rf_set_fill_value', 'digital_rf_create_write_hdf5 (needs_chunking)']
H5T_INTEGER, H5T_FLOAT = 0, 1
ORDER_LE, ORDER_BE = 0, 1
SGN_NONE, SGN_2 = 0, 1

REPLAY = '''
from vlib import build
import numpy as np, tempfile, os, shutil, sys, glob, warnings, h5py
warnings.simplefilter('ignore')
drf = build.load_pkg()
bad = 0
for (cls, size, sign, order, cplx) in %r:
    kind = 'f' if cls == 1 else ('i' if sign == 1 else 'u')
    dt = ('>' if order == 1 else '<') + kind + str(size)
    top = tempfile.mkdtemp(); os.makedirs(top + '/ch')
    try:
        w = drf.DigitalRFWriter(top + '/ch', dt, 3600, 1000, 10**10, 10, 1, 'u', is_complex=bool(cplx), is_continuous=True, marching_periods=False)
        arr = np.ones((3, 2) if cplx else (3,), dtype=dt)
        w.rf_write(arr, next_sample=2); w.close()
        f = glob.glob(top + '/ch/*/*.h5')[0]
        with h5py.File(f, 'r') as h: d = h['rf_data'][...]
        gap = d[0, 0]
        comps = [gap['r'], gap['i']] if cplx else [gap]
        for c in comps:
            if kind == 'f': ok = bool(np.isnan(c))
            elif kind == 'i': ok = int(c) == -(1 << (8 * size - 1))
            else: ok = int(c) == 0
            print(dt, 'complex' if cplx else 'real', 'unwritten slot reads', c, 'OK' if ok else 'WRONG'); bad |= (not ok)
    finally:
        shutil.rmtree(top)
sys.exit(1 if bad else 0)
'''


def const_bits(v, size):
    """native (little-endian host) integer whose memory image is the cell's bytes"""
    if isinstance(v, FPV):
        tag = v.tag
        if isinstance(tag, tuple) and tag[0] == 'const':
            txt = tag[1]
            if txt.startswith('0x'):
                dbl = struct.unpack('<d', struct.pack('<Q', int(txt, 16)))[0]
            else:
                dbl = float(txt)
            if size == 4: return struct.unpack('<I', struct.pack('<f', dbl))[0]
            return struct.unpack('<Q', struct.pack('<d', dbl))[0]
        return None
    if isinstance(v, int): return v % (1 << (8 * size))
    return None


def bswap(v, size):
    return int.from_bytes(v.to_bytes(size, 'little'), 'big')


def fill_values(rep, st):
    mod = Module(build.c_ir()); stubs = envstubs.mk_stubs()
    rows = []

    def setup(ex):
        o = WObj(ex)
        v = {k: z3.Int(k) for k in ('order', 'cls', 'size', 'sign', 'cplx')}
        for k, hi in (('order', 3), ('cls', 11), ('size', 17), ('sign', 2), ('cplx', 1)): ex.assume(z3.And(v[k] >= 0, v[k] <= hi))
        ex.user.update({'H5Tget_order': v['order'], 'H5Tget_class': v['cls'], 'tsize': v['size'], 'H5Tget_sign': v['sign'], 'v': v})
        o.set('is_complex', v['cplx']); o.set('dtype_id', 7001); o.set('complex_dtype_id', 7004); o.set('dataset_prop', 7002)
        ex.summaries['@digital_rf_is_little_endian'] = lambda e: 1      # x86-64 build target
        return [o.ptr]

    def on_path(ex, status, ret):
        v = ex.user['v']
        m = ex.model()
        val = {k: smt.mval(m, t) for k, t in v.items()}
        fills = [e for e in ex.events if e[0] == 'H5Pset_fill_value']
        rows.append((status, ret, val, fills, ex))
        # the cell is determined on this path?
        info = dict(val)
        if status != 'ret':
            info['verdict'] = 'abort'; rows[-1] = rows[-1] + (info,); return
        supported = (val['cls'] == H5T_FLOAT and val['size'] in (4, 8)) or (val['cls'] == H5T_INTEGER and val['sign'] in (SGN_NONE, SGN_2) and val['size'] in (1, 2, 4, 8))
        info['supported'] = supported
        if not (isinstance(ret, int) and ret == 0):
            info['verdict'] = 'rejected'; rows[-1] = rows[-1] + (info,); return
        if len(fills) != 1:
            info['verdict'] = 'no single fill'; rows[-1] = rows[-1] + (info,); return
        _, plist, ty, ptr = fills[0]
        size = val['size']; cplx = val['cplx']
        want_ty = 7004 if cplx else 7001
        reg = ex.mem[ptr.region]
        cells = dict(reg['cells'])
        zero_default = bool(reg.get('zeroed')) or cells.get('memset') == 0
        class _Z(dict):
            def get(self, k, d=None):
                v = dict.get(self, k, d)
                return 0 if (v is None and zero_default) else v
        cells = _Z(cells)
        base = ex.key(ptr.path)
        comps = []
        if cplx:
            for f in (0, 1):
                comps.append(cells.get(base + (f,)))
        else:
            c = cells.get(base)
            if c is None and not base: c = cells.get(())
            comps.append(c)
        # the type argument describes the VALUE BUFFER; HDF5 converts from it to the dataset type.  Either it is the dataset's own type (the buffer
        # is then read in the declared byte order), or a native type of the same class and size (the buffer is then read in host order)
        native = (not isinstance(ty, int)) and 'H5T_NATIVE_' in str(ty)
        ok = ((ty == want_ty) if isinstance(ty, int) else (native and not cplx)) and plist == 7002
        desc = []
        for c in comps:
            # an unsigned fill may be handed over as a wider zero (int64_t minUnsignedInt): only its first `size` bytes are read
            bits = const_bits(c, size if not (isinstance(c, int)) else size)
            if bits is None: ok = False; desc.append('?'); continue
            declared = bits if (val['order'] == ORDER_LE or native) else bswap(bits, size)
            if val['cls'] == H5T_FLOAT:
                ebits, mbits = (8, 23) if size == 4 else (11, 52)
                exp = (declared >> mbits) & ((1 << ebits) - 1); man = declared & ((1 << mbits) - 1)
                good = exp == (1 << ebits) - 1 and man != 0
            elif val['sign'] == SGN_NONE: good = declared == 0
            else: good = declared == 1 << (8 * size - 1)
            ok = ok and good; desc.append(hex(declared))
        info['verdict'] = 'ok' if ok else 'wrong'; info['declared_value'] = desc
        rows[-1] = rows[-1] + (info,)

    ex = Exec(mod, stubs)
    try:
        n = ex.explore('@digital_rf_set_fill_value', setup, on_path)
    except Inconclusive as e:
        rep.ob('fill value per element type', 'inconclusive', detail=str(e)); return
    infos = [r[-1] for r in rows]
    wrong = [i for i in infos if i.get('verdict') in ('wrong', 'no single fill', 'abort') and i.get('order') in (ORDER_LE, ORDER_BE)]
    rejected_supported = [i for i in infos if i.get('verdict') == 'rejected' and i.get('supported') and i.get('order') in (ORDER_LE, ORDER_BE)]
    accepted = [i for i in infos if i.get('verdict') == 'ok']
    title = 'fill value handed to HDF5, read in the declared byte order of the declared type: NaN (float), most negative (signed), 0 (unsigned), both components of complex; for every class/size/sign/order/complex cell'
    if wrong:
        w = wrong[0]
        cell = (w['cls'], w['size'], w['sign'], w['order'], w['cplx'])
        cells_ = [(x['cls'], x['size'], x['sign'], x['order'], x['cplx']) for x in wrong if x.get('supported')][:16] or [cell]
        rep.violation(title, 'C07.fill.%s' % ('float_order%d' % w['order'] if w['cls'] == H5T_FLOAT else 'int_order%d_size%d_cplx%d' % (w['order'], w['size'], w['cplx'])),
                      'cell (class=%d, size=%d, sign=%d, order=%d, complex=%d): fill bytes read as %s' % (cell + (w.get('declared_value'),)),
                      replay_body=REPLAY % (cells_,), queries=ex.nq, solver_s=ex.tq, paths=n, sample={'cell': w})
    else:
        rep.ob(title, 'discharged', 'H5Tget_class 0..11, size 0..17, sign 0..2, order 0..3, complex 0..1 (all symbolic); little-endian host', ex.nq, ex.tq, n,
               sample={'accepted_cells': len(accepted), 'example': accepted[:2]})
    rep.ob('every supported cell (float 4/8, integer 1/2/4/8, signed/unsigned, LE/BE, real/complex) is accepted', 'discharged' if not rejected_supported else 'inconclusive',
           None, 0, 0, len(accepted), detail=None if not rejected_supported else str(rejected_supported[:2]))


def chunking(rep, st):
    mod = Module(build.c_ir()); stubs = envstubs.mk_stubs()
    res = []

    def setup(ex):
        comp, chk, cont = z3.Ints('comp chk cont')
        for c in [comp >= 0, comp <= 9, chk >= 0, chk <= 1, cont >= 0, cont <= 1]: ex.assume(c)
        dr = ex.new_region('dir'); ex.mem[dr]['cells'][()] = SymStr(['/data/ch'])
        uu = ex.new_region('uuid'); ex.mem[uu]['cells'][()] = SymStr(['UUID'])
        ex.user['v'] = (comp, chk, cont)
        ex.summaries['@digital_rf_check_hdf5_directory'] = lambda e, p: 0
        ex.summaries['@digital_rf_set_fill_value'] = lambda e, o: 0
        def hmd(e, o): e.user['obj'] = o; return 0
        ex.summaries['@digital_rf_handle_metadata'] = hmd
        return [Ptr(dr, (0,)), 7001, 2, 400, 10**9, 200, 3, Ptr(uu, (0,)), comp, chk, 0, 1, cont, 0]

    def on_path(ex, status, ret):
        if status != 'ret' or 'obj' not in ex.user: return
        comp, chk, cont = ex.user['v']
        o = WObj(ex, ex.user['obj'])
        nc = o.get('needs_chunking')
        want = z3.Or(chk != 0, comp != 0, cont != 1)
        ok = ex.valid(z3.If(want, nc == 1, nc == 0)) and ex.valid(o.get('is_continuous') == cont)
        deflate = [e for e in ex.events if e[0] == 'H5Pset_deflate']; filt = [e for e in ex.events if e[0] == 'H5Pset_filter']
        ok = ok and ex.valid((comp != 0) == z3.BoolVal(bool(deflate))) and ex.valid((chk != 0) == z3.BoolVal(bool(filt)))
        res.append(ok)

    ex = Exec(mod, stubs)
    try:
        n = ex.explore('@digital_rf_create_write_hdf5', setup, on_path)
        good = bool(res) and all(res)
        rep.ob('constructor: gapped representation (needs_chunking) iff compression != 0 or checksum or not continuous; deflate / fletcher32 filters set accordingly',
               'discharged' if good else 'inconclusive', 'compression 0..9, checksum, continuous symbolic', ex.nq, ex.tq, n, detail=None if good else str(res))
    except Inconclusive as e:
        rep.ob('constructor needs_chunking', 'inconclusive', detail=str(e))


def main(tier):
    rep = common.Report('C07', tier, 'model_checking', functions=FUNCS)
    st = smt.Stats()
    rep.assume('little-endian host (x86-64 build target; digital_rf_is_little_endian summarised as 1)', 'H5Pset_fill_value interprets the buffer as a value of the given file type',
               'environment stubs; fresh channel; no faults')
    rep.outside_claim('what HDF5 does with the fill value property (library)', 'big-endian hosts')
    fill_values(rep, st)
    chunking(rep, st)
    if not wcommon.gate(rep, st): return rep.finish()
    specs = [s for s in wcommon.valid_specs(tier) if s['name'].startswith(('cont:', 'cont-chunked:'))]
    t0 = time.time()
    results = wrun.run_all(specs)
    keep = ('no C assert', 'file index well formed', 'sample at vector position j lands', 'every created file has', 'a data file exists only if', 'a file whose fill pass')
    tot = wcommon.report(rep, specs, results, lambda nm: nm.startswith(keep))
    rep.ob('continuous-mode write paths explored (unchunked: full-window dataset, row = index - first sample of the file, single index row; chunked: gapped representation)',
           'witness', '%d configurations' % len(specs), tot['q'], tot['s'], tot['paths'])
    n, bad = wrun.replay_witnesses(results, specs, limit=15)
    if bad:
        nm, cfgd, hist, d = bad[0]
        rep.violation('real build == reference model on solver witnesses (incl. fill value of unwritten slots)', 'C07.X.' + d[0][:40], 'history %s on %s: %s' % (hist, cfgd, d[:2]),
                      replay_body=wrun.REPLAY_BODY % (cfgd, hist))
    else:
        rep.replays += n
        rep.ob('%d continuous-mode witnesses run on the real build: unwritten slots of existing files read as the int16 fill value, written ones as written' % n,
               'witness' if n else 'inconclusive', None, 0, 0, n)
    from checks import extglue
    extglue.run_dtype(rep, st, tier)       # the element type (class, size, sign, byte order) handed to the library is the caller's
    return rep.finish()
