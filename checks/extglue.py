"""Glue obligations of the Python extension (python/lib/py_rf_write_hdf5.c), executed from its LLVM IR (E-LL).

The Python-layer harnesses (checks/pylayer.py) and the write-path checks model the extension by "it hands the caller's arrays to the C
library"; this module decides that model on the real extension code: _py_rf_write_hdf5_rf_write and _py_rf_write_hdf5_rf_block_write are
executed with symbolic numpy array contents (block / global index values, vector length, row stride) and the C library entry points
replaced by recording summaries.  Obligations: which library call is made, with which index values, which data pointer
(base + block offset * ROW stride), which lengths, in which order; a failing library call raises and stops; the returned cursor is the
library's cursor after the last call.
"""
import re, sysconfig, time
import z3
from vlib import build, envstubs, smt
from vlib.llsym import Module, Exec, Ptr, NULL, SymStr, Inconclusive, AssertFail
from vlib.wobj import WObj

FUNCS = ['_py_rf_write_hdf5_rf_write (extension)', '_py_rf_write_hdf5_rf_block_write (extension)']


def _ir():
    import numpy
    return build.c_ir(build.PYEXT_SRC, name='ext', extra_inc=[sysconfig.get_paths()['include'], numpy.get_include()])


def _field_index(ir, struct, nth_of_kind):
    """index of the n-th field of a given LLVM type inside a struct definition line (used to find data / dimensions / strides)"""
    m = re.search(r'%s = type \{(.*?)\}\n' % re.escape(struct), ir)
    if not m: raise Inconclusive('struct %s not found in the extension IR' % struct)
    fields = [x.strip() for x in re.split(r',\s*(?![^{]*\})', m.group(1))]
    return fields


def _mk_array(ex, fields, data_ptr, dims, strides):
    """a PyArrayObject region: data, dimensions, strides at the field positions of PyArrayObject_fields"""
    # PyArrayObject_fields: { PyObject ob_base, char *data, int nd, npy_intp *dimensions, npy_intp *strides, ... }
    i_data = next(i for i, f in enumerate(fields) if f == 'i8*')
    ptrs = [i for i, f in enumerate(fields) if f == 'i64*']
    if len(ptrs) < 2 or 'i32' not in fields: raise Inconclusive('unexpected PyArrayObject_fields layout: %s' % fields[:8])
    i_nd = fields.index('i32'); i_dims, i_str = ptrs[0], ptrs[1]
    rd = ex.new_region('dims'); rs = ex.new_region('strides')
    for i, v in enumerate(dims): ex.mem[rd]['cells'][(i,)] = v
    for i, v in enumerate(strides): ex.mem[rs]['cells'][(i,)] = v
    ra = ex.new_region('pyarr')
    c = ex.mem[ra]['cells']
    c[(i_data,)] = data_ptr; c[(i_nd,)] = len(dims); c[(i_dims,)] = Ptr(rd, (0,)); c[(i_str,)] = Ptr(rs, (0,))
    for i, f in enumerate(fields):
        if 'PyArray_Descr*' in f: c[(i,)] = Ptr(ex.new_region('descr'))      # dtype descriptor: integer fields read from it are arbitrary values
    return Ptr(ra)


def _stubs(ex_user):
    S = envstubs.mk_stubs()

    def parse(ex, args, fmt, *outs):
        f = envstubs.get_str(ex, fmt).norm().text()
        vals = ex.user['pyargs']
        if len(f) != len(outs) or len(vals) != len(outs): raise Inconclusive('PyArg_ParseTuple format %r does not match the harness' % f)
        ex.user['fmt'] = f
        for o, v in zip(outs, vals): ex.store(o, v)
        return 1
    S['@PyArg_ParseTuple'] = parse
    S['@_PyArg_ParseTuple_SizeT'] = parse
    S['@PyCapsule_GetPointer'] = lambda ex, cap, name: ex.user['wobj'].ptr

    def lib_call(name):
        def f(ex, *a):
            n = len([e for e in ex.events if e[0] == 'lib'])
            ok = ex.decide(z3.Bool('lib_ok!%d' % n))
            cur = z3.Int('cursor_after!%d' % n)
            ex.user['wobj'].set('global_index', cur)
            ex.events.append(('lib', name, a, ok, cur))
            return 0 if ok else 2**32 - 1
        return f
    S['@digital_rf_write_hdf5'] = lib_call('digital_rf_write_hdf5')
    S['@digital_rf_write_blocks_hdf5'] = lib_call('digital_rf_write_blocks_hdf5')
    S['@PyErr_SetString'] = lambda ex, exc, msg: (ex.events.append(('raise',)), None)[1]

    def build_value(ex, fmt, *a):
        ex.events.append(('ret', envstubs.get_str(ex, fmt).norm().text(), a))
        return Ptr(ex.new_region('retobj'))
    S['@Py_BuildValue'] = build_value
    S['@_Py_BuildValue_SizeT'] = build_value
    return S


def run(rep, st, tier):
    """adds the extension-glue obligations to `rep`"""
    t0 = time.time()
    try:
        ir = _ir()
        mod = Module(ir)
        fields = _field_index(ir, '%struct.tagPyArrayObject_fields', 0)
    except Exception as e:
        rep.ob('extension glue: IR of python/lib/py_rf_write_hdf5.c', 'inconclusive', detail=str(e)[:300]); return
    rep.functions += FUNCS
    rep.assume('extension glue: numpy index arrays are contiguous uint64 (stride 8), the data array is 2-D C-contiguous with a symbolic row stride '
               '(num_subchannels * itemsize); CPython / numpy API calls replaced by stubs (PyArg_ParseTuple hands out the harness objects)')
    results = {}; stats = dict(paths=0, cont_multi=0, lib_calls=0, failures=0)

    def note(name, ok, detail=None):
        cur = results.get(name)
        if cur is None or (cur[0] and not ok): results[name] = (ok, detail)

    ROW = z3.Int('row_stride'); VLEN = z3.Int('vlen')
    for L in (1, 2, 3):
        G = [z3.Int('G%d' % i) for i in range(L)]; B = [z3.Int('B%d' % i) for i in range(L)]

        def setup(ex, L=L, G=G, B=B):
            o = WObj(ex)
            cont = z3.Int('is_continuous')
            o.fresh_open_state(10, 1, 2, 1000, 0, cont, z3.Int('chunk'))
            ex.assume(z3.And(cont >= 0, cont <= 1, ROW >= 1, ROW <= 64, VLEN >= 1, VLEN < 2**40))
            for i in range(L):
                ex.assume(z3.And(G[i] >= 0, G[i] < 2**62, B[i] >= 0, B[i] < VLEN))
            for i in range(L - 1): ex.assume(B[i] < B[i + 1])
            ex.user['wobj'] = o
            rdat = ex.new_region('data'); rg = ex.new_region('garr'); rb = ex.new_region('barr')
            for i in range(L):
                ex.mem[rg]['cells'][(8 * i,)] = G[i]; ex.mem[rb]['cells'][(8 * i,)] = B[i]
            ex.user['regions'] = (rdat, rg, rb)
            num = _mk_array(ex, fields, Ptr(rdat, (0,)), [VLEN, z3.Int('nsub')], [ROW, z3.Int('item')])
            ga = _mk_array(ex, fields, Ptr(rg, (0,)), [L], [8])
            ba = _mk_array(ex, fields, Ptr(rb, (0,)), [L], [8])
            ex.user['pyargs'] = [Ptr(ex.new_region('capsule')), num, ga, ba]
            return [NULL, Ptr(ex.new_region('args'))]

        def on_path(ex, status, ret, L=L, G=G, B=B):
            if status != 'ret':
                note('extension glue: no abort / NULL dereference in rf_block_write', False, str(ret)[:200]); return
            note('extension glue: no abort / NULL dereference in rf_block_write', True)
            rdat, rg, rb = ex.user['regions']
            calls = [e for e in ex.events if e[0] == 'lib']
            cont = ex.valid(z3.Int('is_continuous') == 1)
            stats['paths'] += 1; stats['lib_calls'] += len(calls); stats['failures'] += sum(1 for c in calls if not c[3])
            if cont and L > 1 and len(calls) == L: stats['cont_multi'] += 1
            okc = True; why = None
            if cont and L > 1:
                # block by block through digital_rf_write_hdf5, in order, stopping at the first failure
                exp_n = next((i + 1 for i, c in enumerate(calls) if not c[3]), L)
                if len(calls) != min(exp_n, L) or any(c[1] != 'digital_rf_write_hdf5' for c in calls): okc = False; why = 'number / kind of library calls'
                for i, c in enumerate(calls):
                    if not okc: break
                    obj, nxt, data, ln = c[2]
                    want_len = (B[i + 1] if i + 1 < L else VLEN) - B[i]
                    good = isinstance(data, Ptr) and data.region == rdat and len(data.path) == 1 and ex.valid(data.path[0] == B[i] * ROW) \
                        and ex.valid(nxt == G[i]) and ex.valid(ln == want_len) and obj == ex.user['wobj'].ptr
                    if not good: okc = False; why = 'block %d: data pointer / next sample / length handed to the library (want base + B[%d]*row_stride, G[%d], %s)' % (i, i, i, want_len)
            else:
                if len(calls) != 1 or calls[0][1] != 'digital_rf_write_blocks_hdf5': okc = False; why = 'expected exactly one digital_rf_write_blocks_hdf5 call'
                else:
                    obj, ga, ba, n, data, vl = calls[0][2]
                    good = obj == ex.user['wobj'].ptr and isinstance(ga, Ptr) and ga.region == rg and ex.key(ga.path) == (0,) and isinstance(ba, Ptr) and ba.region == rb \
                        and ex.key(ba.path) == (0,) and ex.valid(n == L) and isinstance(data, Ptr) and data.region == rdat and ex.key(data.path) == (0,) and ex.valid(vl == VLEN)
                    if not good: okc = False; why = 'arguments of digital_rf_write_blocks_hdf5 (want the arrays as given, index_len = len(global array), vector length = data rows)'
            note('extension glue: rf_block_write hands the library exactly the caller\'s blocks (data pointer = base + block offset x row stride, next sample, length, order)',
                 okc, None if okc else dict(L=L, continuous=cont, why=why, model=_model(ex, G, B)))
            failed = any(not c[3] for c in calls)
            raised = any(e[0] == 'raise' for e in ex.events); rets = [e for e in ex.events if e[0] == 'ret']
            if failed:
                ok2 = raised and not rets and (ret is NULL or (isinstance(ret, Ptr) and ret.region is None))
            else:
                ok2 = (not raised) and len(rets) == 1 and rets[0][1] == 'K' and bool(calls) and ex.valid(rets[0][2][0] == calls[-1][4])
            note('extension glue: a failing library call raises and returns NULL at once; success returns the library cursor after the last call', ok2,
                 None if ok2 else dict(L=L, model=_model(ex, G, B)))

        ex = Exec(mod, _stubs(None), {}, timeout_ms=4000, fallback_ms=60000)
        try:
            ex.explore('@_py_rf_write_hdf5_rf_block_write', setup, on_path)
        except Inconclusive as e:
            rep.ob('extension glue: rf_block_write (%d blocks)' % L, 'inconclusive', detail=str(e)[:300]); return
        st.queries += ex.nq; st.seconds += ex.tq

    # rf_write: one digital_rf_write_hdf5(obj, next_sample, data base, rows)
    NS = z3.Int('next_sample')

    def setup_w(ex):
        o = WObj(ex); o.fresh_open_state(10, 1, 2, 1000, 0, z3.Int('is_continuous'), z3.Int('chunk'))
        ex.assume(z3.And(VLEN >= 0, VLEN < 2**40, NS >= 0, NS < 2**62, ROW >= 1, ROW <= 64))
        ex.user['wobj'] = o
        rdat = ex.new_region('data'); ex.user['regions'] = (rdat,)
        num = _mk_array(ex, fields, Ptr(rdat, (0,)), [VLEN, z3.Int('nsub')], [ROW, z3.Int('item')])
        ex.user['pyargs'] = [Ptr(ex.new_region('capsule')), num, NS]
        return [NULL, Ptr(ex.new_region('args'))]

    def on_path_w(ex, status, ret):
        if status != 'ret':
            note('extension glue: rf_write hands the library (next_sample, data base, number of rows)', False, str(ret)[:200]); return
        calls = [e for e in ex.events if e[0] == 'lib']
        ok = len(calls) == 1 and calls[0][1] == 'digital_rf_write_hdf5'
        if ok:
            obj, nxt, data, ln = calls[0][2]
            ok = obj == ex.user['wobj'].ptr and ex.valid(nxt == NS) and isinstance(data, Ptr) and data.region == ex.user['regions'][0] and ex.key(data.path) == (0,) and ex.valid(ln == VLEN)
        rets = [e for e in ex.events if e[0] == 'ret']; raised = any(e[0] == 'raise' for e in ex.events)
        if ok and calls[0][3]: ok = not raised and len(rets) == 1 and ex.valid(rets[0][2][0] == calls[0][4])
        elif ok: ok = raised and not rets
        note('extension glue: rf_write hands the library (next_sample, data base, number of rows)', ok, None if ok else dict(model=str(ex.model())[:300]))

    ex = Exec(mod, _stubs(None), {}, timeout_ms=4000, fallback_ms=60000)
    try:
        ex.explore('@_py_rf_write_hdf5_rf_write', setup_w, on_path_w)
        st.queries += ex.nq; st.seconds += ex.tq
    except Inconclusive as e:
        rep.ob('extension glue: rf_write', 'inconclusive', detail=str(e)[:300])

    vac = stats['paths'] >= 10 and stats['cont_multi'] >= 2 and stats['failures'] >= 3
    rep.ob('extension glue: reachability (block-by-block continuous paths with 2 and 3 library calls, failing library calls)', 'witness' if vac else 'inconclusive',
           None, 0, 0, stats['paths'], detail=None if vac else 'harness did not reach the interesting paths: %s' % stats, sample=dict(stats))
    for name, (ok, detail) in results.items():
        if ok:
            rep.ob(name, 'discharged', '1..3 blocks, block / global index values, vector length and row stride symbolic; both modes; every library outcome', st.queries, st.seconds, stats['paths'])
        else:
            kw = _replay_kw(detail)
            rep.violation(name, 'EXT.' + name.split(':')[1].strip()[:30], 'extension glue fails: %s' % (str(detail)[:400],), replay_body=REPLAY % (kw,),
                          bounds='1..3 blocks', sample={'detail': str(detail)[:400]})
    rep.extra['extension_glue_s'] = round(time.time() - t0, 1)


def _model(ex, G, B):
    m = ex.model()
    if m is None: return None
    return dict(G=[smt.mval(m, g) for g in G], B=[smt.mval(m, b) for b in B], vlen=smt.mval(m, z3.Int('vlen')), row=smt.mval(m, z3.Int('row_stride')))


def _replay_kw(detail):
    d = detail if isinstance(detail, dict) else {}
    return dict(L=d.get('L', 3), continuous=bool(d.get('continuous', True)))


# real-build replay: a multi-block write through the Python API on a multi-sub-channel channel, read back and compared
REPLAY = '''
from vlib import build
import numpy as np, tempfile, os, shutil, sys, warnings
warnings.simplefilter('ignore')
drf = build.load_pkg()
kw = %r
bad = 0
for cont in (True, False):
    for nsub in (1, 3):
        top = tempfile.mkdtemp(); os.makedirs(top + '/ch')
        S = 10**10
        w = drf.DigitalRFWriter(top + '/ch', 'i4', 3600, 1000, S, 100, 1, 'u', is_complex=False, num_subchannels=nsub, is_continuous=cont, marching_periods=False)
        data = (np.arange(30 * nsub, dtype='i4').reshape(30, nsub) + 1000)
        G = [5, 40, 70][:kw.get('L', 3)]; B = [0, 10, 20][:kw.get('L', 3)]      # global indices are relative to the start index
        nxt = w.rf_write_blocks(data, G, B)
        w.close()
        ends = B[1:] + [30]
        if nxt != G[-1] + (30 - B[-1]): print('cont=%%s nsub=%%d: returned next sample %%d' %% (cont, nsub, nxt)); bad = 1
        r = drf.DigitalRFReader(top)
        for g, b, e in zip(G, B, ends):
            got = r.read_vector_raw(S + g, e - b, 'ch').reshape(e - b, nsub)
            if not np.array_equal(got, data[b:e]): print('cont=%%s nsub=%%d: block at +%%d reads back %%s..., written %%s...' %% (cont, nsub, g, got[0], data[b])); bad = 1
        shutil.rmtree(top)
        # rf_write: the value returned (and the counters derived from it) is the library's cursor, also for zero-length writes
        top = tempfile.mkdtemp(); os.makedirs(top + '/ch')
        w = drf.DigitalRFWriter(top + '/ch', 'i4', 3600, 1000, S, 100, 1, 'u', is_complex=False, num_subchannels=nsub, is_continuous=cont, marching_periods=False)
        seq = []
        try:
            seq.append(w.rf_write(np.zeros((10, nsub), dtype='i4')))
            seq.append(w.rf_write(np.zeros((0, nsub), dtype='i4'), next_sample=100))
            c1 = (w.get_next_available_sample(), w.get_total_samples_written(), w.get_total_gap_samples())
            seq.append(w.rf_write(np.ones((5, nsub), dtype='i4'), next_sample=50))
            c2 = (w.get_next_available_sample(), w.get_total_samples_written(), w.get_total_gap_samples())
            if seq != [10, 10, 55] or c1 != (10, 10, 0) or c2 != (55, 15, 40):
                print('cont=%%s nsub=%%d: rf_write returned %%s, counters %%s then %%s; the recording has next sample 10 / 55' %% (cont, nsub, seq, c1, c2)); bad = 1
        except Exception as e:
            print('cont=%%s nsub=%%d: rf_write sequence raised %%s: %%s (returns so far %%s)' %% (cont, nsub, type(e).__name__, e, seq)); bad = 1
        w.close(); shutil.rmtree(top)
sys.exit(1 if bad else 0)
'''



def run_unix_time(rep, st, tier):
    """extension glue of get_unix_time: parses three unsigned 64-bit integers (index, numerator, denominator), hands them to
    digital_rf_get_unix_time_rational in that order, and returns (year, month, day, hour, minute, second, picosecond) in that order with the
    picosecond as an unsigned 64-bit value"""
    try:
        ir = _ir(); mod = Module(ir)
    except Exception as e:
        rep.ob('extension glue: get_unix_time', 'inconclusive', detail=str(e)[:300]); return
    rep.functions.append('_py_rf_write_hdf5_get_unix_time (extension)')
    K, N, D = z3.Ints('ext_k ext_n ext_d')
    outv = [z3.Int('ut_%s' % nm) for nm in ('year', 'month', 'day', 'hour', 'minute', 'second', 'ps')]
    res = []

    def setup(ex):
        ex.assume(z3.And(K >= 0, K < 2**63, N >= 1, N < 2**32, D >= 1, D <= 10**9))
        ex.user['pyargs'] = [K, N, D]
        return [NULL, Ptr(ex.new_region('args'))]

    def on_path(ex, status, ret):
        calls = [e for e in ex.events if e[0] == 'lib']
        rets = [e for e in ex.events if e[0] == 'ret']
        ok = status == 'ret' and ex.user.get('fmt') == 'KKK' and len(calls) == 1
        if ok:
            a = calls[0][2]
            ok = ex.valid(z3.And(a[0] == K, a[1] == N, a[2] == D))
            if calls[0][3]:
                ok = ok and len(rets) == 1 and rets[0][1] == 'iiiiiiK' and len(rets[0][2]) == 7 and all(ex.valid(x == y) for x, y in zip(rets[0][2], outv))
            else:
                ok = ok and not rets and (ret is NULL or (isinstance(ret, Ptr) and ret.region is None))
        res.append(ok)

    S = _stubs(None)
    def utr(ex, k, n, d, *outs):
        okc = ex.decide(z3.Bool('utr_ok'))
        if okc:
            for o, v in zip(outs, outv): ex.store(o, v)
        ex.events.append(('lib', 'digital_rf_get_unix_time_rational', (k, n, d), okc, None))
        return 0 if okc else 2**32 - 1
    S['@digital_rf_get_unix_time_rational'] = utr
    ex = Exec(mod, S, {}, timeout_ms=4000, fallback_ms=60000)
    try:
        ex.explore('@_py_rf_write_hdf5_get_unix_time', setup, on_path)
    except Inconclusive as e:
        rep.ob('extension glue: get_unix_time', 'inconclusive', detail=str(e)[:300]); return
    name = 'extension glue: get_unix_time parses (index, numerator, denominator) as unsigned 64-bit, passes them in order, returns (year, month, day, hour, minute, second, picosecond) in order, picosecond unsigned 64-bit'
    if res and all(res) and len(res) >= 2:
        rep.ob(name, 'discharged', 'all index / rate values; both library outcomes', ex.nq, ex.tq, len(res))
    else:
        rep.violation(name, 'EXT.get_unix_time', 'argument / result wiring of the extension differs (%d of %d paths)' % (res.count(False), len(res)), replay_body=REPLAY_UT, bounds='all values')


REPLAY_UT = '''
from vlib import build
import datetime, sys
drf = build.load_pkg()
from digital_rf import _py_rf_write_hdf5 as ext
bad = 0
for (k, n, d) in [(0, 1, 1), (1700000000 * 200 // 3 + 1, 200, 3), (2**62, 4294967291, 1), (123456789012345, 1000000, 3), (86400 * 366 * 30 * 7 + 5, 7, 1), (951782400 * 10 + 7, 10, 1)]:
    sec = k * d // n; ps = ((k * d) % n) * 10**12 // n
    t = datetime.datetime(1970, 1, 1) + datetime.timedelta(seconds=sec)
    want = (t.year, t.month, t.day, t.hour, t.minute, t.second, ps)
    got = tuple(ext.get_unix_time(k, n, d))
    if got != want: print('get_unix_time%s -> %s, expected %s' % ((k, n, d), got, want)); bad = 1
    dt, ps2 = drf.get_unix_time(k, n, d)
    if (dt.year, dt.month, dt.day, dt.hour, dt.minute, dt.second, dt.microsecond, ps2) != want[:6] + (ps // 10**6, ps):
        print('digital_rf.get_unix_time%s -> %s %s' % ((k, n, d), dt, ps2)); bad = 1
sys.exit(1 if bad else 0)
'''



def run_init(rep, st, tier):
    """extension glue of init: the 16 documented arguments are parsed with the documented widths and handed to digital_rf_create_write_hdf5
    in the documented order (cadences, start index, rate, uuid, compression, checksum, complex, sub-channels, continuous, marching)"""
    try:
        ir = _ir(); mod = Module(ir)
    except Exception as e:
        rep.ob('extension glue: init', 'inconclusive', detail=str(e)[:300]); return
    rep.functions.append('_py_rf_write_hdf5_init (extension)')
    names = ['bytecount', 'sc', 'fc', 'start', 'n', 'd', 'comp', 'checksum', 'cplx', 'nsub', 'cont', 'march']
    V = {k: z3.Int('init_' + k) for k in names}
    res = []

    def setup(ex):
        for k, v in V.items(): ex.assume(z3.And(v >= 0, v < 2**31))
        def sreg(txt):
            r = ex.new_region('s_' + txt); ex.mem[r]['cells'][()] = SymStr([txt]); return Ptr(r, (0,))
        ex.user['strs'] = dict(directory=sreg('/data/drf/ch'), byteorder=sreg('little'), dtype=sreg('i'), uuid=sreg('UUID'))
        st_ = ex.user['strs']
        ex.user['pyargs'] = [st_['directory'], st_['byteorder'], st_['dtype'], V['bytecount'], V['sc'], V['fc'], V['start'], V['n'], V['d'], st_['uuid'],
                             V['comp'], V['checksum'], V['cplx'], V['nsub'], V['cont'], V['march']]
        ex.summaries['@get_hdf5_data_type'] = lambda e, bo, dc, bc: (e.events.append(('dtype', bo, dc, bc)), z3.Int('hdf5_dtype'))[1]
        return [NULL, Ptr(ex.new_region('args'))]

    def on_path(ex, status, ret):
        calls = [e for e in ex.events if e[0] == 'lib']
        if status != 'ret': res.append(False); return
        if ex.user.get('fmt') != 'sssiKKKKKsiiiiii': res.append(False); return
        if not calls: res.append(True); return          # datatype not found: refused before the library is called
        a = calls[0][2]; st_ = ex.user['strs']
        want = [st_['directory'], z3.Int('hdf5_dtype'), V['sc'], V['fc'], V['start'], V['n'], V['d'], st_['uuid'], V['comp'], V['checksum'], V['cplx'], V['nsub'], V['cont'], V['march']]
        ok = len(a) == 14
        for x, y in zip(a, want):
            if isinstance(y, Ptr): ok = ok and isinstance(x, Ptr) and x.region == y.region
            else: ok = ok and not isinstance(x, Ptr) and ex.valid(x == y)
        dt = [e for e in ex.events if e[0] == 'dtype']
        ok = ok and len(dt) == 1 and ex.valid(dt[0][3] == V['bytecount'])
        res.append(bool(ok))

    S = _stubs(None)
    def create(ex, *a):
        okc = ex.decide(z3.Bool('create_ok'))
        ex.events.append(('lib', 'digital_rf_create_write_hdf5', a, okc, None))
        return Ptr(ex.new_region('wobj')) if okc else NULL
    S['@digital_rf_create_write_hdf5'] = create
    S['@PyCapsule_New'] = lambda ex, p_, nm, destr: Ptr(ex.new_region('capsule'))
    ex = Exec(mod, S, {}, timeout_ms=4000, fallback_ms=60000)
    try:
        ex.explore('@_py_rf_write_hdf5_init', setup, on_path)
    except (Inconclusive, AssertFail) as e:
        rep.ob('extension glue: init', 'inconclusive', detail=str(e)[:300]); return
    name = 'extension glue: init parses its 16 arguments with the documented widths and hands them to digital_rf_create_write_hdf5 in the documented order'
    if res and all(res) and len(res) >= 2:
        rep.ob(name, 'discharged', 'all numeric argument values', ex.nq, ex.tq, len(res))
    else:
        rep.violation(name, 'EXT.init', 'argument wiring of the extension constructor differs (%d of %d paths)' % (res.count(False), len(res)), replay_body=REPLAY_INIT, bounds='all values')


REPLAY_INIT = '''
from vlib import build
import numpy as np, tempfile, os, shutil, sys, h5py, glob, warnings
warnings.simplefilter('ignore')
drf = build.load_pkg()
bad = 0
top = tempfile.mkdtemp(); os.makedirs(top + '/ch')
S = 10**10 + 7
w = drf.DigitalRFWriter(top + '/ch', 'i2', 7200, 400, S, 200, 3, 'my-uuid', compression_level=1, checksum=True, is_complex=True, num_subchannels=2, is_continuous=False, marching_periods=False)
w.rf_write(np.zeros((10, 2), dtype=[('r', 'i2'), ('i', 'i2')]))
w.close()
f = sorted(glob.glob(top + '/ch/*/rf@*.h5'))[0]
with h5py.File(f, 'r') as h:
    a = {k: (v.decode() if isinstance(v, bytes) else (v.item() if hasattr(v, 'item') else v)) for k, v in h['rf_data'].attrs.items()}
want = dict(subdir_cadence_secs=7200, file_cadence_millisecs=400, sample_rate_numerator=200, sample_rate_denominator=3, is_complex=1, num_subchannels=2, is_continuous=0, uuid_str='my-uuid')
for k, v in want.items():
    if a.get(k) != v: print('attribute', k, '=', a.get(k), 'expected', v); bad = 1
if int(a.get('init_utc_timestamp', -1)) != S * 3 // 200: print('init_utc_timestamp', a.get('init_utc_timestamp')); bad = 1
shutil.rmtree(top)
sys.exit(1 if bad else 0)
'''



def run_py_init_call(rep):
    """DigitalRFWriter.__init__ -> extension init: the argument expressions of the call, read from the AST, name the documented parameters in the
    documented order (a syntactic obligation: each argument expression must be one of the accepted spellings of that parameter)"""
    import ast, os
    src = open(os.path.join(build.PYPKG, 'digital_rf_hdf5.py')).read()
    tree = ast.parse(src)
    cls = next((n for n in tree.body if isinstance(n, ast.ClassDef) and n.name == 'DigitalRFWriter'), None)
    call = None
    for n in ast.walk(cls) if cls else []:
        if isinstance(n, ast.Call) and ast.unparse(n.func) == '_py_rf_write_hdf5.init': call = n
    name = 'DigitalRFWriter.__init__ hands the extension (directory, byte order, type kind, item size, subdir cadence, file cadence, start index, numerator, denominator, uuid, compression, checksum, complex, sub-channels, continuous, marching) in this order'
    if call is None:
        rep.ob(name, 'inconclusive', detail='call of _py_rf_write_hdf5.init not found'); return
    want = [('directory',), ('byteorder',), ('kind',), ('itemsize',), ('subdir_cadence_secs',), ('file_cadence_millisecs',), ('start_global_index',),
            ('sample_rate_numerator',), ('sample_rate_denominator',), ('uuid_str',), ('compression_level',), ('checksum',), ('is_complex',),
            ('num_subchannels',), ('is_continuous',), ('marching_periods',)]
    got = [ast.unparse(a) for a in call.args]
    ok = len(got) == len(want) and not call.keywords and all(any(w in g for w in ws) for g, ws in zip(got, want))
    if ok: rep.ob(name, 'discharged', 'syntactic (AST of the call)', 0, 0, 1, sample={'arguments': got})
    else: rep.violation(name, 'EXT.py_init_call', 'arguments of the call: %s' % (got,), replay_body=REPLAY_INIT)



def run_dtype(rep, st, tier):
    """extension: get_hdf5_data_type maps (byte order, numpy kind, item size) to the HDF5 type of exactly that class, size, sign and byte order,
    and to -1 for everything else (all 2^21 argument triples, decided per path)"""
    try:
        ir = _ir(); mod = Module(ir)
    except Exception as e:
        rep.ob('extension: element type table', 'inconclusive', detail=str(e)[:300]); return
    rep.functions.append('get_hdf5_data_type (extension)')
    bo, dc, bc = z3.Ints('dt_order dt_kind dt_size')
    def cond(o, k, sz=None):
        c = [dc == ord(k)]
        if o is not None: c.append(bo == ord(o))
        else: c.append(z3.And(bo != ord('<'), bo != ord('>')))
        if sz is not None: c.append(bc == sz)
        return z3.And(*c)
    table = {}
    for o, suf in (('<', 'LE'), ('>', 'BE')):
        table['H5T_IEEE_F32' + suf] = [cond(o, 'f', 4)]
        table['H5T_IEEE_F64' + suf] = [cond(o, 'f', 8), cond(o, 'd')]
        for sz in (1, 2, 4, 8):
            table['H5T_STD_I%d%s' % (8 * sz, suf)] = [cond(o, 'i', sz)]
            table['H5T_STD_U%d%s' % (8 * sz, suf)] = [cond(o, 'u', sz)]
    # byte order not applicable ('|', '='): numpy uses it for one-byte items
    table['H5T_STD_I8LE'].append(cond(None, 'i')); table['H5T_STD_U8LE'].append(cond(None, 'u'))
    supported = z3.Or(*[c for cs in table.values() for c in cs])
    res = []; seen = set()

    def setup(ex):
        ex.assume(z3.And(bo >= 0, bo < 128, dc >= 0, dc < 128, bc >= -2**31, bc < 2**31))
        return [bo, dc, bc]

    def on_path(ex, status, ret):
        if status != 'ret': res.append(('abort', False)); return
        txt = str(ret)
        m = re.search(r'@(H5T_\w+?)_g', txt)
        if m:
            nm = m.group(1); seen.add(nm)
            res.append((nm, nm in table and ex.valid(z3.Or(*table[nm]))))
        else:
            res.append(('-1', ex.valid(z3.Not(supported)) and (isinstance(ret, int) and ret in (2**64 - 1, -1) or ex.valid(ret == 2**64 - 1))))

    ex = Exec(mod, envstubs.mk_stubs(), {}, timeout_ms=4000, fallback_ms=60000)
    try:
        ex.explore('@get_hdf5_data_type', setup, on_path)
    except (Inconclusive, AssertFail) as e:
        rep.ob('extension: element type table', 'inconclusive', detail=str(e)[:300]); return
    name = 'extension: (byte order, kind, item size) -> HDF5 type of exactly that class / size / sign / byte order; unsupported combinations refused'
    bad = [r_ for r_ in res if not r_[1]]
    if not bad and len(seen) == len(table):
        rep.ob(name, 'discharged', 'all byte-order / kind characters and item sizes', ex.nq, ex.tq, len(res), sample={'types': sorted(seen)})
    elif bad:
        rep.violation(name, 'EXT.dtype_table', 'wrong or missing mapping on paths returning %s' % sorted(set(r_[0] for r_ in bad))[:6], replay_body=REPLAY_DTYPE)
    else:
        rep.ob(name, 'inconclusive', detail='types never returned: %s' % sorted(set(table) - seen))


REPLAY_DTYPE = '''
from vlib import build
import numpy as np, tempfile, os, shutil, sys, h5py, glob, warnings
warnings.simplefilter('ignore')
drf = build.load_pkg()
bad = 0
for dt in ('<i1', '<i2', '<i4', '<i8', '<u1', '<u2', '<u4', '<u8', '<f4', '<f8', '>i2', '>i4', '>i8', '>u2', '>u4', '>u8', '>f4', '>f8', 'i1', 'u1'):
    top = tempfile.mkdtemp(); os.makedirs(top + '/ch')
    try:
        w = drf.DigitalRFWriter(top + '/ch', dt, 3600, 1000, 10**10, 10, 1, 'u', is_complex=False, marching_periods=False)
        w.rf_write(np.arange(5).astype(dt)); w.close()
        f = glob.glob(top + '/ch/*/rf@*.h5')[0]
        with h5py.File(f, 'r') as h: got = h['rf_data'].dtype
        if got != np.dtype(dt) or got.byteorder.replace('=', '<') != np.dtype(dt).byteorder.replace('=', '<'):
            print('requested', np.dtype(dt).str, 'stored as', got.str); bad = 1
    except Exception as e:
        print(dt, type(e).__name__, e); bad = 1
    shutil.rmtree(top)
sys.exit(1 if bad else 0)
'''



def run_getters(rep, st, tier):
    """extension glue of the three getters: each wrapper calls exactly its own library getter on the writer object and returns that value"""
    try:
        ir = _ir(); mod = Module(ir)
    except Exception as e:
        rep.ob('extension glue: getters', 'inconclusive', detail=str(e)[:300]); return
    rep.functions.append('_py_rf_write_hdf5_get_last_file_written / _get_last_dir_written / _get_last_utc_timestamp (extension)')
    pairs = [('@_py_rf_write_hdf5_get_last_file_written', 'digital_rf_get_last_file_written', 's'),
             ('@_py_rf_write_hdf5_get_last_dir_written', 'digital_rf_get_last_dir_written', 's'),
             ('@_py_rf_write_hdf5_get_last_utc_timestamp', 'digital_rf_get_last_write_time', 'K')]
    bad = []; npaths = 0
    for fn, want, fmt in pairs:
        res = []

        def setup(ex):
            o = WObj(ex); o.fresh_open_state(10, 1, 2, 1000, 0, 0, 1)
            ex.user['wobj'] = o
            ex.user['pyargs'] = [Ptr(ex.new_region('capsule'))]
            return [NULL, Ptr(ex.new_region('args'))]

        def on_path(ex, status, ret, want=want, fmt=fmt):
            calls = [e for e in ex.events if e[0] == 'lib']; rets = [e for e in ex.events if e[0] == 'ret']
            ok = status == 'ret' and len(calls) == 1 and calls[0][1] == want and calls[0][2][0] == ex.user['wobj'].ptr and len(rets) == 1 and rets[0][1] == fmt
            if ok:
                v = rets[0][2][0]; w_ = calls[0][4]
                ok = (isinstance(v, Ptr) and isinstance(w_, Ptr) and v.region == w_.region) if fmt == 's' else (not isinstance(v, Ptr) and ex.valid(v == w_))
            res.append(bool(ok))

        S = _stubs(None)
        def getter(name, isstr):
            def f(ex, o):
                if isstr:
                    r = ex.new_region('str_' + name); ex.mem[r]['cells'][()] = SymStr([name]); val = Ptr(r, (0,))
                else:
                    val = z3.Int('val_' + name)
                ex.events.append(('lib', name, (o,), True, val)); return val
            return f
        for nm, isstr in (('digital_rf_get_last_file_written', True), ('digital_rf_get_last_dir_written', True), ('digital_rf_get_last_write_time', False)):
            S['@' + nm] = getter(nm, isstr)
        ex = Exec(mod, S, {}, timeout_ms=4000, fallback_ms=60000)
        try:
            npaths += ex.explore(fn, setup, on_path)
        except (Inconclusive, AssertFail) as e:
            rep.ob('extension glue: getters', 'inconclusive', detail='%s: %s' % (fn, str(e)[:200])); return
        if not res or not all(res): bad.append(fn)
    name = 'extension glue: get_last_file_written / get_last_dir_written / get_last_utc_timestamp each call their own library getter on the writer object and return its value'
    if not bad: rep.ob(name, 'discharged', 'all states of the writer object', 0, 0, npaths)
    else: rep.violation(name, 'EXT.getters', 'wrong wiring in %s' % bad, replay_body=REPLAY_GETTERS)


REPLAY_GETTERS = '''
from vlib import build
import numpy as np, tempfile, os, shutil, sys, time, warnings
warnings.simplefilter('ignore')
drf = build.load_pkg()
top = tempfile.mkdtemp(); os.makedirs(top + '/ch')
w = drf.DigitalRFWriter(top + '/ch', 'i2', 3600, 1000, 10**10, 10, 1, 'u', is_complex=False, marching_periods=False)
t0 = int(time.time()) - 2
w.rf_write(np.arange(25, dtype='i2'))
f, d, t = w.get_last_file_written(), w.get_last_dir_written(), w.get_last_utc_timestamp()
bad = 0
if not (os.path.basename(f).endswith('rf@1000000002.000.h5') and os.path.dirname(f) == os.path.normpath(d) and os.path.isdir(d)): print('last file / dir', f, d); bad = 1
if not (t0 <= int(t) <= int(time.time()) + 2): print('last write time', t); bad = 1
w.close(); shutil.rmtree(top)
sys.exit(1 if bad else 0)
'''
