"""C15 Live event filter agrees with listing; finalizing rename is a creation.
E-RX: for every include-flag combination the language of paths accepted by the real handler's compiled regexes equals the language of
paths the lister would list (its regex choice is observed by instrumenting the real ilsdrf/_yield_matching_files), over the property's
domain; E-CH: CrossHair on the real dispatch() with stub matchers for the window / move conversion logic."""
import itertools, os, re, time
import z3
from vlib import common, smt, rx, chx, chload

FUNCS = ['DigitalRFEventHandler.__init__ (regex selection)', 'DigitalRFEventHandler.dispatch', 'list_drf._yield_matching_files (regex choice)',
         'list_drf.ilsdrf (property regex choice)', 'list_drf RE_* patterns']

TITLES = {
    '_dispatch_simple': 'created/modified/deleted delivered iff the path matches and start <= name time <= end (inclusive; bounds are datetimes with microsecond resolution, naive = UTC or aware with any offset; handler built by its real constructor), to on_<type>',
    '_dispatch_untimed': 'names without a timestamp and match_time=False bypass the window',
    '_dispatch_moved': 'moved: only dest matches -> creation of dest (finalizing rename); only src -> deletion of src; both -> moved; none -> dropped',
    '_dispatch_dirs': 'directory events are never delivered',
    '_dispatch_witness': 'reachability: a delivered event is reachable',
}

REPLAY = '''
from vlib import build
import os, sys, tempfile, shutil, datetime
drf = build.load_pkg()
from digital_rf import watchdog_drf as W, list_drf as L
from watchdog.events import FileCreatedEvent
rel, flags = %r, %r
import re
# the solver's witness is normalised without changing its membership in any of the path grammars: control / non-ASCII characters (matched
# only by wildcards) become 'x', and the digits of a timestamped subdirectory name become a valid calendar date
rel = ''.join(c if 32 <= ord(c) < 127 else 'x' for c in rel)
rel = re.sub(r'(?<![0-9])[0-9]{4}-[0-9]{2}-[0-9]{2}T[0-9]{2}-[0-9]{2}-[0-9]{2}(?![0-9])', '2020-01-01T00-00-00', rel)
top = tempfile.mkdtemp()
path = os.path.join(top, rel.lstrip('/'))
os.makedirs(os.path.dirname(path), exist_ok=True)
open(path, 'w').close()
# make every directory on the way a channel of both kinds so that only the path grammar decides
d = os.path.dirname(path)
for dd in (d, os.path.dirname(d)):
    for pf in ('drf_properties.h5', 'dmd_properties.h5'):
        q = os.path.join(dd, pf)
        if not os.path.exists(q) and os.path.abspath(q) != os.path.abspath(path): open(q, 'w').close()
got = []
class H(W.DigitalRFEventHandler):
    def on_created(self, e): got.append(e.src_path)
h = H(**flags)
h.dispatch(FileCreatedEvent(path))
listed = path in L.lsdrf(top, **flags)
print('path', repr(path), 'watcher accepts', bool(got), 'lister lists', listed)
shutil.rmtree(top)
sys.exit(1 if bool(got) != listed else 0)
'''


REPLAY_DISPATCH = '''
from vlib import build
import sys, datetime
drf = build.load_pkg()
from digital_rf import watchdog_drf as W
from watchdog.events import FileCreatedEvent, FileModifiedEvent, FileDeletedEvent, FileMovedEvent
kw, mode = %r, %r
EPOCH = datetime.datetime(1970, 1, 1, tzinfo=datetime.timezone.utc)
def name(ok, secs, frac):
    if not ok: return '/w/ch/2020-01-01T00-00-00/notes.txt'
    return '/w/ch/2020-01-01T00-00-00/' + ('rf@%%d.%%03d.h5' %% (secs, frac) if frac is not None else 'metadata@%%d.h5' %% secs)
def tm(ms, us):
    if ms is None: return None
    t = EPOCH + datetime.timedelta(milliseconds=ms, microseconds=us)
    if kw.get('aware'): return t.astimezone(datetime.timezone(datetime.timedelta(seconds=kw.get('off', 0))))
    return t.replace(tzinfo=None)
got = []
class H(W.DigitalRFEventHandler):
    def on_created(self, e): got.append(('created', e.src_path))
    def on_modified(self, e): got.append(('modified', e.src_path))
    def on_deleted(self, e): got.append(('deleted', e.src_path))
    def on_moved(self, e): got.append(('moved', e.src_path, e.dest_path))
h = H(starttime=tm(kw.get('start'), kw.get('sub', 0)), endtime=tm(kw.get('end'), kw.get('sube', 0)))
inwin = lambda secs, frac: (kw.get('start') is None or (secs * 1000 + (frac or 0)) * 1000 >= kw['start'] * 1000 + kw.get('sub', 0)) and (kw.get('end') is None or (secs * 1000 + (frac or 0)) * 1000 <= kw['end'] * 1000 + kw.get('sube', 0))
if mode == 'simple':
    p = name(kw['ok'], kw['secs'], kw['frac'])
    ev = [FileCreatedEvent, FileModifiedEvent, FileDeletedEvent][kw['kind']](p)
    h.dispatch(ev)
    want = [(['created', 'modified', 'deleted'][kw['kind']], p)] if kw['ok'] and inwin(kw['secs'], kw['frac']) else []
else:
    src = name(kw['src_ok'], kw['s_secs'], kw['frac']); dst = name(kw['dst_ok'], kw['d_secs'], kw['frac'])
    if not kw['src_ok']: src = src.replace('notes', 'tmp.rf@1.000')
    h.dispatch(FileMovedEvent(src, dst))
    if kw['dst_ok'] and not kw['src_ok']: want = [('created', dst)] if inwin(kw['d_secs'], kw['frac']) else []
    elif kw['src_ok'] and not kw['dst_ok']: want = [('deleted', src)] if inwin(kw['s_secs'], kw['frac']) else []
    elif kw['src_ok'] and kw['dst_ok']: want = [('moved', src, dst)] if inwin(kw['d_secs'], kw['frac']) else []
    else: want = []
print('delivered', got, 'expected', want)
sys.exit(1 if got != want else 0)
'''


class ProxyRe:
    def __init__(self, name, real, log): self.name, self.real, self.log = name, real, log
    def match(self, s): self.log.append((self.name, s)); return self.real.match(s)
    @property
    def pattern(self): return self.real.pattern


def lister_choice(L, flags):
    """which compiled regexes does the real lister consult for data files (per channel kind) and for property files, under `flags`?"""
    names = ['_RE_FILE', '_RE_DRFFILE', '_RE_DMDFILE', '_RE_PROPFILE', '_RE_DRFPROPFILE', '_RE_DMDPROPFILE']
    real = {n: getattr(L, n) for n in names}
    out = {'file': {}, 'prop': None}
    try:
        for kind, props in (('drf', ['drf_properties.h5']), ('dmd', ['dmd_properties.h5']), ('legacy', ['metadata.h5']),
                            ('both', ['drf_properties.h5', 'dmd_properties.h5'])):
            log = []
            for n in names: setattr(L, n, ProxyRe(n, real[n], log))
            old_listdir = L.os.listdir
            L.os.listdir = lambda p: ['PROBEFILE']
            try:
                list(L._yield_matching_files('/r', ['2020-01-01T00-00-00'], props, flags['include_drf'], flags['include_dmd']))
            finally:
                L.os.listdir = old_listdir
            used = sorted(set(n for n, s_ in log if s_ == 'PROBEFILE'))
            out['file'][kind] = used
        log = []
        for n in names: setattr(L, n, ProxyRe(n, real[n], log))
        old_walk = L.os.walk
        L.os.walk = lambda p: iter([(p, [], ['drf_properties.h5', 'dmd_properties.h5', 'metadata.h5'])])
        try:
            list(L.ilsdrf('/r', **flags))
        finally:
            L.os.walk = old_walk
        calls = [n for n, s_ in log if s_ == 'metadata.h5']
        # first call is the channel test (_RE_PROPFILE); a second one, if any, is the property filter
        out['prop'] = calls[1] if len(calls) > 1 else None
        out['prop_calls'] = calls
    finally:
        for n in names: setattr(L, n, real[n])
    return out


def main(tier):
    rep = common.Report('C15', tier, 'proof', functions=FUNCS)
    st = smt.Stats()
    drf = chload.load()
    from digital_rf import list_drf as L, watchdog_drf as W
    rep.assume("domain of the property: paths ROOT/SUB/FILE and ROOT/FILE below a channel directory, SUB and FILE without '/', fixed parts in the "
               "format's lower case (no upper-case letters except the 'T' of the subdirectory name), the channel directory holding the properties "
               'file(s) that make the kind listable', 'watchdog compiles the handler regexes with re.IGNORECASE and uses match() (read from the real handler object)')
    rep.outside_claim('ignore_regexes supplied by the caller', 'the forward-fill file a metadata listing adds (excluded by the property)')
    # domain
    up = z3.Range('A', 'Z')
    ns_file = z3.Plus(z3.Intersect(rx.ANYCHAR, z3.Complement(z3.Union(z3.Re('/'), rx.NL, up))))
    ns_sub = z3.Plus(z3.Intersect(rx.ANYCHAR, z3.Complement(z3.Union(z3.Re('/'), rx.NL, z3.Range('A', 'S'), z3.Range('U', 'Z'), z3.Re('t')))))
    pre = z3.Re('/w/ch0/')
    D_file = z3.Concat(pre, ns_sub, z3.Re('/'), ns_file)
    D_prop = z3.Concat(pre, ns_file)
    sub_exact = rx.fullmatch_lang(L._RE_SUBDIR.pattern)
    nq = 0; t0 = time.time(); bad = 0
    combos = []
    for idrf, idmd, pdrf, pdmd in itertools.product([True, False], [True, False], [None, True, False], [None, True, False]):
        flags = dict(include_drf=idrf, include_dmd=idmd, include_drf_properties=pdrf, include_dmd_properties=pdmd)
        eff = (idrf, idmd, idrf if pdrf is None else pdrf, idmd if pdmd is None else pdmd)
        if not any(eff): continue
        combos.append((flags, eff))
    seen = set()
    for flags, eff in combos:
        if eff in seen and tier == 'quick': continue
        seen.add(eff)
        try:
            h = W.DigitalRFEventHandler(**flags)
        except ValueError:
            continue
        Wl = z3.Union(*[rx.match_lang(r.pattern, r.flags) for r in h.regexes]) if len(h.regexes) > 1 else rx.match_lang(h.regexes[0].pattern, h.regexes[0].flags)
        ch = lister_choice(L, flags)
        file_res = sorted(set(n for used in ch['file'].values() for n in used))
        parts = []
        if file_res:
            fl = z3.Union(*[rx.match_lang(getattr(L, n).pattern, getattr(L, n).flags) for n in file_res]) if len(file_res) > 1 else \
                rx.match_lang(getattr(L, file_res[0]).pattern, getattr(L, file_res[0]).flags)
            parts.append(z3.Concat(pre, sub_exact, z3.Re('/'), z3.Intersect(fl, ns_file)))
        if eff[2] or eff[3]:
            pl = rx.match_lang(L._RE_PROPFILE.pattern)
            if ch['prop']: pl = z3.Intersect(pl, rx.match_lang(getattr(L, ch['prop']).pattern))
            elif len(ch['prop_calls']) < 1: pl = None
            if pl is not None:
                parts.append(z3.Concat(pre, z3.Intersect(pl, ns_file)))
                # a properties file one level down makes that (non-timestamp) directory a channel of its own: listed there as well
                parts.append(z3.Concat(pre, z3.Intersect(ns_sub, z3.Complement(sub_exact)), z3.Re('/'), z3.Intersect(pl, ns_file)))
        Ll = z3.Union(*parts) if len(parts) > 1 else (parts[0] if parts else z3.Empty(rx.RS))
        # outside the property's domain (not at the format's depth): a properties-named file inside a timestamped subdirectory
        odd = z3.Concat(pre, sub_exact, z3.Re('/'), rx.match_lang(L._RE_PROPFILE.pattern))
        D = z3.Intersect(z3.Union(D_file, D_prop), z3.Complement(odd))
        for tag, X in (('accepted by the watcher but not listable', z3.Intersect(D, Wl, z3.Complement(Ll))),
                       ('listable but not accepted by the watcher', z3.Intersect(D, Ll, z3.Complement(Wl)))):
            r, w = rx.empty(X, 120, st); nq += 1
            name = 'flags drf=%s dmd=%s drf_props=%s dmd_props=%s: no path is %s' % (eff + (tag,))
            if r == 'unsat': continue
            bad += 1
            if r == 'sat':
                path = rx.unescape(w)
                rep.violation(name, 'C15.grammar.' + tag[:20], 'path %r is %s' % (path, tag), replay_body=REPLAY % (path, flags),
                              bounds='bounded grammar (see assumptions)', sample={'path': path, 'flags': flags})
            else:
                rep.ob(name, 'inconclusive', detail='regex emptiness unknown')
    if not bad:
        rep.ob('for every include-flag combination: watcher-accepted paths == listable paths (file in SUBDIR with the selected file grammar, or '
               'selected properties file at channel level)', 'discharged', '%d flag combinations x 2 inclusions, bounded path grammar' % len(seen),
               nq, time.time() - t0, nq, sample={'combinations': len(seen), 'watcher_regexes': [r.pattern for r in W.DigitalRFEventHandler().regexes]})
    # grammar facts shared with C14 / C02
    facts = [('tmp.-prefixed names are never data/metadata files (RE_DRFFILE, RE_DMDFILE, RE_FILE)',
              z3.Intersect(z3.Union(*[rx.match_lang(getattr(L, n).pattern) for n in ('_RE_DRFFILE', '_RE_DMDFILE', '_RE_FILE')]), z3.Concat(z3.Re('tmp.'), rx.SIGSTAR))),
             ('tmp.-prefixed basenames are never accepted by the watcher', z3.Intersect(z3.Concat(pre, z3.Star(z3.Intersect(rx.ANYCHAR, z3.Complement(z3.Re('/')))), z3.Re('/tmp.'), ns_file),
              z3.Union(*[rx.match_lang(r.pattern, r.flags) for r in W.DigitalRFEventHandler().regexes])))]
    for nm, X in facts:
        r, w = rx.empty(X, 60, st)
        if r == 'unsat': rep.ob(nm, 'discharged', 'all strings', 1, 0, 1)
        elif r == 'sat': rep.violation(nm, 'C15.tmp', 'string %r' % rx.unescape(w), replay_body=REPLAY % ('/ch0/2020-01-01T00-00-00/' + os.path.basename(rx.unescape(w)), {}))
        else: rep.ob(nm, 'inconclusive', detail='unknown')
    # validate the regex translator itself against Python's re on solver-chosen and seeded strings
    import random
    rng = random.Random(rep.seed)
    pats = [(r.pattern, r.flags) for r in W.DigitalRFEventHandler().regexes] + [(getattr(L, n).pattern, getattr(L, n).flags) for n in ('_RE_FILE', '_RE_DRFFILE', '_RE_DMDFILE', '_RE_PROPFILE', '_RE_SUBDIR')]
    alphabet = ['rf', 'tmp.', '@', '1', '23', '.', '000', '.h5', '/', '2020-01-01T00-00-00', 'metadata', 'drf_properties', 'x', 'T', 't', '\n', 'H5', '-']
    mism = 0; nval = 0
    for pat, fl in pats:
        lang = rx.match_lang(pat, fl); cre = re.compile(pat, fl)
        for _ in range(40 if tier == 'quick' else 400):
            sstr = ''.join(rng.choice(alphabet) for _ in range(rng.randrange(1, 9)))
            s = z3.Solver(); s.add(z3.InRe(z3.StringVal(sstr), lang)); nval += 1
            if (s.check() == z3.sat) != bool(cre.match(sstr)): mism += 1
    rep.ob('regex translator agrees with Python re on %d seeded strings' % nval, 'witness' if mism == 0 else 'inconclusive', None, nval, 0, 0,
           detail=None if mism == 0 else '%d disagreements' % mism)
    res = chx.run_module('watch', per_condition_timeout=120 if tier == 'quick' else 600)
    chx.report(rep, res, TITLES, replays={'_dispatch_simple': lambda kw: REPLAY_DISPATCH % (kw, 'simple'), '_dispatch_moved': lambda kw: REPLAY_DISPATCH % (kw, 'moved')},
               sigs={'_dispatch_simple': 'C15.dispatch.window', '_dispatch_moved': 'C15.dispatch.moved'})
    return rep.finish()
