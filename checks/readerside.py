"""Reader-side obligations shared by C01 / C08:
 N1a  the numeric expressions of the real DigitalRFReader._get_file_list (AST -> SMT, numpy.longdouble modelled exactly when present) bound
      the candidate window correctly for every sample of 1980..2100 at the listed rates/cadences
 N1b  CrossHair on the real _get_file_list with a list-backed numpy shim: for every s0 <= k <= s1 the writer's file of k is a candidate,
      and _get_file_list(k, k) is exactly that file (bounded small domain; rate/cadence concrete)
 R1/R2 (C01): _read / _combine_blocks harnesses of checks/ch/reader.py
"""
import ast, os, time
from fractions import Fraction
import z3
from vlib import build, smt, rates, spec, astnum, chx

PYFILE = os.path.join(build.PYPKG, 'digital_rf_hdf5.py')

REPLAY_N1 = '''
from vlib import build, spec
import numpy as np, tempfile, os, shutil, sys, warnings
warnings.simplefilter('ignore')
drf = build.load_pkg()
n, d, sc, fc, k = %r
top = tempfile.mkdtemp(); os.makedirs(top + '/ch')
start = max(0, k - 2)
w = drf.DigitalRFWriter(top + '/ch', 'i2', sc, fc, start, n, d, 'u', is_complex=False, is_continuous=False, marching_periods=False)
w.rf_write(np.arange(5, dtype='i2')); w.close()
r = drf.DigitalRFReader(top)
bad = 0
for (a, b) in ((k, k), (start, k), (k, start + 4), (start, start + 4)):
    got = {int(kk): [int(x) for x in np.ravel(v)] for kk, v in r.read(a, b, 'ch').items()}
    want = {a: [i - start for i in range(a, b + 1)]}
    if got != want: print('read(%%d, %%d) returned %%s, expected %%s' %% (a, b, got, want)); bad = 1
try:
    p = r.get_properties('ch', sample=k)
except Exception as e:
    print('get_properties(sample=%%d) raised %%s: %%s' %% (k, type(e).__name__, e)); bad = 1
print('file of k:', spec.subdir_name(spec.dir_sec(k, n, d, sc)) + '/' + spec.file_name(spec.file_ms(k, n, d, fc)))
shutil.rmtree(top)
sys.exit(1 if bad else 0)
'''


def n1a(rep, st, tier, want_single=False):
    """numeric window bounds of _get_file_list vs exact rational time"""
    try:
        fn = astnum.find_function(PYFILE, 'DigitalRFReader._get_file_list')
    except astnum.Unsupported as e:
        rep.ob('N1a: _get_file_list numeric bounds', 'inconclusive', detail=str(e)); return
    params = [a.arg for a in fn.args.args]
    asg = {}
    for ln, name, val in astnum.assignments(fn):
        if name in ('start_ts', 'end_ts', 'start_msts', 'end_msts', 'sample0', 'sample1') and name not in asg:
            asg[name] = val
    need = ('start_ts', 'end_ts', 'start_msts', 'end_msts')
    if any(x not in asg for x in need):
        rep.ob('N1a: _get_file_list numeric bounds', 'inconclusive', detail='assignments %s not found' % [x for x in need if x not in asg]); return
    rate_list = (rates.QUICK_RATES if tier == 'quick' else rates.thorough_rates(40))
    cad_list = rates.QUICK_CADENCES if tier == 'quick' else rates.thorough_cadences()
    t0 = time.time(); nq = 0; bad = 0; unk = 0; ncfg = 0
    k = z3.Int('k')
    floats = any('samples_per_second' in ast.unparse(asg[x]) for x in need)
    for (n, d) in rate_list:
        lo, hi = -((-rates.Y1980 * n) // d), (rates.Y2100 * n) // d
        for (sc, fc) in cad_list:
            if fc * n < 1000 * d: continue
            ncfg += 1
            SEC = (k * d) / n; MS = (k * d * 1000) / n
            FM = (MS / fc) * fc; DIR = (SEC / sc) * sc
            claims = [('start_ts', 'start second <= exact second of the first sample', lambda v: v <= SEC),
                      ('end_ts', 'end second >= subdirectory second of the last sample', lambda v: v >= DIR),
                      ('start_msts', 'start millisecond <= exact millisecond of the first sample', lambda v: v <= MS),
                      ('end_msts', 'end millisecond >= file millisecond of the last sample', lambda v: v >= FM)]
            if want_single:
                claims += [('start_msts', 'single-sample query: start millisecond >= file millisecond (exactly one candidate)', lambda v: v >= FM),
                           ('end_msts', 'single-sample query: end millisecond < next file millisecond (exactly one candidate)', lambda v: v < FM + fc)]
            for var, text, claim in claims:
                ch = astnum.Choices()
                for run in ch.runs():
                    env = {'sample0': k, 'sample1': k, 'subdir_cadence_seconds': sc, 'file_cadence_millisecs': fc,
                           'samples_per_second': astnum.ld_const(n, d), 'sample_rate_numerator': n, 'sample_rate_denominator': d}
                    cx = astnum.Ctx(run, env, {'k': (lo, hi)})
                    try:
                        v = astnum.ev(asg[var], cx)
                        if isinstance(v, (astnum.LD, astnum.LDC)): v = cx.trunc(v)
                    except astnum.Unsupported as e:
                        rep.ob('N1a: _get_file_list numeric bounds', 'inconclusive', detail='unsupported syntax in %s: %s' % (var, e)); return
                    r, m = smt.solve([k >= lo, k <= hi] + cx.cons, [z3.Not(claim(v))], 60, st); nq += 1
                    if r == 'sat':
                        kk = m[k].as_long(); bad += 1
                        rep.violation('N1a: %s' % text, 'N1.reader_file_list.' + var, '%s fails at rate %d/%d, cadence %ds/%dms, sample %d (candidate list computed with %s)'
                                      % (text, n, d, sc, fc, kk, 'numpy.longdouble' if floats else 'integers'),
                                      replay_body=REPLAY_N1 % ((n, d, sc, fc, kk),), bounds='rate %d/%d cadence %ds/%dms' % (n, d, sc, fc),
                                      sample={'rate': (n, d), 'cadence': (sc, fc), 'k': kk})
                        break
                    if r != 'unsat': unk += 1
                if bad: break
            if bad: break
        if bad: break
    if unk:
        rep.ob('N1a: _get_file_list numeric bounds', 'inconclusive', detail='%d queries unknown' % unk)
    elif not bad:
        rep.ob('N1a: the window bounds computed by the real _get_file_list (%s) never exclude the file of a sample in range%s'
               % ('numpy.longdouble arithmetic, exact IEEE model' if floats else 'exact integer arithmetic', '; single-sample queries select exactly one file' if want_single else ''),
               'discharged', '%d (rate, cadence) configurations x all samples with time in [1980, 2100)' % ncfg, nq, time.time() - t0, nq,
               sample={'expressions': {x: ast.unparse(asg[x]) for x in need}})


TITLES_N1B = {
    '_single_sample_one_file': 'N1b (CrossHair, executes the real loops): _get_file_list(k, k) is exactly [file of k] for 0 <= k <= 120 at 10 Hz and 200/3 Hz (get_properties(sample=k))',
    '_filelist_witness': 'reachability: a two-file candidate list is reachable',
}


def n1b(rep, st, tier):
    res = chx.run_module('filelist', per_condition_timeout=240 if tier == 'quick' else 900)
    chx.report(rep, res, TITLES_N1B, sigs={k: 'N1.' + k.strip('_') for k in TITLES_N1B})


TITLES_R = {
    '_read_lengths': 'R1: block lengths == Blocks(Sem(index)) clipped to the range (per file, <=3 index rows)',
    '_read_slices': 'R1: data read: one slice per block, exactly the rows of the requested samples, column = sub_channel',
    '_read_witness': 'reachability: a two-block result is reachable',
    '_two_files': 'R1: two files: blocks of both in file order, unreadable/vanished file skipped',
    '_combine3': 'R2: cross-file merge: adjacent blocks merge, gaps split, ascending order, any input order',
    '_combine2_arrays': 'R2: data mode: adjacent arrays concatenated in order, otherwise returned as-is',
    '_combine_witness': 'reachability: a merge is reachable',
}


def c01_part(rep, st, tier):
    rep.functions += ['DigitalRFReader._get_file_list', '_top_level_dir_properties._read', 'DigitalRFReader._combine_blocks']
    n1a(rep, st, tier)
    n1b_symbolic(rep, st, tier)
    n1b(rep, st, tier)
    res = chx.run_module('reader', names=list(TITLES_R), per_condition_timeout=120 if tier == 'quick' else 600)
    chx.report(rep, res, TITLES_R, replays=READ_REPLAYS, sigs={k: 'R1.' + k.strip('_') for k in TITLES_R})


def c08_part(rep, st, tier):
    n1a(rep, st, tier, want_single=True)
    n1b_symbolic(rep, st, tier)
    n1b(rep, st, tier)


# ----------------------------------------------------------------------------- N1b (symbolic): membership of the writer's file in the list

def _cmp(node, ev_):
    a, b = ev_(node.left), ev_(node.comparators[0]); op = type(node.ops[0])
    return {ast.GtE: a >= b, ast.Gt: a > b, ast.LtE: a <= b, ast.Lt: a < b, ast.Eq: a == b, ast.NotEq: a != b}[op]


def n1b_symbolic(rep, st, tier):
    """Read the loop structure of the real _get_file_list from its AST (range over subdirectory seconds, arange over file milliseconds,
    validity mask, name formats) and let z3 show: for all s0 <= k <= s1 (times 1980..2100) the pair (dir_sec(k), file_ms(k)) is produced by
    the loops, passes the mask, and is formatted to the writer's names."""
    title = 'N1b: for all s0 <= k <= s1 the loops of _get_file_list yield subdir(dir_sec(k))/rf@file_ms(k) (range/arange membership, mask, name formats read from the AST)'
    try:
        fn = astnum.find_function(PYFILE, 'DigitalRFReader._get_file_list')
        loops = [n_ for n_ in ast.walk(fn) if isinstance(n_, ast.For)]
        outer = next(l for l in loops if isinstance(l.iter, ast.Call) and ast.unparse(l.iter.func) == 'range')
        rng = outer.iter.args
        sub_var = outer.target.id
        body_asg = {x.targets[0].id: x.value for x in ast.walk(outer) if isinstance(x, ast.Assign) and isinstance(x.targets[0], ast.Name)}
        ar = next(v for v in body_asg.values() if isinstance(v, ast.Call) and ast.unparse(v.func) in ('np.arange', 'numpy.arange'))
        arr_name = next(k_ for k_, v in body_asg.items() if v is ar)
        mask = next(v for v in body_asg.values() if isinstance(v, ast.Call) and ast.unparse(v.func) in ('np.logical_and', 'numpy.logical_and'))
        comp = next(v for v in body_asg.values() if isinstance(v, ast.Call) and ast.unparse(v.func) in ('np.compress', 'numpy.compress'))
        mask_name = next(k_ for k_, v in body_asg.items() if v is mask)
        assert ast.unparse(comp.args[0]) == mask_name and ast.unparse(comp.args[1]) == arr_name
        inner = next(l for l in ast.walk(outer) if isinstance(l, ast.For) and l is not outer)
        elt = inner.target.id
        fmt = next(v for v in body_asg.values() if isinstance(v, ast.BinOp) and isinstance(v.op, ast.Mod) and isinstance(v.left, ast.Constant) and isinstance(v.left.value, str))
        sfmt = next(v for v in body_asg.values() if isinstance(v, ast.Call) and isinstance(v.func, ast.Attribute) and v.func.attr == 'strftime')
        ts_call = next(v for v in body_asg.values() if isinstance(v, ast.Call) and ast.unparse(v.func).endswith('fromtimestamp'))
        join = next(v for v in body_asg.values() if isinstance(v, ast.Call) and ast.unparse(v.func) == 'os.path.join')
        appended = [x for x in ast.walk(inner) if isinstance(x, ast.Call) and isinstance(x.func, ast.Attribute) and x.func.attr == 'append']
        ok_shape = (fmt.left.value == 'rf@%i.%03i.h5' and sfmt.args[0].value == '%Y-%m-%dT%H-%M-%S' and ast.unparse(ts_call.args[0]) == sub_var
                    and len(appended) == 1 and len(join.args) == 2 and any(k_.arg == 'tz' and 'utc' in ast.unparse(k_.value) for k_ in ts_call.keywords))
        if not ok_shape: raise astnum.Unsupported('name formatting / append structure changed')
    except (StopIteration, AssertionError, AttributeError, astnum.Unsupported) as e:
        rep.ob(title, 'inconclusive', detail='loop structure of _get_file_list not recognised: %r' % (e,)); return
    asg_all = {}
    for ln, name, val in astnum.assignments(fn):
        asg_all.setdefault(name, val)
    rate_list = rates.QUICK_RATES if tier == 'quick' else rates.thorough_rates(40)
    cad_list = rates.QUICK_CADENCES if tier == 'quick' else rates.thorough_cadences()
    s0, k, s1 = z3.Ints('s0 k s1')
    t0 = time.time(); nq = 0; ncfg = 0
    for (n, d) in rate_list:
        lo, hi = -((-rates.Y1980 * n) // d), (rates.Y2100 * n) // d
        for (sc, fc) in cad_list:
            if fc * n < 1000 * d or (sc * 1000) % fc: continue
            ncfg += 1
            env = {'sample0': s0, 'sample1': s1, 'subdir_cadence_seconds': sc, 'file_cadence_millisecs': fc,
                   'sample_rate_numerator': n, 'sample_rate_denominator': d}
            ch = astnum.Choices(); run = next(ch.runs())
            cx = astnum.Ctx(run, env, {'s0': (lo, hi), 's1': (lo, hi), 'k': (lo, hi)})
            try:
                for nm in ('start_ts', 'end_ts', 'start_msts', 'end_msts', 'start_sub_ts', 'end_sub_ts'):
                    v = astnum.ev(asg_all[nm], cx)
                    if isinstance(v, (astnum.LD, astnum.LDC)): raise astnum.Unsupported('floating point candidate window (decided by N1a only)')
                    cx.env[nm] = v
                SEC = (k * d) / n; MS = (k * d * 1000) / n; FM = (MS / fc) * fc; DIR = (SEC / sc) * sc
                a, b, c = (astnum.ev(x, cx) for x in rng)
                cx.env[sub_var] = DIR
                a2, b2, c2 = (astnum.ev(x, cx) for x in ar.args)
                def evf(node):
                    if isinstance(node, ast.Compare): return _cmp(node, evf)
                    cx.env[arr_name] = FM; cx.env[elt] = FM
                    return astnum.ev(node, cx)
                m1, m2 = (evf(x) for x in mask.args)
                p, q = (evf(x) for x in fmt.right.elts)
            except (astnum.Unsupported, KeyError) as e:
                rep.ob(title, 'inconclusive', detail='unsupported: %r' % (e,)); return
            claim = z3.And(a <= DIR, DIR < b, (DIR - a) % c == 0, a2 <= FM, FM < b2, (FM - a2) % c2 == 0, m1, m2, p == FM / 1000, q == FM % 1000, q >= 0, q < 1000)
            r, m = smt.solve([s0 >= lo, s0 <= k, k <= s1, s1 <= hi] + cx.cons, [z3.Not(claim)], 120, st); nq += 1
            if r == 'sat':
                kk = m[k].as_long()
                rep.violation(title, 'N1.reader_file_list.loops', 'file of sample %d is not produced for range [%d, %d] at rate %d/%d cadence %ds/%dms'
                              % (kk, m[s0].as_long(), m[s1].as_long(), n, d, sc, fc), replay_body=REPLAY_N1 % ((n, d, sc, fc, kk),),
                              sample={'rate': (n, d), 'cadence': (sc, fc), 'k': kk, 's0': m[s0].as_long(), 's1': m[s1].as_long()})
                return
            if r != 'unsat':
                rep.ob(title, 'inconclusive', detail='solver unknown at rate %d/%d cadence %ds/%dms' % (n, d, sc, fc)); return
    rep.ob(title, 'discharged', '%d (rate, cadence) configurations x all s0 <= k <= s1 with times in [1980, 2100)' % ncfg, nq, time.time() - t0, nq,
           sample={'range': [ast.unparse(x) for x in rng], 'arange': [ast.unparse(x) for x in ar.args], 'mask': [ast.unparse(x) for x in mask.args]})



# real-build replay for the per-file read harnesses (_read_lengths, _read_slices, _split_invariance, _two_files): a channel whose file(s)
# carry exactly the counterexample's index rows is written with the real writer and read with the real reader; the result is compared with
# Blocks(Sem(index)) computed here
REPLAY_READ = '''
from vlib import build
import numpy as np, tempfile, os, shutil, sys, glob, warnings
warnings.simplefilter('ignore')
drf = build.load_pkg()
kw = %r
r1 = kw.get('rows', kw.get('r1')); n1 = kw.get('n', kw.get('n1')); r2 = kw.get('r2'); n2 = kw.get('n2', 0)
r1 = [tuple(x) for x in r1]; r2 = [tuple(x) for x in r2] if r2 else None
SPF = 1000; B = int(os.environ.get('VERIF_REPLAY_BASE', 10**12))       # 1000 Hz, 1 s files: 1000 samples per file, B is a file boundary
if B == 0 and r2: B = SPF
S = B - (r2[0][0] if r2 else 0) if r2 else B
if r2 and not (r2[0][0] <= SPF and r2[-1][0] + n2 < r2[0][0] + SPF): print('counterexample does not fit the replay layout'); sys.exit(3)
top = tempfile.mkdtemp(); ch = os.path.join(top, 'ch'); os.makedirs(ch)
w = drf.DigitalRFWriter(ch, 'i4', 3600, 1000, S, 1000, 1, 'u', is_complex=False, is_continuous=False, marching_periods=False)
w.rf_write_blocks(np.arange(n1, dtype='i4'), [g for g, o in r1], [o for g, o in r1])
if r2: w.rf_write_blocks(np.arange(n1, n1 + n2, dtype='i4'), [g for g, o in r2], [o for g, o in r2])
w.close()
files = sorted(glob.glob(os.path.join(ch, '*', 'rf@*.h5')))
def sem(rows, n, v0):
    out = []
    for i, (g, o) in enumerate(rows):
        stop = rows[i + 1][1] if i + 1 < len(rows) else n
        out += [(S + g + k, v0 + o + k) for k in range(stop - o)]
    return out
bad = 0
# a long-lived reader: read a file, then a range that probes file names which do not exist (yet), then the first file again
if files:
    rr = drf.DigitalRFReader(top)
    a0, a1 = min(s_ for s_, _ in sem(r1, n1, 0)) - S, max(s_ for s_, _ in sem(r1, n1, 0)) - S
    def rd(q0, q1):
        return [(int(k), [int(x) for x in np.asarray(v).ravel()]) for k, v in rr.read(S + q0, S + q1, 'ch').items()]
    try:
        first = rd(a0, a1)
        rd(a1 + 3 * SPF, a1 + 5 * SPF)        # only periods whose files do not exist (yet): every candidate file fails to open
        again = rd(a0, a1)
        if again == first:
            rd(a0, a1 + 5 * SPF)               # through the existing files into the missing ones
            again = rd(a0, a1)
        if again != first: print('a long-lived reader returns', again[:2], 'for a range it returned', first[:2], 'for before'); bad = 1
    except Exception as e:
        print('long-lived reader: %%s: %%s' %% (type(e).__name__, e)); bad = 1
truth = []
if kw.get('have1', True): truth += sem(r1, n1, 0)
elif files: os.remove(files[0])
if r2:
    if kw.get('have2', True): truth += sem(r2, n2, n1)
    else: os.remove(files[-1])
def blocks(pairs):
    out = []
    for s_, v in pairs:
        if out and out[-1][0] + len(out[-1][1]) == s_: out[-1][1].append(v)
        else: out.append((s_, [v]))
    return out
r = drf.DigitalRFReader(top)
def check(q0, q1):
    global bad
    want = blocks([(s_, v) for s_, v in truth if S + q0 <= s_ <= S + q1])
    try:
        got = [(int(k), [int(x) for x in np.asarray(v).ravel()]) for k, v in r.read(S + q0, S + q1, 'ch').items()]
        lens = [(int(k), int(v)) for k, v in r.get_continuous_blocks(S + q0, S + q1, 'ch').items()]
    except Exception as e:
        print('read(%%d, %%d) raised %%s: %%s' %% (q0, q1, type(e).__name__, e)); bad = 1; return []
    if got != want: print('read(%%d, %%d) ->' %% (q0, q1), [(k - S, v) for k, v in got], 'expected', [(k - S, v) for k, v in want]); bad = 1
    if lens != [(k, len(v)) for k, v in want]: print('get_continuous_blocks(%%d, %%d) ->' %% (q0, q1), lens, 'expected', [(k, len(v)) for k, v in want]); bad = 1
    return got
if 'b' in kw and 'c' in kw:
    whole = check(kw['a'], kw['c']); left = check(kw['a'], kw['b']); right = check(kw['b'] + 1, kw['c'])
    flat = lambda bl: [(k + i, x) for k, v in bl for i, x in enumerate(v)]
    if flat(whole) != flat(left) + flat(right): print('split at', kw['b'], 'changes the result'); bad = 1
else:
    if 's0' in kw: check(kw['s0'], kw['s1'])
    for q in sorted(set(s_ - S for s_, _ in truth))[:40]: check(q, q)
# bounds == first / last sample any read can return
if truth:
    try:
        b = drf.DigitalRFReader(top).get_bounds('ch')
        if tuple(int(x) for x in b) != (min(s_ for s_, _ in truth), max(s_ for s_, _ in truth)):
            print('get_bounds ->', tuple(int(x) - S for x in b), 'expected', (min(s_ for s_, _ in truth) - S, max(s_ for s_, _ in truth) - S)); bad = 1
    except Exception as e:
        print('get_bounds raised %%s: %%s' %% (type(e).__name__, e)); bad = 1
shutil.rmtree(top)
sys.exit(1 if bad else 0)
'''
def at_bases(body, bases=(None, 0)):
    """run a replay body once per base index (environment variable VERIF_REPLAY_BASE): with its default offset and with the raw indices of
    the counterexample (absolute sample 0 is a legal index and must not be hidden by an offset)"""
    return ('import subprocess, sys, os, tempfile\nbody = %r\nrc = 0\n'
            'for base in %r:\n'
            '    f = tempfile.NamedTemporaryFile("w", suffix=".py", delete=False); f.write("import sys; sys.path.insert(0, %r)\\n" + body); f.close()\n'
            '    env = dict(os.environ)\n'
            '    if base is not None: env["VERIF_REPLAY_BASE"] = str(base)\n'
            '    r = subprocess.call([sys.executable, f.name], env=env); os.unlink(f.name)\n'
            '    print("base", base, "-> exit", r)\n'
            '    if r == 1: rc = 1\n'
            '    elif r != 0 and rc == 0: rc = 3\n'
            'sys.exit(rc)\n') % (body, tuple(bases), '/verif')


READ_REPLAYS = {k: (lambda kw: at_bases(REPLAY_READ % (kw,))) for k in ('_read_lengths', '_read_slices', '_split_invariance', '_two_files', '_first_last', '_cache_sequence')}



# real-build replay for the cross-directory merge harnesses (_combine3, _combine2_arrays, C11 merge): every block is recorded in its own
# top-level directory, the directories are handed to the reader in the counterexample's order, and one read must return the blocks merged
# exactly when adjacent, in ascending order
REPLAY_MERGE = '''
from vlib import build
import numpy as np, tempfile, os, shutil, sys, itertools, warnings
warnings.simplefilter('ignore')
drf = build.load_pkg()
kw = %r
a = kw.get('a', 0)
if 'l3' in kw:
    starts = [a, a + kw['l1'] + kw['g1'], a + kw['l1'] + kw['g1'] + kw['l2'] + kw['g2']]; lens = [kw['l1'], kw['l2'], kw['l3']]
    order = list(list(itertools.permutations(range(3)))[kw.get('perm', 0) %% 6])
else:
    starts = [a, a + kw['l1'] + kw['g1']]; lens = [kw['l1'], kw['l2']]
    order = [1, 0] if kw.get('swap') else [0, 1]
S = int(os.environ.get('VERIF_REPLAY_BASE', 10**10))
top = tempfile.mkdtemp(); dirs = []
for k, bi in enumerate(order):
    d = os.path.join(top, 'top%%d' %% k); os.makedirs(d + '/ch'); dirs.append(d)
    w = drf.DigitalRFWriter(d + '/ch', 'i4', 3600, 1000, S, 100, 1, 'u', is_complex=False, is_continuous=False, marching_periods=False)
    w.rf_write(np.arange(starts[bi], starts[bi] + lens[bi], dtype='i4'), next_sample=starts[bi]); w.close()
want = []
for s0, ln in sorted(zip(starts, lens)):
    if want and want[-1][0] + want[-1][1] == s0: want[-1][1] += ln
    else: want.append([s0, ln])
r = drf.DigitalRFReader(dirs)
bad = 0
try:
    data = r.read(max(0, S + starts[0] - 5), S + max(starts) + max(lens) + 5, 'ch')
    got = [[int(k) - S, len(v)] for k, v in data.items()]
    vals_ok = all(np.array_equal(np.asarray(v).ravel(), np.arange(int(k) - S, int(k) - S + len(v))) for k, v in data.items())
    lens_ = [[int(k) - S, int(v)] for k, v in r.get_continuous_blocks(max(0, S + starts[0] - 5), S + max(starts) + max(lens) + 5, 'ch').items()]
    if got != want or not vals_ok or lens_ != want: print('read ->', got, 'blocks ->', lens_, 'expected', want, 'values ok' if vals_ok else 'VALUES WRONG'); bad = 1
except Exception as e:
    print('read raised', type(e).__name__, e); bad = 1
shutil.rmtree(top)
sys.exit(1 if bad else 0)
'''
# real-build replay for the bounds scan: files that vanish between listing and opening (1) or are not valid data files (2)
REPLAY_BOUNDS_SCAN = '''
from vlib import build
import numpy as np, tempfile, os, shutil, sys, glob, warnings
warnings.simplefilter('ignore')
drf = build.load_pkg()
import h5py
from digital_rf import digital_rf_hdf5 as H
kw = %r
bad_ = list(kw.get('bad', [0])); nfile = len(bad_)
S = 10**10
top = tempfile.mkdtemp(); os.makedirs(top + '/ch')
w = drf.DigitalRFWriter(top + '/ch', 'i2', 3600, 1000, S, 10, 1, 'u', is_complex=False, is_continuous=False, marching_periods=False)
w.rf_write(np.arange(10 * nfile, dtype='i2')); w.close()
files = sorted(glob.glob(top + '/ch/*/rf@*.h5'))
assert len(files) == nfile
rdr = drf.DigitalRFReader(top)
vanish = set()
for f, b in zip(files, bad_):
    if b == 1: vanish.add(f)
    if b == 2:
        os.remove(f)
        with h5py.File(f, 'w') as h: h.attrs['not'] = 'a data file'
class FileProxy:
    # the environment, not the code under test: a listed file is gone by the time the reader opens it
    def __call__(self, name, *a, **k):
        if name in vanish and os.path.exists(name): os.remove(name)
        return h5py.File(name, *a, **k)
class H5Proxy:
    File = FileProxy()
    def __getattr__(self, k): return getattr(h5py, k)
H.h5py = H5Proxy()
good = [i for i, b in enumerate(bad_) if b == 0]
want = (S + 10 * good[0], S + 10 * good[-1] + 9) if good else (None, None)
bad = 0
try:
    got = rdr.get_bounds('ch')
    print('bounds', got, 'expected', want)
    bad = tuple(got) != want
except Exception as e:
    print('get_bounds raised', type(e).__name__, e); bad = 1
H.h5py = h5py
shutil.rmtree(top)
sys.exit(1 if bad else 0)
'''
REPLAY_APPEAR = '''
# a long-lived reader: a read reaching beyond the finalized files (the newest file is still under its tmp. name), then the writer finalizes
# the file, then the same reader reads again: everything finalized must be returned
from vlib import build
import numpy as np, tempfile, os, shutil, sys, glob, warnings
warnings.simplefilter('ignore')
drf = build.load_pkg()
bad = 0
for cont in (False, True):
    top = tempfile.mkdtemp(); os.makedirs(top + '/ch')
    S = 10**10
    w = drf.DigitalRFWriter(top + '/ch', 'i2', 3600, 1000, S, 10, 1, 'u', is_complex=False, is_continuous=cont, marching_periods=False)
    w.rf_write(np.arange(15, dtype='i2'))               # file 0 finalized, file 1 open (tmp.)
    r = drf.DigitalRFReader(top)
    first = r.read(S, S + 29, 'ch')
    w.rf_write(np.arange(15, 30, dtype='i2')); w.close()   # files 1 and 2 finalized
    second = r.read(S, S + 29, 'ch')
    fresh = drf.DigitalRFReader(top).read(S, S + 29, 'ch')
    got = sorted((k, len(v)) for k, v in second.items()); want = sorted((k, len(v)) for k, v in fresh.items())
    print('continuous' if cont else 'gapped', 'first pass', sorted((k, len(v)) for k, v in first.items()), 'second pass', got, 'fresh reader', want)
    if got != want or sum(n for _, n in got) != 30: bad = 1
    shutil.rmtree(top)
sys.exit(1 if bad else 0)
'''
READ_REPLAYS['_appearing_file'] = lambda kw: REPLAY_APPEAR
REPLAY_ALL_DIRS = '''
# sessions interleaved over top-level directories (X, Y, X): one read with its ends in X and its interior in Y returns the union
from vlib import build
import numpy as np, tempfile, os, shutil, sys, itertools, warnings
warnings.simplefilter('ignore')
drf = build.load_pkg()
S = 10**10; bad = 0
top = tempfile.mkdtemp(); dirs = [os.path.join(top, x) for x in ('X', 'Y', 'Z')]
plan = {0: [(0, 100), (200, 100)], 1: [(100, 100)], 2: []}
for i, d in enumerate(dirs):
    os.makedirs(d + '/ch')
    for (a, n) in plan[i]:
        w = drf.DigitalRFWriter(d + '/ch', 'i4', 3600, 1000, S, 100, 1, 'u', is_complex=False, is_continuous=False, marching_periods=False)
        w.rf_write(np.arange(a, a + n, dtype='i4'), next_sample=a); w.close()
    if not plan[i]:
        w = drf.DigitalRFWriter(d + '/ch', 'i4', 3600, 1000, S, 100, 1, 'u', is_complex=False, is_continuous=False, marching_periods=False)
        w.rf_write(np.arange(900, 910, dtype='i4'), next_sample=900); w.close()
for order in itertools.permutations(range(3)):
    r = drf.DigitalRFReader([dirs[i] for i in order])
    for (q0, q1) in ((0, 299), (50, 250), (99, 200)):
        try:
            data = r.read(S + q0, S + q1, 'ch'); lens = r.get_continuous_blocks(S + q0, S + q1, 'ch')
            got = [(int(k) - S, len(v)) for k, v in data.items()]; gl = [(int(k) - S, int(v)) for k, v in lens.items()]
            ok = got == [(q0, q1 - q0 + 1)] and gl == got and np.array_equal(np.asarray(list(data.values())[0]).ravel(), np.arange(q0, q1 + 1))
        except Exception as e:
            ok = False; got = '%s: %s' % (type(e).__name__, e); gl = None
        if not ok: print('directories in order', order, 'read(%d, %d) ->' % (q0, q1), got, 'blocks ->', gl, 'expected one block of', q1 - q0 + 1); bad = 1
shutil.rmtree(top)
sys.exit(1 if bad else 0)
'''
READ_REPLAYS['_read_all_dirs'] = lambda kw: REPLAY_ALL_DIRS
READ_REPLAYS['_bounds_scan'] = lambda kw: REPLAY_BOUNDS_SCAN % (kw,)
READ_REPLAYS['_combine3'] = READ_REPLAYS['_combine2_arrays'] = lambda kw: at_bases(REPLAY_MERGE % (kw,))
