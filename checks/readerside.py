"""Reader-side obligations shared by C01 / C08 (filled in below)."""


def c01_part(rep, st, tier):
    pass


def c08_part(rep, st, tier):
    pass
