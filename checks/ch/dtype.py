"""CrossHair harness over the real DigitalRFWriter.__init__ / _cast_input_array (C01, element representation): for every element type
descriptor the writer accepts (kind, size, byte order, real / complex / structured complex) the arrays it hands to the extension have
exactly the representation it declared to the C library at init (kind, size, byte order of the components, (r, i) layout).
numpy is replaced inside digital_rf_hdf5 by a descriptor-level stand-in (dtype objects = (kind, itemsize, byteorder, fields)); the stand-in
is compared with real numpy on every descriptor by checks/C01.py before the result is used."""
import sys
sys.path.insert(0, '/verif')
from typing import Optional
from vlib import chload
drf = chload.load()
import digital_rf.digital_rf_hdf5 as H

KINDS = ['i', 'u', 'f', 'c']
VALID = {'i': (1, 2, 4, 8), 'u': (1, 2, 4, 8), 'f': (2, 4, 8, 16), 'c': (8, 16, 32)}


class FDType:
    """descriptor of a numpy dtype: kind, itemsize, byteorder as numpy reports it ('=' native, '<'/'>' non-native only, '|' not applicable)"""
    def __init__(self, kind, itemsize, order='=', fields=None, normalize=True):
        if fields is None:
            if kind not in VALID or itemsize not in VALID[kind]: raise TypeError('data type not understood')
            if itemsize == 1: order = '|'
            elif normalize and order == '<' and sys.byteorder == 'little': order = '='
            elif normalize and order == '>' and sys.byteorder == 'big': order = '='
        self.kind = kind; self.itemsize = itemsize; self.byteorder = order; self._fields = fields
    @property
    def names(self): return tuple(n for n, _ in self._fields) if self._fields is not None else None
    def __getitem__(self, k):
        if self._fields is None: raise KeyError(k)
        for n, d in self._fields:
            if n == k: return d
        raise KeyError(k)
    def newbyteorder(self, o='S'):
        if self._fields is not None: return FDType('V', self.itemsize, '|', [(n, d.newbyteorder(o)) for n, d in self._fields])
        cur = self.byteorder
        if o in ('S', 's'): o = '>' if eff(cur) == '<' else '<'
        elif o in ('|', 'I', 'i'): o = cur
        elif o in ('N', 'n'): o = '='
        # numpy reports an order set through newbyteorder literally ('<' stays '<' even on a little-endian host)
        return FDType(self.kind, self.itemsize, o, normalize=False)
    def __eq__(self, o): return isinstance(o, FDType) and sig(self) == sig(o)
    def __ne__(self, o): return not self.__eq__(o)
    __hash__ = None
    def __repr__(self): return 'FDType%r' % (sig(self),)


def eff(order):
    """effective byte order of a component"""
    if order == '|': return '|'
    if order == '=': return '<' if sys.byteorder == 'little' else '>'
    return order


def sig(d):
    if d._fields is not None: return ('V', tuple((n, sig(x)) for n, x in d._fields))
    return (d.kind, d.itemsize, eff(d.byteorder))


class _Marker:
    def __init__(self, kinds): self.kinds = kinds


class FNP:
    """the handful of numpy entry points DigitalRFWriter.__init__ and _cast_input_array use, on descriptors"""
    complexfloating = _Marker('c'); floating = _Marker('f'); integer = _Marker('iu')
    @staticmethod
    def dtype(x):
        if isinstance(x, FDType): return x
        if isinstance(x, list):
            fl = [(n, FNP.dtype(d)) for n, d in x]
            return FDType('V', sum(d.itemsize for _, d in fl), '|', fl)
        if isinstance(x, str):
            s = x; order = '='
            if s and s[0] in '<>=|': order = s[0]; s = s[1:]
            if not s or s[0] not in KINDS: raise TypeError('data type %r not understood' % x)
            return FDType(s[0], int(s[1:]), order)
        raise TypeError('data type not understood')
    @staticmethod
    def issubdtype(d, m):
        return isinstance(d, FDType) and d._fields is None and d.kind in m.kinds
    @staticmethod
    def ascontiguousarray(a): return a


class FArr:
    """array described by its dtype descriptor; values are not modelled: astype converts values into the target representation (always
    faithful for a safe cast), view reinterprets the bytes (faithful only if the representation is identical)"""
    def __init__(self, dtype, shape, faithful=True): self.dtype = dtype; self.shape = shape; self.faithful = faithful
    @property
    def ndim(self): return len(self.shape)
    def astype(self, dtype, casting='safe', copy=False):
        dt = FNP.dtype(dtype)
        return FArr(dt, self.shape, self.faithful)
    def view(self, dtype=None):
        dt = FNP.dtype(dtype)
        # real -> (r, i) pairs: same component representation required, two reals per complex sample
        comp = dt['r'] if dt._fields is not None else dt
        ok = self.faithful and sig(comp) == sig(self.dtype)
        shp = self.shape[:-1] + (self.shape[-1] // 2,) if self.shape else self.shape
        return FArr(dt, shp, ok)
    def reshape(self, shp):
        return FArr(self.dtype, tuple(shp) if not isinstance(shp, int) else (shp,), self.faithful)


def _components(d):
    """(kind, itemsize, effective order) of the real components of the samples of dtype d, and whether they are complex pairs"""
    if d._fields is not None:
        r, i = d['r'], d['i']
        if d.names != ('r', 'i') or sig(r) != sig(i): return None
        return (r.kind, r.itemsize, eff(r.byteorder)), True
    if d.kind == 'c': return ('f', d.itemsize // 2, eff(d.byteorder)), True
    return (d.kind, d.itemsize, eff(d.byteorder)), False


def _mk_writer(dt, is_complex):
    """the real __init__ with the extension's init recorded"""
    old = (H.np, H._py_rf_write_hdf5.init, H.os.access)
    rec = []
    def init(*a): rec.append(a); return object()
    H.np = FNP; H._py_rf_write_hdf5.init = init; H.os.access = lambda p, m: True
    try:
        w = H.DigitalRFWriter('/w/ch', dt, 3600, 1000, 0, 100, 1, uuid_str='u', is_complex=is_complex, num_subchannels=1, marching_periods=False)
    finally:
        H.np, H._py_rf_write_hdf5.init, H.os.access = old
    return w, rec


def _descr(kind: int, size: int, order: int, form: int):
    k = KINDS[kind]; o = '<>='[order]
    base = FDType(k, size, o)
    if form == 1 and k != 'c':      # structured complex given explicitly
        return FDType('V', 2 * size, '|', [('r', base), ('i', base)])
    return base


def _writer_representation(kind: int, size: int, order: int, form: int, is_complex: bool, inp: int) -> bool:
    """
    pre: 0 <= kind <= 3 and 0 <= order <= 2 and 0 <= form <= 1 and 0 <= inp <= 2
    pre: size in (1, 2, 4, 8, 16, 32)
    pre: size in VALID[KINDS[kind]]
    post: _
    """
    # the element representation declared to the C library at init == the representation of every array handed to the extension
    dt = _descr(kind, size, order, form)
    w, rec = _mk_writer(dt, is_complex)
    if len(rec) != 1: return False
    a = rec[0]
    decl = (a[2], a[3], a[1] if a[3] > 1 else '|')          # (kind, itemsize, byte order) of one real component, as told to C
    cplx_decl = bool(a[12])
    want_cplx = (KINDS[kind] == 'c') or form == 1 or is_complex
    if cplx_decl != want_cplx or cplx_decl != w.is_complex: return False
    # what the caller asked for
    base = dt['r'] if dt._fields is not None else dt
    asked = ('f', base.itemsize // 2, eff(base.byteorder)) if base.kind == 'c' else (base.kind, base.itemsize, eff(base.byteorder))
    if (decl[0], decl[1]) != asked[:2]: return False
    # (the byte order stored on disk may differ from the one asked for -- a complex dtype is stored in native order; values are converted)
    # arrays handed over: a complex / real array of the writer's own dtype family in native order, a structured (r, i) array, or flat reals
    old = H.np
    H.np = FNP
    try:
        if inp == 0:
            # an array of the writer's own value type in native byte order (complex64 for a complex float32 writer, ...)
            if cplx_decl:
                if not (asked[0] == 'f' and 2 * asked[1] in VALID['c']): return True      # no native complex type: inputs are structured / flat (inp 1, 2)
                src = FArr(FDType('c', 2 * asked[1], '='), (6,))
            else:
                src = FArr(FDType(asked[0], asked[1], '='), (6,))
        elif inp == 1:
            if not cplx_decl: return True
            c0 = FDType(asked[0], asked[1], '=')
            src = FArr(FDType('V', 2 * asked[1], '|', [('r', c0), ('i', c0)]), (6,))
        else:
            src = FArr(FDType(asked[0], asked[1], '='), (12,) if cplx_decl else (6,))
        out = w._cast_input_array(src)
    finally:
        H.np = old
    got = _components(out.dtype)
    if got is None or not out.faithful: return False
    comp, is_c = got
    if is_c != cplx_decl: return False
    if comp[:2] != (decl[0], decl[1]): return False
    return comp[1] == 1 or comp[2] == decl[2]


def _dtype_witness(kind: int, order: int) -> bool:
    """
    pre: 0 <= kind <= 3 and 0 <= order <= 2
    post: _
    """
    # reachability: a writer for a complex floating type is constructed (must come back violated)
    w, rec = _mk_writer(_descr(kind, 8 if kind != 3 else 16, order, 0), True)
    return not (len(rec) == 1 and rec[0][12] == 1 and rec[0][2] == 'f')
