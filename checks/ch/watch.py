"""CrossHair harness over the real DigitalRFEventHandler.dispatch (C15): regex objects are replaced by stub matchers returning symbolic
groups (the path grammar itself is decided by E-RX in checks/C15.py)."""
import sys
sys.path.insert(0, '/verif')
from typing import Optional
import datetime
from vlib import chload
drf = chload.load()
from digital_rf import watchdog_drf as W
from watchdog.events import (FileCreatedEvent, FileDeletedEvent, FileModifiedEvent, FileMovedEvent, DirCreatedEvent, DirMovedEvent)


class _M:
    def __init__(self, secs, frac, has_time): self.s, self.f, self.t = secs, frac, has_time
    def group(self, name):
        if not self.t: raise IndexError(name)
        if name == 'secs': return self.s
        if name == 'frac':
            if self.f is None: return None      # metadata file: group exists in RE_FILE but did not participate
            return self.f
        raise IndexError(name)


class _R:
    """stub compiled regex: matches exactly the paths in `table`"""
    def __init__(self, table): self.table = table
    def match(self, path): return self.table.get(path)


class TDu:
    """integer-backed stand-in for datetime.timedelta with microsecond resolution (comparable with real timedeltas)"""
    def __init__(self, us): self.us = us
    @staticmethod
    def _v(o): return o.us if isinstance(o, TDu) else (o.days * 86400 + o.seconds) * 10**6 + o.microseconds
    def __lt__(self, o): return self.us < TDu._v(o)
    def __le__(self, o): return self.us <= TDu._v(o)
    def __gt__(self, o): return self.us > TDu._v(o)
    def __ge__(self, o): return self.us >= TDu._v(o)
    def __eq__(self, o): return isinstance(o, (TDu, datetime.timedelta)) and self.us == TDu._v(o)
    def __ne__(self, o): return not self.__eq__(o)
    __hash__ = None
    def __floordiv__(self, o): return self.us // TDu._v(o) if isinstance(o, (TDu, datetime.timedelta)) else TDu(self.us // o)
    def __mod__(self, o): return TDu(self.us % TDu._v(o))
    def __sub__(self, o): return TDu(self.us - TDu._v(o))
    def __add__(self, o): return TDu(self.us + TDu._v(o))
    def total_seconds(self): return self.us / 10**6
    @property
    def days(self): return self.us // (86400 * 10**6)
    @property
    def seconds(self): return (self.us // 10**6) % 86400
    @property
    def microseconds(self): return self.us % 10**6


class FakeDTu:
    """integer-backed stand-in for a datetime (microseconds of the wall-clock fields since 1970-01-01 00:00:00, UTC offset in seconds)"""
    def __init__(self, wall_us, off, aware): self.w = wall_us; self.off = off; self.aware = aware
    @property
    def tzinfo(self): return datetime.timezone.utc if (self.aware and self.off == 0) else (_TZ(self.off) if self.aware else None)
    def replace(self, tzinfo=True, **kw):
        if kw: raise NotImplementedError
        if tzinfo is True: return FakeDTu(self.w, self.off, self.aware)
        if tzinfo is None: return FakeDTu(self.w, 0, False)
        d = tzinfo.utcoffset(None)
        return FakeDTu(self.w, d.days * 86400 + d.seconds if not isinstance(d, TDu) else d.us // 10**6, True)
    def astimezone(self, tz=None):
        inst = self.w - self.off * 10**6 if self.aware else self.w
        return FakeDTu(inst, 0, True)
    def __sub__(self, o):
        if hasattr(o, 'utctimetuple'):
            if (o.tzinfo is None) == self.aware: raise TypeError("can't subtract offset-naive and offset-aware datetimes")
            import calendar
            return TDu((self.w - self.off * 10**6 if self.aware else self.w) - calendar.timegm(o.utctimetuple()) * 10**6 - o.microsecond)
        return NotImplemented


class _TZ:
    def __init__(self, off): self.off = off
    def utcoffset(self, dt): return TDu(self.off * 10**6)


class _H(W.DigitalRFEventHandler):
    def __init__(self): pass
    def on_any_event(self, e): self.log.append(('any', e.event_type, e.src_path, getattr(e, 'dest_path', '')))
    def on_created(self, e): self.log.append(('created', e.src_path))
    def on_deleted(self, e): self.log.append(('deleted', e.src_path))
    def on_modified(self, e): self.log.append(('modified', e.src_path))
    def on_moved(self, e): self.log.append(('moved', e.src_path, e.dest_path))


def _mk(src_ok, dst_ok, s_secs, s_frac, d_secs, d_frac, timed, start, end, sub=0, sube=0, off=0, aware=False):
    """handler built by the REAL constructor from start / end datetimes (start, end in ms + sub, sube microseconds; naive = UTC or aware with
    UTC offset `off` seconds); afterwards only the compiled regexes are replaced by stub matchers"""
    h = _H(); h.log = []
    st = None if start is None else FakeDTu(start * 1000 + sub + (off * 10**6 if aware else 0), off, aware)
    en = None if end is None else FakeDTu(end * 1000 + sube + (off * 10**6 if aware else 0), off, aware)
    W.DigitalRFEventHandler.__init__(h, starttime=st, endtime=en)
    table = {}
    if src_ok: table['/w/ch/SRC'] = _M(s_secs, s_frac, timed)
    if dst_ok: table['/w/ch/DST'] = _M(d_secs, d_frac, timed)
    h._regexes = [_R(table)]; h._ignore_regexes = []; h._ignore_directories = True
    return h


def _in_window(secs, frac, start, end, sub=0, sube=0):
    t = (secs * 1000 + (frac or 0)) * 1000
    return (start is None or t >= start * 1000 + sub) and (end is None or t <= end * 1000 + sube)


def _dispatch_simple(kind: int, ok: bool, secs: int, frac: Optional[int], start: Optional[int], end: Optional[int], sub: int, sube: int, off: int, aware: bool) -> bool:
    """
    pre: 0 <= kind <= 2 and 0 <= secs <= 10**9 and (frac is None or 0 <= frac <= 999)
    pre: (start is None or 0 <= start <= 10**12) and (end is None or 0 <= end <= 10**12)
    pre: 0 <= sub <= 999 and 0 <= sube <= 999 and -86399 <= off <= 86399
    post: _
    """
    # the window bounds are datetimes with microsecond resolution, naive (= UTC) or aware with any UTC offset
    # created / modified / deleted events on one path: delivered iff the path matches and start <= secs*1000+frac <= end (both inclusive)
    h = _mk(ok, False, secs, frac, 0, 0, True, start, end, sub, sube, off, aware)
    if kind == 0: ev, name = FileCreatedEvent('/w/ch/SRC'), 'created'
    elif kind == 1: ev, name = FileModifiedEvent('/w/ch/SRC'), 'modified'
    else: ev, name = FileDeletedEvent('/w/ch/SRC'), 'deleted'
    h.dispatch(ev)
    want = ok and _in_window(secs, frac, start, end, sub, sube)
    if not want: return h.log == []
    return h.log == [('any', name, '/w/ch/SRC', ''), (name, '/w/ch/SRC')]


def _dispatch_untimed(kind: int, ok: bool, timed: bool, match_time: bool, start: Optional[int]) -> bool:
    """
    pre: 0 <= kind <= 2
    pre: start is None or 0 <= start <= 10**12
    post: _
    """
    # names without a timestamp (properties files) and match_time=False bypass the window
    h = _mk(ok, False, 5, 0, 0, 0, timed, start, None)
    if kind == 0: ev, name = FileCreatedEvent('/w/ch/SRC'), 'created'
    elif kind == 1: ev, name = FileModifiedEvent('/w/ch/SRC'), 'modified'
    else: ev, name = FileDeletedEvent('/w/ch/SRC'), 'deleted'
    h.dispatch(ev, match_time=match_time)
    want = ok and ((not timed) or (not match_time) or start is None or 5000 >= start)
    if not want: return h.log == []
    return h.log == [('any', name, '/w/ch/SRC', ''), (name, '/w/ch/SRC')]


def _dispatch_moved(src_ok: bool, dst_ok: bool, s_secs: int, d_secs: int, frac: Optional[int], start: Optional[int], end: Optional[int]) -> bool:
    """
    pre: 0 <= s_secs <= 10**9 and 0 <= d_secs <= 10**9 and (frac is None or 0 <= frac <= 999)
    pre: (start is None or 0 <= start <= 10**12) and (end is None or 0 <= end <= 10**12)
    post: _
    """
    # moved events: only the destination matches -> delivered as creation of the destination (the writer's finalizing rename);
    # only the source matches -> deletion of the source; both -> moved; neither -> dropped.  The window applies to the matching name.
    h = _mk(src_ok, dst_ok, s_secs, frac, d_secs, frac, True, start, end)
    h.dispatch(FileMovedEvent('/w/ch/SRC', '/w/ch/DST'))
    if not src_ok and not dst_ok: return h.log == []
    if dst_ok and not src_ok:
        if not _in_window(d_secs, frac, start, end): return h.log == []
        return h.log == [('any', 'created', '/w/ch/DST', ''), ('created', '/w/ch/DST')]
    if src_ok and not dst_ok:
        if not _in_window(s_secs, frac, start, end): return h.log == []
        return h.log == [('any', 'deleted', '/w/ch/SRC', ''), ('deleted', '/w/ch/SRC')]
    if not _in_window(d_secs, frac, start, end): return h.log == []
    return h.log == [('any', 'moved', '/w/ch/SRC', '/w/ch/DST'), ('moved', '/w/ch/SRC', '/w/ch/DST')]


def _dispatch_dirs(kind: int, ok: bool) -> bool:
    """
    pre: 0 <= kind <= 1
    post: _
    """
    # directory events are never delivered, whatever the path
    h = _mk(ok, ok, 1, 0, 1, 0, True, None, None)
    ev = DirCreatedEvent('/w/ch/SRC') if kind == 0 else DirMovedEvent('/w/ch/SRC', '/w/ch/DST')
    h.dispatch(ev)
    return h.log == []


def _dispatch_witness(ok: bool, secs: int, start: Optional[int]) -> bool:
    """
    pre: 0 <= secs <= 10**6
    post: _
    """
    h = _mk(ok, False, secs, 0, 0, 0, True, start, None)
    h.dispatch(FileCreatedEvent('/w/ch/SRC'))
    return h.log == []        # reachability twin: a delivered event must be reachable
