"""CrossHair harness over the real DigitalRFEventHandler.dispatch (C15): regex objects are replaced by stub matchers returning symbolic
groups (the path grammar itself is decided by E-RX in checks/C15.py)."""
import sys
sys.path.insert(0, '/verif')
from typing import Optional
import datetime
from vlib import chload
drf = chload.load()
from digital_rf import watchdog_drf as W
from watchdog.events import (FileCreatedEvent, FileDeletedEvent, FileModifiedEvent, FileMovedEvent, DirCreatedEvent, DirMovedEvent)


class _M:
    def __init__(self, secs, frac, has_time): self.s, self.f, self.t = secs, frac, has_time
    def group(self, name):
        if not self.t: raise IndexError(name)
        if name == 'secs': return self.s
        if name == 'frac':
            if self.f is None: return None      # metadata file: group exists in RE_FILE but did not participate
            return self.f
        raise IndexError(name)


class _R:
    """stub compiled regex: matches exactly the paths in `table`"""
    def __init__(self, table): self.table = table
    def match(self, path): return self.table.get(path)


class _H(W.DigitalRFEventHandler):
    def __init__(self): pass
    def on_any_event(self, e): self.log.append(('any', e.event_type, e.src_path, getattr(e, 'dest_path', '')))
    def on_created(self, e): self.log.append(('created', e.src_path))
    def on_deleted(self, e): self.log.append(('deleted', e.src_path))
    def on_modified(self, e): self.log.append(('modified', e.src_path))
    def on_moved(self, e): self.log.append(('moved', e.src_path, e.dest_path))


def _mk(src_ok, dst_ok, s_secs, s_frac, d_secs, d_frac, timed, start, end):
    h = _H(); h.log = []
    table = {}
    if src_ok: table['/w/ch/SRC'] = _M(s_secs, s_frac, timed)
    if dst_ok: table['/w/ch/DST'] = _M(d_secs, d_frac, timed)
    h._regexes = [_R(table)]; h._ignore_regexes = []; h._ignore_directories = True
    h.starttime = None if start is None else datetime.timedelta(milliseconds=start)
    h.endtime = None if end is None else datetime.timedelta(milliseconds=end)
    return h


def _in_window(secs, frac, start, end):
    t = secs * 1000 + (frac or 0)
    return (start is None or t >= start) and (end is None or t <= end)


def _dispatch_simple(kind: int, ok: bool, secs: int, frac: Optional[int], start: Optional[int], end: Optional[int]) -> bool:
    """
    pre: 0 <= kind <= 2 and 0 <= secs <= 10**9 and (frac is None or 0 <= frac <= 999)
    pre: (start is None or 0 <= start <= 10**12) and (end is None or 0 <= end <= 10**12)
    post: _
    """
    # created / modified / deleted events on one path: delivered iff the path matches and start <= secs*1000+frac <= end (both inclusive)
    h = _mk(ok, False, secs, frac, 0, 0, True, start, end)
    if kind == 0: ev, name = FileCreatedEvent('/w/ch/SRC'), 'created'
    elif kind == 1: ev, name = FileModifiedEvent('/w/ch/SRC'), 'modified'
    else: ev, name = FileDeletedEvent('/w/ch/SRC'), 'deleted'
    h.dispatch(ev)
    want = ok and _in_window(secs, frac, start, end)
    if not want: return h.log == []
    return h.log == [('any', name, '/w/ch/SRC', ''), (name, '/w/ch/SRC')]


def _dispatch_untimed(kind: int, ok: bool, timed: bool, match_time: bool, start: Optional[int]) -> bool:
    """
    pre: 0 <= kind <= 2
    pre: start is None or 0 <= start <= 10**12
    post: _
    """
    # names without a timestamp (properties files) and match_time=False bypass the window
    h = _mk(ok, False, 5, 0, 0, 0, timed, start, None)
    if kind == 0: ev, name = FileCreatedEvent('/w/ch/SRC'), 'created'
    elif kind == 1: ev, name = FileModifiedEvent('/w/ch/SRC'), 'modified'
    else: ev, name = FileDeletedEvent('/w/ch/SRC'), 'deleted'
    h.dispatch(ev, match_time=match_time)
    want = ok and ((not timed) or (not match_time) or start is None or 5000 >= start)
    if not want: return h.log == []
    return h.log == [('any', name, '/w/ch/SRC', ''), (name, '/w/ch/SRC')]


def _dispatch_moved(src_ok: bool, dst_ok: bool, s_secs: int, d_secs: int, frac: Optional[int], start: Optional[int], end: Optional[int]) -> bool:
    """
    pre: 0 <= s_secs <= 10**9 and 0 <= d_secs <= 10**9 and (frac is None or 0 <= frac <= 999)
    pre: (start is None or 0 <= start <= 10**12) and (end is None or 0 <= end <= 10**12)
    post: _
    """
    # moved events: only the destination matches -> delivered as creation of the destination (the writer's finalizing rename);
    # only the source matches -> deletion of the source; both -> moved; neither -> dropped.  The window applies to the matching name.
    h = _mk(src_ok, dst_ok, s_secs, frac, d_secs, frac, True, start, end)
    h.dispatch(FileMovedEvent('/w/ch/SRC', '/w/ch/DST'))
    if not src_ok and not dst_ok: return h.log == []
    if dst_ok and not src_ok:
        if not _in_window(d_secs, frac, start, end): return h.log == []
        return h.log == [('any', 'created', '/w/ch/DST', ''), ('created', '/w/ch/DST')]
    if src_ok and not dst_ok:
        if not _in_window(s_secs, frac, start, end): return h.log == []
        return h.log == [('any', 'deleted', '/w/ch/SRC', ''), ('deleted', '/w/ch/SRC')]
    if not _in_window(d_secs, frac, start, end): return h.log == []
    return h.log == [('any', 'moved', '/w/ch/SRC', '/w/ch/DST'), ('moved', '/w/ch/SRC', '/w/ch/DST')]


def _dispatch_dirs(kind: int, ok: bool) -> bool:
    """
    pre: 0 <= kind <= 1
    post: _
    """
    # directory events are never delivered, whatever the path
    h = _mk(ok, ok, 1, 0, 1, 0, True, None, None)
    ev = DirCreatedEvent('/w/ch/SRC') if kind == 0 else DirMovedEvent('/w/ch/SRC', '/w/ch/DST')
    h.dispatch(ev)
    return h.log == []


def _dispatch_witness(ok: bool, secs: int, start: Optional[int]) -> bool:
    """
    pre: 0 <= secs <= 10**6
    post: _
    """
    h = _mk(ok, False, secs, 0, 0, 0, True, start, None)
    h.dispatch(FileCreatedEvent('/w/ch/SRC'))
    return h.log == []        # reachability twin: a delivered event must be reachable
