"""CrossHair harnesses over the real mirror handler and the drf cp / mv / ln loops (C17, C18) on an in-memory file system (SymFS):
existence and content identity of source, destination and tmp files are symbolic; every mutating call is logged with a snapshot."""
import sys, posixpath
sys.path.insert(0, '/verif')
from typing import Optional
from vlib import chload
drf = chload.load()
import digital_rf.mirror as MIR
import digital_rf.list_drf as L
chload.warm(MIR.DigitalRFMirrorHandler)


class SymFS:
    """files: path -> content id; dirs: set of paths.  log of mutating ops, snapshots after every content-changing op"""
    def __init__(self, files, dirs): self.files = dict(files); self.dirs = set(dirs); self.log = []; self.snap = [dict(self.files)]; self.links = {}; self.mtime = {}; self.dirlinks = {}
    def phys(self, p):
        """physical location of a logical path (a directory on the way may be a symbolic link to a directory elsewhere)"""
        for lnk, real in self.dirlinks.items():
            if p == lnk or p.startswith(lnk + '/'): return real + p[len(lnk):]
        return p
    def logical(self, p):
        for lnk, real in self.dirlinks.items():
            if p == real or p.startswith(real + '/'): return lnk + p[len(real):]
        return p
    def _snap(self): self.snap.append(dict(self.files))


N = posixpath.normpath


class FakePath:
    def __init__(self, fs): self.fs = fs
    join = staticmethod(posixpath.join); split = staticmethod(posixpath.split); dirname = staticmethod(posixpath.dirname)
    abspath = staticmethod(lambda p: p); relpath = staticmethod(posixpath.relpath); basename = staticmethod(posixpath.basename)
    def exists(self, p): return N(p) in self.fs.files or N(p) in self.fs.dirs
    def isfile(self, p): return N(p) in self.fs.files
    def isdir(self, p): return N(p) in self.fs.dirs
    def lexists(self, p): return self.exists(p)
    def islink(self, p): return False
    def getsize(self, p):
        if N(p) not in self.fs.files: raise FileNotFoundError(p)
        return 10          # every file of the harness has the same size
    def getmtime(self, p):
        if N(p) not in self.fs.files: raise FileNotFoundError(p)
        return self.fs.mtime.get(N(p), 1)
    def samefile(self, a, b):
        a, b = N(a), N(b)
        if a not in self.fs.files or b not in self.fs.files: raise FileNotFoundError(a)
        return self.fs.links.get(a, a) == self.fs.links.get(b, b)


class FakeOS:
    def __init__(self, fs): self.fs = fs; self.path = FakePath(fs); self.sep = '/'
    def stat(self, p):
        p = N(p)
        if p not in self.fs.files and p not in self.fs.dirs: raise FileNotFoundError(p)
        class St: pass
        st = St(); st.st_size = 10; st.st_mtime = self.fs.mtime.get(p, 1); st.st_mtime_ns = st.st_mtime * 10**9; st.st_ino = hash(self.fs.links.get(p, p)); st.st_dev = 1; st.st_mode = 0o100644
        return st
    lstat = stat
    def makedirs(self, d, exist_ok=False):
        d = N(d)
        if d in self.fs.dirs and not exist_ok: raise FileExistsError(d)
        self.fs.dirs.add(d); self.fs.log.append(('makedirs', d))
    def rename(self, a, b):
        a, b = N(a), N(b)
        if a not in self.fs.files: raise FileNotFoundError(a)
        self.fs.files[b] = self.fs.files.pop(a); self.fs.log.append(('rename', a, b)); self.fs._snap()
    def remove(self, p):
        p = N(p)
        if p not in self.fs.files: raise FileNotFoundError(p)
        del self.fs.files[p]; self.fs.links.pop(p, None); self.fs.log.append(('remove', p)); self.fs._snap()
    def rmdir(self, d):
        d = N(d)
        if any(posixpath.dirname(f) == d for f in self.fs.files) or d not in self.fs.dirs: raise OSError('not empty')
        self.fs.dirs.discard(d); self.fs.log.append(('rmdir', d))
    def link(self, a, b):
        a, b = N(a), N(b)
        if a not in self.fs.files: raise FileNotFoundError(a)
        if b in self.fs.files: raise FileExistsError(b)
        self.fs.files[b] = self.fs.files[a]; self.fs.links[b] = self.fs.links.get(a, a); self.fs.log.append(('link', a, b)); self.fs._snap()
    def symlink(self, a, b):
        b = N(b)
        if b in self.fs.files: raise FileExistsError(b)
        # the kernel resolves a relative target from the directory the link PHYSICALLY lives in
        tgt = N(a) if a.startswith('/') else N(posixpath.join(posixpath.dirname(self.fs.phys(b)), a))
        tgt = self.fs.logical(tgt)
        self.fs.files[b] = self.fs.files.get(tgt, ('dangling', tgt)); self.fs.log.append(('symlink', a, b)); self.fs._snap()


class FakeCmp:
    def __init__(self, fs): self.fs = fs
    def cmp(self, a, b):
        a, b = N(a), N(b)
        if a not in self.fs.files or b not in self.fs.files: raise FileNotFoundError(a)
        return self.fs.files[a] == self.fs.files[b]


class SameFileError(OSError):
    """shutil.SameFileError (an OSError): source and destination are the same inode"""


class FakeShutil:
    def __init__(self, fs): self.fs = fs
    def copy2(self, a, b):
        a, b = N(a), N(b)
        if a not in self.fs.files: raise FileNotFoundError(a)
        if b in self.fs.files and self.fs.links.get(a, a) == self.fs.links.get(b, b): raise SameFileError(a)
        self.fs.files[b] = self.fs.files[a]; self.fs.links.pop(b, None); self.fs.log.append(('copy', a, b)); self.fs._snap()
    def move(self, a, b):
        a, b = N(a), N(b)
        if a not in self.fs.files: raise FileNotFoundError(a)
        # a move across file systems is a copy followed by an unlink: both intermediate states are observable
        self.fs.files[b] = self.fs.files[a]; self.fs._snap(); del self.fs.files[a]; self.fs.log.append(('move', a, b)); self.fs._snap()


SRC = '/s/ch/2020-01-01T00-00-00/rf@1.000.h5'; DST = '/d/ch/2020-01-01T00-00-00/rf@1.000.h5'
TMP = '/d/ch/2020-01-01T00-00-00/tmp.rf@1.000.h5'


def _handler(fs, method):
    sh = FakeShutil(fs)
    MIR.os = FakeOS(fs); MIR.filecmp = FakeCmp(fs); MIR.shutil = sh
    MIR.print = lambda *a, **k: None
    class Out:
        @staticmethod
        def write(s): pass
        @staticmethod
        def flush(): pass
    MIR.sys = type('S', (), {'stdout': Out})
    MIR.traceback = type('TB', (), {'print_exc': staticmethod(lambda: None)})
    h = chload.new_obj(MIR.DigitalRFMirrorHandler)
    h.src = '/s'; h.dest = '/d'; h.verbose = False
    if method == 0: h.mirror_fun = sh.copy2
    elif method == 1: h.mirror_fun = sh.move
    else:
        # the real LinkWithFallback class is local to DigitalRFMirror.__init__: build a mirror object to obtain it
        h.mirror_fun = _link_fun()
    return h


def _link_fun():
    class NoObs:
        def __init__(self, *a, **k): pass
        def schedule(self, *a, **k): pass
    old = MIR.watchdog_drf.DirWatcher
    MIR.watchdog_drf.DirWatcher = NoObs
    try:
        m = MIR.DigitalRFMirror('/s', '/d', method='link')
    finally:
        MIR.watchdog_drf.DirWatcher = old
    return m.event_handlers[0].mirror_fun


SRC0 = '/s/ch/2020-01-01T00-00-00/rf@0.000.h5'      # a file of the same directory that no longer exists (late event)


def _mirror_one(method: int, src_there: bool, src_id: int, dst_there: bool, dst_id: int, tmp_there: bool, tmp_id: int, events: int,
                tmp_is_link: bool, late_first: bool) -> bool:
    """
    pre: 0 <= method <= 2 and 0 <= src_id <= 2 and 0 <= dst_id <= 2 and 0 <= tmp_id <= 2 and 1 <= events <= 3
    pre: not tmp_is_link or (tmp_there and src_there and tmp_id == src_id)
    post: _
    """
    # one source file (possibly vanished), possibly an older / identical / different file already at the destination, possibly a stale
    # tmp. file left by an interrupted mirror; the creation event is delivered 1..3 times (duplicates, late events).
    # copy (0) / move (1) / link (2):  afterwards the destination holds the source's content (if the source existed); it appeared under its
    # final name only by rename from the tmp. name; at every moment an intact copy exists in source or destination; a vanished source
    # changes nothing at the destination.
    files = {}
    if src_there: files[SRC] = ('c', src_id)
    if dst_there: files[DST] = ('c', dst_id)
    if tmp_there: files[TMP] = ('c', tmp_id)
    fs = SymFS(files, ['/s/ch/2020-01-01T00-00-00', '/s/ch', '/s'])
    if tmp_is_link: fs.links[TMP] = SRC         # the stale tmp. file is a hard link of the source (an interrupted link-mode mirror)
    h = _handler(fs, method)
    if late_first: h.mirror_to_dest(SRC0)       # a late event for a file of the same directory that has vanished comes first
    for _ in range(events):
        h.mirror_to_dest(SRC)
    ok = True
    if src_there:
        ok = ok and fs.files.get(DST) == ('c', src_id)
        for s in fs.snap:
            ok = ok and (s.get(SRC) == ('c', src_id) or s.get(DST) == ('c', src_id) or s.get(TMP) == ('c', src_id))
        if method != 1: ok = ok and fs.files.get(SRC) == ('c', src_id)
    else:
        ok = ok and fs.files.get(DST) == (('c', dst_id) if dst_there else None)
        # nor is a staged tmp. file touched: after an interrupted move it may hold the only copy of the data
        ok = ok and fs.files.get(TMP) == (('c', tmp_id) if tmp_there else None)
    # the final name is only ever written by rename from the tmp. name
    for op in fs.log:
        if op[0] in ('copy', 'move', 'link', 'symlink') and op[2] == DST: ok = False
    return ok


def _mirror_wiring(method: int, include_drf: bool, include_dmd: bool) -> bool:
    """
    pre: 0 <= method <= 2
    post: _
    """
    # handler set built by the real DigitalRFMirror.__init__: properties and metadata are always copied (or linked) by the FIRST handler; RF
    # files are moved by a separate handler only in move mode; the count-1 ringbuffer that deletes old metadata from the source exists only
    # in move mode and is dispatched AFTER the handler that copies metadata (so a file is never deleted before it was mirrored)
    class NoObs:
        def __init__(self, *a, **k): pass
        def schedule(self, *a, **k): pass
    MIR.watchdog_drf.DirWatcher = NoObs
    name = 'copy' if method == 0 else ('move' if method == 1 else 'link')
    try:
        m = MIR.DigitalRFMirror('/s', '/d', method=name, include_drf=include_drf, include_dmd=include_dmd)
    except ValueError:
        return not include_drf and not include_dmd
    hs = m.event_handlers
    def pats(h): return sorted(r.pattern for r in h.regexes)
    copy = hs[0]
    ok = isinstance(copy, MIR.DigitalRFMirrorHandler) and copy.mirror_fun is not MIR.shutil.move
    rb = [i for i, h in enumerate(hs) if not isinstance(h, MIR.DigitalRFMirrorHandler)]
    mv = [i for i, h in enumerate(hs) if isinstance(h, MIR.DigitalRFMirrorHandler) and h.mirror_fun is MIR.shutil.move]
    if method == 1:
        ok = ok and (len(mv) == (1 if include_drf else 0)) and (len(rb) == (1 if include_dmd else 0))
        if rb: ok = ok and rb[0] > 0 and getattr(hs[rb[0]], 'count', None) == 1 and all(L.RE_DMD == p or 'properties' not in p for p in pats(hs[rb[0]]))
        if mv: ok = ok and pats(hs[mv[0]]) == [L.RE_DRF]
        # the copy handler must not take RF data files in move mode (they are moved), but must take metadata and properties
        ok = ok and (L.RE_DRF not in pats(copy)) and (L.RE_DRFDMD not in pats(copy))
    else:
        ok = ok and not rb and not mv and len(hs) == 1
        if include_drf and include_dmd: ok = ok and L.RE_DRFDMD in pats(copy)
    # exact selection of the first handler: data files of the selected kinds (RF data only when it is not moved by the separate handler),
    # and the properties file of each selected kind -- never the properties of a kind that was deselected
    d_drf = include_drf and method != 1; d_dmd = include_dmd
    want = []
    if d_drf and d_dmd: want.append(L.RE_DRFDMD)
    elif d_drf: want.append(L.RE_DRF)
    elif d_dmd: want.append(L.RE_DMD)
    if include_drf and include_dmd: want.append(L.RE_DRFDMDPROP)
    elif include_drf: want.append(L.RE_DRFPROP)
    elif include_dmd: want.append(L.RE_DMDPROP)
    ok = ok and pats(copy) == sorted(want)
    return ok


import datetime as _dt
_ST = _dt.datetime(2020, 1, 1, tzinfo=_dt.timezone.utc); _EN = _dt.datetime(2020, 1, 2, tzinfo=_dt.timezone.utc)


def _mirror_start(method: int, ignore_existing: bool, include_drf: bool, include_dmd: bool, has_src: bool) -> bool:
    """
    pre: 0 <= method <= 2 and (include_drf or include_dmd)
    post: _
    """
    # DigitalRFMirror.start(): property files are always listed (per the include flags), data / metadata files of the window only unless
    # ignore_existing; every listed path is dispatched as a creation event to EVERY handler, in handler order, without time matching
    class NoObs:
        def __init__(self, *a, **k): self.started = 0
        def schedule(self, *a, **k): pass
        def start(self): self.started += 1
    old = (MIR.watchdog_drf.DirWatcher, MIR.list_drf, MIR.os)
    MIR.watchdog_drf.DirWatcher = NoObs
    name = 'copy' if method == 0 else ('move' if method == 1 else 'link')
    calls = []
    class LD:
        @staticmethod
        def ilsdrf(path, **kw):
            calls.append(kw)
            if kw.get('include_drf') or kw.get('include_dmd'): return iter(['/s/ch/2020-01-01T00-00-00/rf@1.000.h5', '/s/ch/metadata/2020-01-01T00-00-00/md@1.h5'])
            return iter(['/s/ch/drf_properties.h5'])
    try:
        m = MIR.DigitalRFMirror('/s', '/d', method=name, ignore_existing=ignore_existing, include_drf=include_drf, include_dmd=include_dmd, starttime=_ST, endtime=_EN)
        log = []
        class Rec:
            def __init__(self, k): self.k = k
            def dispatch(self, event, match_time=True): log.append((self.k, type(event).__name__, event.src_path, match_time))
        nh = len(m.event_handlers)
        m.event_handlers = [Rec(k) for k in range(nh)]
        class FOS:
            class path:
                @staticmethod
                def isdir(p): return has_src
        MIR.list_drf = LD; MIR.os = FOS
        MIR.print = lambda *a, **k: None
        class Out:
            @staticmethod
            def write(s_): pass
            @staticmethod
            def flush(): pass
        MIR.sys = type('S', (), {'stdout': Out})
        m.start()
    finally:
        MIR.watchdog_drf.DirWatcher, MIR.list_drf, MIR.os = old
    if m.observer.started != 1: return False
    if not has_src: return calls == [] and log == []
    want_calls = [dict(include_drf=False, include_dmd=False, include_drf_properties=include_drf, include_dmd_properties=include_dmd)]
    paths = ['/s/ch/drf_properties.h5']
    if not ignore_existing:
        want_calls.append(dict(starttime=m.starttime, endtime=m.endtime, include_drf=include_drf, include_dmd=include_dmd, include_drf_properties=False, include_dmd_properties=False))
        paths += ['/s/ch/2020-01-01T00-00-00/rf@1.000.h5', '/s/ch/metadata/2020-01-01T00-00-00/md@1.h5']
    if calls != want_calls or m.starttime != _ST or m.endtime != _EN: return False
    want_log = [(k, 'FileCreatedEvent', p_, False) for p_ in paths for k in range(nh)]
    return log == want_log


# ------------------------------------------------------------------ drf cp / mv / ln (C18)

class Args:
    pass


def _run_cmd(cmd: int, ch_style: int, present0: bool, present1: bool, symbolic: bool, dst_pre: bool) -> bool:
    """
    pre: 0 <= cmd <= 2 and 0 <= ch_style <= 3
    pre: not dst_pre or (cmd != 2 and present0)
    post: _
    """
    return _do_cmd(cmd, ch_style, present0, present1, symbolic, dst_pre)


def _do_cmd(cmd, ch_style, present0, present1, symbolic, dst_pre, dest_linked=False):
    # (no contract of its own: CrossHair assumes the contracts of callees and silently drops paths on which they fail)
    # cp (0) / mv (1) / ln (2) with the listing replaced by a stub yielding 0..2 files below the (normalised) source: exactly the listed
    # files arrive at dest/<same relative path>, directories are created as needed, cp/ln leave the source unchanged, mv removes exactly
    # what it transferred; the channel option may be given as 'ch0', 'ch0/', './ch0' or not at all
    chs = [[], ['ch0'], ['ch0/'], ['./ch0']][ch_style]
    base = '/s' if not chs else '/s/ch0'
    rels = []
    if present0: rels.append('2020-01-01T00-00-00/rf@1.000.h5')
    if present1: rels.append('drf_properties.h5')
    files = {base + '/' + r: ('c', i) for i, r in enumerate(rels)}
    fs = SymFS(files, ['/s', '/s/ch0', base + '/2020-01-01T00-00-00'])
    if dst_pre:
        # cp / mv onto a destination that already holds a different (same-size, newer) file at the path of the first listed file
        dpre = ('/d' if not chs else '/d/ch0') + '/2020-01-01T00-00-00/rf@1.000.h5'
        fs.files[dpre] = ('old', 0); fs.mtime[dpre] = 2; fs.dirs.update(['/d', '/d/ch0', posixpath.dirname(dpre)]); fs.snap = [dict(fs.files)]
    if dest_linked: fs.dirlinks['/d'] = '/mnt/disk1/archive/d'        # the destination is reached through a symbolic link to a directory elsewhere
    fos = FakeOS(fs)
    calls = []
    def ils(path, **kw):
        calls.append((path, kw))
        p = posixpath.normpath(path)
        return iter([p + '/' + r for r in rels])
    sh = FakeShutil(fs)
    old = (L.os, L.shutil, L.ilsdrf)
    L.os = fos; L.shutil = sh; L.ilsdrf = ils
    L.os.path.abspath = staticmethod(posixpath.normpath)
    try:
        a = Args(); a.src = '/s'; a.dest = '/d'; a.chs = [','.join(chs)] if chs else []; a.starttime = None; a.endtime = None; a.func = None
        # every forwarded selection option carries its own sentinel value, so a mix-up between two options is visible in what the listing receives
        a.recursive = 'REC'; a.reverse = 'REV'; a.include_drf = 'IDRF'; a.include_dmd = 'IDMD'; a.include_drf_properties = 'PDRF'; a.include_dmd_properties = 'PDMD'
        if cmd == 2: a.symbolic = symbolic
        (L._run_cp if cmd == 0 else (L._run_mv if cmd == 1 else L._run_ln))(a)
    finally:
        L.os, L.shutil, L.ilsdrf = old
    dbase = '/d' if not chs else '/d/ch0'
    ok = True
    for i, r in enumerate(rels):
        ok = ok and fs.files.get(dbase + '/' + r) == ('c', i)
        if cmd == 1: ok = ok and (base + '/' + r) not in fs.files
        else: ok = ok and fs.files.get(base + '/' + r) == ('c', i)
    # nothing else appeared at the destination
    ok = ok and sorted(p for p in fs.files if p.startswith('/d')) == sorted(dbase + '/' + r for r in rels)
    # same selection options as a listing would get
    ok = ok and len(calls) == 1 and calls[0][1] == dict(recursive='REC', reverse='REV', starttime=None, endtime=None, include_drf='IDRF', include_dmd='IDMD',
                                                         include_drf_properties='PDRF', include_dmd_properties='PDMD')
    return ok


def _mirror_witness(dst_there: bool, dst_id: int) -> bool:
    """
    pre: 0 <= dst_id <= 2
    post: _
    """
    fs = SymFS({SRC: ('c', 1), **({DST: ('c', dst_id)} if dst_there else {})}, ['/s/ch/2020-01-01T00-00-00'])
    h = _handler(fs, 0)
    h.mirror_to_dest(SRC)
    return not any(op[0] == 'rename' for op in fs.log)     # reachability twin: a staged rename must be reachable


def _run_cp(ch_style: int, present0: bool, present1: bool, dst_pre: bool) -> bool:
    """
    pre: 0 <= ch_style <= 3 and (not dst_pre or present0)
    post: _
    """
    return _do_cmd(0, ch_style, present0, present1, False, dst_pre)


def _run_mv(ch_style: int, present0: bool, present1: bool, dst_pre: bool) -> bool:
    """
    pre: 0 <= ch_style <= 3 and (not dst_pre or present0)
    post: _
    """
    return _do_cmd(1, ch_style, present0, present1, False, dst_pre)


def _run_ln(ch_style: int, present0: bool, present1: bool, symbolic: bool, dest_linked: bool) -> bool:
    """
    pre: 0 <= ch_style <= 3
    post: _
    """
    return _do_cmd(2, ch_style, present0, present1, symbolic, False, dest_linked)


def _run_witness(cmd: int, present0: bool) -> bool:
    """
    pre: 0 <= cmd <= 2
    post: _
    """
    return not (_do_cmd(cmd, 1, present0, False, False, False) and present0)      # reachability twin: a successful one-file transfer is reachable
