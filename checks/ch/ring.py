"""CrossHair harnesses over the real ringbuffer handler classes (C16): file records are injected directly (their keys come from concrete
path names), os.remove / os.rmdir are replaced by a recording stub that checks the deletion rule at the moment of deletion."""
import sys
sys.path.insert(0, '/verif')
from typing import Optional
from vlib import chload
drf = chload.load()
from digital_rf import ringbuffer as RB
chload.warm(RB.DigitalRFRingbuffer)

# two channels (groups), two files each, concrete time keys (ms) as they would be parsed from the names
GROUPS = [('/w/ch0', 'rf'), ('/w/ch1', 'rf')]
FILES = [('/w/ch0/2020-01-01T00-00-00/rf@%d.000.h5' % (10 + i), (10 + i) * 1000, GROUPS[0]) for i in range(2)] + \
        [('/w/ch1/2020-01-01T00-00-00/rf@%d.000.h5' % (11 + 2 * i), (11 + 2 * i) * 1000, GROUPS[1]) for i in range(2)]


class FakeOS:
    """os stand-in inside the ringbuffer module: records deletions and checks, when a file is deleted, that it is tracked, is the oldest of
    its channel, and that some configured limit is exceeded at that moment"""
    def __init__(self, h, limits): self.h = h; self.limits = limits; self.deleted = []; self.bad = []; self.truth = {}; self.files = FILES
    class _P:
        @staticmethod
        def split(p): i = p.rfind('/'); return p[:i], p[i + 1:]
        @staticmethod
        def exists(p): return True
    path = _P()
    def remove(self, path):
        self.deleted.append(path)
        # the rule is judged against the TRUTH: the files that really exist (maintained by the harness), not the handler's own books
        t = self.truth
        size, count, duration = self.limits
        if path not in t: self.bad.append('deleted a file that does not exist / is not a reported data file'); return
        grp = [x for x in self.files if x[0] == path][0][2]
        mine = sorted((x[1], x[0]) for x in self.files if x[2] == grp and x[0] in t)
        if mine and mine[0][0] != [x for x in self.files if x[0] == path][0][1]: self.bad.append('deleted a file that is not (one of) the oldest existing one(s) of its channel')
        over = False
        if count is not None and len(mine) > count: over = True
        if duration is not None and mine and mine[-1][0] - mine[0][0] > duration: over = True
        if size is not None and sum(t.values()) > size: over = True
        if not over: self.bad.append('deleted although no limit is exceeded by the files that exist')
        del t[path]
    def rmdir(self, d): raise OSError('not empty')


def _state_ok(h, sizes_truth):
    """bookkeeping == truth: records <-> queues bijection, queues sorted by time, active_size == sum of tracked sizes"""
    inq = []
    for g, q in h.queues.items():
        prev = None
        for (key, path) in q:
            if prev is not None and key < prev: return False
            prev = key
            inq.append(path)
    if sorted(inq) != sorted(h.records.keys()): return False
    if len(set(inq)) != len(inq): return False
    for p, rec in h.records.items():
        if rec.path != p: return False
    if hasattr(h, 'active_size'):
        if h.active_size != sum(rec.size for rec in h.records.values()): return False
    return True


def _limits_ok(h, size, count, duration):
    for g, q in h.queues.items():
        if count is not None and len(q) > count: return False
        if duration is not None and len(q) > 0 and q[-1][0] - q[0][0] > duration: return False
    if size is not None and h.active_size > size: return False
    return True


def _exceeded(h, size, count, duration, grp):
    q = h.queues[grp]
    if count is not None and len(q) > count: return True
    if duration is not None and len(q) > 0 and q[-1][0] - q[0][0] > duration: return True
    if size is not None and h.active_size > size: return True
    return False


def _mk(size, count, duration):
    h = RB.DigitalRFRingbufferHandler(size=size, count=count, duration=duration)
    fos = FakeOS(h, (size, count, duration))
    RB.os = fos
    # instrument the single deletion point to check the rule with the state as it is when the decision is taken
    orig = h._expire_oldest_from_group
    def checked(group):
        q = h.queues[group]
        if len(q) == 0: fos.bad.append('expire from empty channel'); return orig(group)
        key, path = q[0]
        if path not in h.records: fos.bad.append('untracked')
        if any(k < key for (k, p) in q): fos.bad.append('not oldest')
        if not _exceeded_any(h, size, count, duration): fos.bad.append('no limit exceeded')
        return orig(group)
    h._expire_oldest_from_group = checked
    return h, fos


def _exceeded_any(h, size, count, duration):
    for g in list(h.queues.keys()):
        if _exceeded(h, size, count, duration, g): return True
    return False


def _apply(h, kind, fidx, sz, fdst=None, files=None):
    FILES_ = files or FILES
    if fidx == 0: f = FILES_[0]
    elif fidx == 1: f = FILES_[1]
    elif fidx == 2: f = FILES_[2]
    else: f = FILES_[3]
    path, key, grp = f
    rec = h.FileRecord(key=key, size=sz, path=path, group=grp)
    truth = RB.os.truth
    if kind == 0: truth[path] = sz; h._add_record(rec)
    elif kind == 1: truth[path] = sz; h._modify_record(rec)
    elif kind == 2: truth.pop(path, None); h._remove_record(path)
    else:
        # moved event: the file was renamed to the name of the next file of the universe (tracked -> tracked rename); delivered through
        # the real on_moved with the record lookup replaced by the harness table
        if fdst is None: nf = FILES[(fidx + 1) % 4] if fidx < 3 else FILES[0]
        elif fdst == 0: nf = FILES[0]
        elif fdst == 1: nf = FILES[1]
        elif fdst == 2: nf = FILES[2]
        else: nf = FILES[3]
        if path in truth: truth[nf[0]] = truth.pop(path)
        else: truth[nf[0]] = sz
        table = {x[0]: h.FileRecord(key=x[1], size=truth.get(x[0], sz), path=x[0], group=x[2]) for x in FILES}
        h._get_file_record = lambda p: table.get(p) if p in truth else None
        class Ev: src_path = path; dest_path = nf[0]
        h.on_moved(Ev)
    return path, grp


def _history(size, count, duration, ops):
    h, fos = _mk(size, count, duration)
    for op in ops:
        (k, f, s) = op[:3]
        n0 = len(fos.deleted)
        path, grp = _apply(h, k, f, s, op[3] if len(op) > 3 else None)
        if not _state_ok(h, None): return False
        if fos.bad: return False
        # deleted files were tracked data files of the watched tree, and are no longer tracked
        for p in fos.deleted[n0:]:
            if p in h.records: return False
            if not any(p == x[0] for x in FILES): return False
        # once a newly reported (added / modified) file has been handled every configured limit holds again
        if k != 2 and not _limits_ok(h, size, count, duration): return False
        # nothing is deleted by a removal notification
        if k == 2 and len(fos.deleted) != n0: return False
        # the tracked set equals the set of reported files that still exist
        if sorted(h.records.keys()) != sorted(fos.truth.keys()): return False
    return True


def _hist2_count(count: int, k1: int, f1: int, k2: int, f2: int) -> bool:
    """
    pre: 1 <= count <= 2
    pre: 0 <= k1 <= 2 and 0 <= k2 <= 2 and 0 <= f1 <= 3 and 0 <= f2 <= 3
    post: _
    """
    # count limit only: any 2 add/modify/remove notifications (duplicates, unknown files, any order) over 2 channels x 2 files
    return _history(None, count, None, ((k1, f1, 10), (k2, f2, 10)))


def _hist2_duration(duration: int, k1: int, f1: int, k2: int, f2: int) -> bool:
    """
    pre: 0 <= duration <= 5000
    pre: 0 <= k1 <= 2 and 0 <= k2 <= 2 and 0 <= f1 <= 3 and 0 <= f2 <= 3
    post: _
    """
    return _history(None, None, duration, ((k1, f1, 10), (k2, f2, 10)))


def _hist2_size(size: int, k1: int, f1: int, s1: int, k2: int, f2: int, s2: int) -> bool:
    """
    pre: 200 <= size <= 400
    pre: 0 <= k1 <= 2 and 0 <= k2 <= 2 and 0 <= f1 <= 3 and 0 <= f2 <= 3
    pre: 1 <= s1 <= 100 and 1 <= s2 <= 100
    post: _
    """
    # size limit (at least one largest file per channel: 2 channels x 100 bytes): sizes symbolic, modify notifications change sizes
    return _history(size, None, None, ((k1, f1, s1), (k2, f2, s2)))


def _hist3_all_0_0(size: int, count: int, duration: int, k1: int, f1: int, s1: int, k2: int, f2: int, s2: int, s3: int) -> bool:
    """
    pre: 200 <= size <= 400 and 1 <= count <= 2 and 0 <= duration <= 5000
    pre: 0 <= k1 <= 2 and 0 <= k2 <= 2 and 0 <= f1 <= 3 and 0 <= f2 <= 3
    pre: 1 <= s1 <= 100 and 1 <= s2 <= 100 and 1 <= s3 <= 100
    post: _
    """
    # all three limits, 3 notifications, the third being add of file 0
    return _history(size, count, duration, ((k1, f1, s1), (k2, f2, s2), (0, 0, s3)))


def _hist3_all_0_1(size: int, count: int, duration: int, k1: int, f1: int, s1: int, k2: int, f2: int, s2: int, s3: int) -> bool:
    """
    pre: 200 <= size <= 400 and 1 <= count <= 2 and 0 <= duration <= 5000
    pre: 0 <= k1 <= 2 and 0 <= k2 <= 2 and 0 <= f1 <= 3 and 0 <= f2 <= 3
    pre: 1 <= s1 <= 100 and 1 <= s2 <= 100 and 1 <= s3 <= 100
    post: _
    """
    # all three limits, 3 notifications, the third being add of file 1
    return _history(size, count, duration, ((k1, f1, s1), (k2, f2, s2), (0, 1, s3)))


def _hist3_all_0_2(size: int, count: int, duration: int, k1: int, f1: int, s1: int, k2: int, f2: int, s2: int, s3: int) -> bool:
    """
    pre: 200 <= size <= 400 and 1 <= count <= 2 and 0 <= duration <= 5000
    pre: 0 <= k1 <= 2 and 0 <= k2 <= 2 and 0 <= f1 <= 3 and 0 <= f2 <= 3
    pre: 1 <= s1 <= 100 and 1 <= s2 <= 100 and 1 <= s3 <= 100
    post: _
    """
    # all three limits, 3 notifications, the third being add of file 2
    return _history(size, count, duration, ((k1, f1, s1), (k2, f2, s2), (0, 2, s3)))


def _hist3_all_0_3(size: int, count: int, duration: int, k1: int, f1: int, s1: int, k2: int, f2: int, s2: int, s3: int) -> bool:
    """
    pre: 200 <= size <= 400 and 1 <= count <= 2 and 0 <= duration <= 5000
    pre: 0 <= k1 <= 2 and 0 <= k2 <= 2 and 0 <= f1 <= 3 and 0 <= f2 <= 3
    pre: 1 <= s1 <= 100 and 1 <= s2 <= 100 and 1 <= s3 <= 100
    post: _
    """
    # all three limits, 3 notifications, the third being add of file 3
    return _history(size, count, duration, ((k1, f1, s1), (k2, f2, s2), (0, 3, s3)))


def _hist3_all_1_0(size: int, count: int, duration: int, k1: int, f1: int, s1: int, k2: int, f2: int, s2: int, s3: int) -> bool:
    """
    pre: 200 <= size <= 400 and 1 <= count <= 2 and 0 <= duration <= 5000
    pre: 0 <= k1 <= 2 and 0 <= k2 <= 2 and 0 <= f1 <= 3 and 0 <= f2 <= 3
    pre: 1 <= s1 <= 100 and 1 <= s2 <= 100 and 1 <= s3 <= 100
    post: _
    """
    # all three limits, 3 notifications, the third being modify of file 0
    return _history(size, count, duration, ((k1, f1, s1), (k2, f2, s2), (1, 0, s3)))


def _hist3_all_1_1(size: int, count: int, duration: int, k1: int, f1: int, s1: int, k2: int, f2: int, s2: int, s3: int) -> bool:
    """
    pre: 200 <= size <= 400 and 1 <= count <= 2 and 0 <= duration <= 5000
    pre: 0 <= k1 <= 2 and 0 <= k2 <= 2 and 0 <= f1 <= 3 and 0 <= f2 <= 3
    pre: 1 <= s1 <= 100 and 1 <= s2 <= 100 and 1 <= s3 <= 100
    post: _
    """
    # all three limits, 3 notifications, the third being modify of file 1
    return _history(size, count, duration, ((k1, f1, s1), (k2, f2, s2), (1, 1, s3)))


def _hist3_all_1_2(size: int, count: int, duration: int, k1: int, f1: int, s1: int, k2: int, f2: int, s2: int, s3: int) -> bool:
    """
    pre: 200 <= size <= 400 and 1 <= count <= 2 and 0 <= duration <= 5000
    pre: 0 <= k1 <= 2 and 0 <= k2 <= 2 and 0 <= f1 <= 3 and 0 <= f2 <= 3
    pre: 1 <= s1 <= 100 and 1 <= s2 <= 100 and 1 <= s3 <= 100
    post: _
    """
    # all three limits, 3 notifications, the third being modify of file 2
    return _history(size, count, duration, ((k1, f1, s1), (k2, f2, s2), (1, 2, s3)))


def _hist3_all_1_3(size: int, count: int, duration: int, k1: int, f1: int, s1: int, k2: int, f2: int, s2: int, s3: int) -> bool:
    """
    pre: 200 <= size <= 400 and 1 <= count <= 2 and 0 <= duration <= 5000
    pre: 0 <= k1 <= 2 and 0 <= k2 <= 2 and 0 <= f1 <= 3 and 0 <= f2 <= 3
    pre: 1 <= s1 <= 100 and 1 <= s2 <= 100 and 1 <= s3 <= 100
    post: _
    """
    # all three limits, 3 notifications, the third being modify of file 3
    return _history(size, count, duration, ((k1, f1, s1), (k2, f2, s2), (1, 3, s3)))


def _hist3_all_2_0(size: int, count: int, duration: int, k1: int, f1: int, s1: int, k2: int, f2: int, s2: int, s3: int) -> bool:
    """
    pre: 200 <= size <= 400 and 1 <= count <= 2 and 0 <= duration <= 5000
    pre: 0 <= k1 <= 2 and 0 <= k2 <= 2 and 0 <= f1 <= 3 and 0 <= f2 <= 3
    pre: 1 <= s1 <= 100 and 1 <= s2 <= 100 and 1 <= s3 <= 100
    post: _
    """
    # all three limits, 3 notifications, the third being remove of file 0
    return _history(size, count, duration, ((k1, f1, s1), (k2, f2, s2), (2, 0, s3)))


def _hist3_all_2_1(size: int, count: int, duration: int, k1: int, f1: int, s1: int, k2: int, f2: int, s2: int, s3: int) -> bool:
    """
    pre: 200 <= size <= 400 and 1 <= count <= 2 and 0 <= duration <= 5000
    pre: 0 <= k1 <= 2 and 0 <= k2 <= 2 and 0 <= f1 <= 3 and 0 <= f2 <= 3
    pre: 1 <= s1 <= 100 and 1 <= s2 <= 100 and 1 <= s3 <= 100
    post: _
    """
    # all three limits, 3 notifications, the third being remove of file 1
    return _history(size, count, duration, ((k1, f1, s1), (k2, f2, s2), (2, 1, s3)))


def _hist3_all_2_2(size: int, count: int, duration: int, k1: int, f1: int, s1: int, k2: int, f2: int, s2: int, s3: int) -> bool:
    """
    pre: 200 <= size <= 400 and 1 <= count <= 2 and 0 <= duration <= 5000
    pre: 0 <= k1 <= 2 and 0 <= k2 <= 2 and 0 <= f1 <= 3 and 0 <= f2 <= 3
    pre: 1 <= s1 <= 100 and 1 <= s2 <= 100 and 1 <= s3 <= 100
    post: _
    """
    # all three limits, 3 notifications, the third being remove of file 2
    return _history(size, count, duration, ((k1, f1, s1), (k2, f2, s2), (2, 2, s3)))


def _hist3_all_2_3(size: int, count: int, duration: int, k1: int, f1: int, s1: int, k2: int, f2: int, s2: int, s3: int) -> bool:
    """
    pre: 200 <= size <= 400 and 1 <= count <= 2 and 0 <= duration <= 5000
    pre: 0 <= k1 <= 2 and 0 <= k2 <= 2 and 0 <= f1 <= 3 and 0 <= f2 <= 3
    pre: 1 <= s1 <= 100 and 1 <= s2 <= 100 and 1 <= s3 <= 100
    post: _
    """
    # all three limits, 3 notifications, the third being remove of file 3
    return _history(size, count, duration, ((k1, f1, s1), (k2, f2, s2), (2, 3, s3)))


def _hist_moved(count: int, k1: int, f1: int, f2: int, fm: int, fd: int) -> bool:
    """
    pre: 1 <= count <= 3
    pre: 0 <= k1 <= 1 and 0 <= f1 <= 3 and 0 <= f2 <= 3 and 0 <= fm <= 3 and 0 <= fd <= 3 and fd != fm
    post: _
    """
    # two reports, then a rename of a tracked file to another data-file name (moved event): nothing is deleted unless the files that
    # really exist exceed the limit, and the books follow the rename
    return _history(None, count, None, ((k1, f1, 10), (0, f2, 10), (3, fm, 10, fd)))


def _hist_moved_size(size: int, f1: int, f2: int, fm: int, fd: int, s1: int, s2: int) -> bool:
    """
    pre: 200 <= size <= 400 and 0 <= f1 <= 3 and 0 <= f2 <= 3 and 0 <= fm <= 3 and 0 <= fd <= 3 and fd != fm and 1 <= s1 <= 100 and 1 <= s2 <= 100
    post: _
    """
    return _history(size, None, None, ((0, f1, s1), (0, f2, s2), (3, fm, s2, fd)))


def _verify_case(size, count, inb, ond, s_old, s_new):
    """re-verification after an observer restart (the real DigitalRFRingbuffer._verify_ringbuffer_files): `inb` = files tracked before the
    crash (sizes s_old), `ond` = files on disk now (sizes s_new; events were missed in between).  Afterwards the books equal the files on
    disk (minus what was expired), sizes are the current ones, and nothing was deleted unless the files on disk exceed a limit."""
    h, fos = _mk(size, count, None)
    # state before the crash: tracked files with their old sizes
    for i in range(4):
        if inb[i]:
            path, key, grp = FILES[i]
            fos.truth[path] = s_old
            h._add_record(h.FileRecord(key=key, size=s_old, path=path, group=grp))
    if fos.deleted or fos.bad: return True          # the pre-state itself was over the limit: not the case under examination
    # what is on disk now
    fos.truth = {}
    for i in range(4):
        if ond[i]: fos.truth[FILES[i][0]] = s_new
    if (count is not None and any(sum(1 for x in FILES if x[2] == g and x[0] in fos.truth) > count for g in set(x[2] for x in FILES))) \
            or (size is not None and sum(fos.truth.values()) > size):
        over = True
    else:
        over = False
    table = {x[0]: x for x in FILES}
    h._get_file_record = lambda p: (h.FileRecord(key=table[p][1], size=fos.truth[p], path=p, group=table[p][2]) if p in fos.truth else None)
    class LD:
        @staticmethod
        def ilsdrf(path, **kw): return iter(sorted(fos.truth.keys()))
    rb = chload.new_obj(RB.DigitalRFRingbuffer)
    rb.path = '/w'; rb.starttime = None; rb.endtime = None; rb.include_drf = True; rb.include_dmd = True; rb.event_handler = h
    old = RB.list_drf; RB.list_drf = LD
    try:
        rb._verify_ringbuffer_files(set(h.records.keys()))
    finally:
        RB.list_drf = old
    if fos.bad: return False
    if not over and fos.deleted: return False
    if not _state_ok(h, None): return False
    if sorted(h.records.keys()) != sorted(fos.truth.keys()): return False
    for p, rec in h.records.items():
        if rec.size != fos.truth[p]: return False
    # once a newly found file has been handled every limit holds again (a file that merely grew is, as for a plain modify event, not a reason
    # to expire at once)
    if any(ond[i] and not inb[i] for i in range(4)) and not _limits_ok(h, size, count, None): return False
    return True


def _verify_count(count: int, i0: bool, i1: bool, i2: bool, i3: bool, o0: bool, o1: bool, o2: bool, o3: bool) -> bool:
    """
    pre: 1 <= count <= 2
    post: _
    """
    return _verify_case(None, count, [i0, i1, i2, i3], [o0, o1, o2, o3], 10, 10)


def _verify_size(size: int, i0: bool, i1: bool, i2: bool, i3: bool, o0: bool, o1: bool, o2: bool, o3: bool, s_old: int, s_new: int) -> bool:
    """
    pre: 200 <= size <= 400 and 1 <= s_old <= 100 and 1 <= s_new <= 100
    post: _
    """
    return _verify_case(size, None, [i0, i1, i2, i3], [o0, o1, o2, o3], s_old, s_new)


# files of one channel that share a time key (the same file name in two timestamped subdirectories), an older and a newer one
TWINS = [('/w/ch0/2020-01-01T00-00-00/rf@10.000.h5', 10000, GROUPS[0]), ('/w/ch0/2020-01-01T01-00-00/rf@10.000.h5', 10000, GROUPS[0]),
         ('/w/ch0/2020-01-01T00-00-00/rf@9.000.h5', 9000, GROUPS[0]), ('/w/ch0/2020-01-01T01-00-00/rf@12.000.h5', 12000, GROUPS[0])]


def _hist_twins(size: int, f1: int, f2: int, k3: int, f3: int, k4: int, f4: int, s1: int, s2: int) -> bool:
    """
    pre: 250 <= size <= 400
    pre: 0 <= f1 <= 2 and 0 <= f2 <= 2 and 0 <= k3 <= 2 and 0 <= f3 <= 2 and 0 <= k4 <= 1 and 0 <= f4 <= 2
    pre: 1 <= s1 <= 100 and 1 <= s2 <= 100
    post: _
    """
    # size limit, one channel, files two of which have the SAME time key under different paths (plus an older one): two reports (add), any
    # third notification, a fourth report (add / modify): the books equal the truth after every notification (tracked set, queue entries by
    # path, total size) and nothing is deleted unless the limit is exceeded
    h, fos = _mk(size, None, None)
    fos.files = TWINS
    for (k, f, s) in ((0, f1, s1), (0, f2, s2), (k3, f3, s1), (k4, f4, s2)):
        n0 = len(fos.deleted)
        _apply(h, k, f, s, None, TWINS)
        if not _state_ok(h, None) or fos.bad: return False
        if k == 2 and len(fos.deleted) != n0: return False
        if sorted(h.records.keys()) != sorted(fos.truth.keys()): return False
        if h.active_size != sum(fos.truth.values()): return False
    return True


def _ring_witness(f1: int, f2: int) -> bool:
    """
    pre: 0 <= f1 <= 3 and 0 <= f2 <= 3
    post: _
    """
    h, fos = _mk(None, 1, None)
    _apply(h, 0, f1, 10); _apply(h, 0, f2, 10)
    return len(fos.deleted) == 0      # reachability twin: a deletion must be reachable
