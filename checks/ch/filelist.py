"""CrossHair harness over the real DigitalRFReader._get_file_list (N1b): numpy array helpers are replaced by a list-backed shim."""
import sys, inspect
sys.path.insert(0, '/verif')
from vlib import chload, spec
drf = chload.load()
import digital_rf.digital_rf_hdf5 as H
import numpy as _np


class LArr:
    def __init__(self, v): self.v = list(v)
    def __iter__(self): return iter(self.v)
    def __len__(self): return len(self.v)
    def __add__(self, o): return LArr([x + o for x in self.v])
    def __sub__(self, o): return LArr([x - o for x in self.v])
    def __ge__(self, o): return [x >= o for x in self.v]
    def __le__(self, o): return [x <= o for x in self.v]
    def __gt__(self, o): return [x > o for x in self.v]
    def __lt__(self, o): return [x < o for x in self.v]


class NP:
    uint64 = _np.uint64; longdouble = _np.longdouble; int64 = _np.int64
    @staticmethod
    def arange(a, b, step): return LArr(range(a, b, step))
    @staticmethod
    def logical_and(x, y): return [p and q for p, q in zip(x, y)]
    @staticmethod
    def logical_or(x, y): return [p or q for p, q in zip(x, y)]
    @staticmethod
    def compress(mask, arr): return [x for m, x in zip(mask, arr.v) if m]


PARAMS = list(inspect.signature(H.DigitalRFReader._get_file_list).parameters)


def _call(s0, s1, n, d, sc, fc):
    kw = {}
    for p in PARAMS[2:]:
        if p == 'samples_per_second': kw[p] = _np.longdouble(_np.uint64(n)) / _np.longdouble(_np.uint64(d))
        elif p == 'sample_rate_numerator': kw[p] = n
        elif p == 'sample_rate_denominator': kw[p] = d
        elif p.startswith('subdir_cadence'): kw[p] = sc
        elif p.startswith('file_cadence'): kw[p] = fc
    old = H.np
    H.np = NP
    try:
        return H.DigitalRFReader._get_file_list(s0, s1, **kw)
    finally:
        H.np = old


def _path(k, n, d, sc, fc):
    return spec.subdir_name(spec.dir_sec(k, n, d, sc)) + '/' + spec.file_name(spec.file_ms(k, n, d, fc))


def _single_sample_one_file(cfg: int, k: int) -> bool:
    """
    pre: 0 <= cfg <= 1 and 0 <= k <= 120
    post: _
    """
    n, d, sc, fc = (10, 1, 2, 400) if cfg == 0 else (200, 3, 2, 400)
    return _call(k, k, n, d, sc, fc) == [_path(k, n, d, sc, fc)]


def _filelist_witness(s0: int, s1: int) -> bool:
    """
    pre: 0 <= s0 <= s1 <= 60
    post: _
    """
    return len(_call(s0, s1, 10, 1, 2, 400)) != 2
