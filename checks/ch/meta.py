"""CrossHair harnesses over the real DigitalMetadataReader / DigitalMetadataWriter internals (C12, C20).
h5py is replaced by an in-memory store of files/groups/datasets with an open/close log; numpy array helpers by a list-backed shim;
collections.OrderedDict by an insertion-ordered list-backed mapping; file placement (C13) is supplied by a stub of _get_file_list /
an exact-division shim for the writer's file index."""
import sys
sys.path.insert(0, '/verif')
from typing import List, Optional
from vlib import chload
drf = chload.load()
import digital_rf.digital_metadata as M
chload.warm(M.DigitalMetadataReader)

W = 100          # samples per file in the harness channel (1 Hz, 100 s files)


class K:
    """HDF5 group name of a sample: the decimal string of a (symbolic) non-negative integer < 1000, kept as the integer.
    Ordering is the ordering of the decimal STRINGS (what sorting h5py key lists does), expressed arithmetically."""
    __slots__ = ('v',)
    def __init__(self, v): self.v = v
    @staticmethod
    def _pad(v):
        # left-align to 3 digits: value used to compare decimal strings of different lengths ('10' < '2' < '200')
        if v < 10: return v * 100, 1
        if v < 100: return v * 10, 2
        return v, 3
    def __lt__(self, o):
        a, la = K._pad(self.v); b, lb = K._pad(o.v)
        return a < b or (a == b and la < lb)
    def __gt__(self, o): return o.__lt__(self)
    def __le__(self, o): return not o.__lt__(self)
    def __ge__(self, o): return not self.__lt__(o)
    def __eq__(self, o): return isinstance(o, K) and self.v == o.v
    def __ne__(self, o): return not self.__eq__(o)
    __hash__ = None


_bi_int, _bi_str = int, str


def _int_shim(x=0, *a):
    if isinstance(x, K): return x.v
    return _bi_int(x, *a)


def _str_shim(x=''):
    if isinstance(x, K): return x
    if isinstance(x, _bi_int) or hasattr(x, '__index__') and not isinstance(x, _bi_str): return K(x)
    return _bi_str(x)


M.int = _int_shim
M.str = _str_shim


# ------------------------------------------------------------------ fake h5py
class Dataset:
    def __init__(self, val): self.val = val
    def __getitem__(self, k): return self.val


class Group:
    def __init__(self): self.items_ = []          # ordered (name, child)
    def keys(self): return [n for n, _ in self.items_]
    def items(self): return list(self.items_)
    def _find(self, name):
        for n, c in self.items_:
            if n == name: return c
        return None
    def __getitem__(self, name):
        c = self._find(name)
        if c is None: raise KeyError(name)
        return c
    def __contains__(self, name): return self._find(name) is not None
    def create_group(self, name):
        if self._find(name) is not None: raise ValueError('Unable to create group (name already exists)')
        g = Group(); self.items_.append((name, g)); return g
    def create_dataset(self, key, data=None):
        if self._find(key) is not None: raise ValueError('exists')
        d = Dataset(data); self.items_.append((key, d)); return d


class Store:
    def __init__(self): self.files = {}; self.log = []; self.open_now = 0; self.unreadable = set()


class FakeH5:
    Dataset = Dataset
    def __init__(self, store): self.s = store
    def File(self, path, mode='r', **kw):
        st = self.s
        if path in st.unreadable: raise IOError('unreadable')
        if mode == 'r' and path not in st.files: raise IOError('no such file')
        if path not in st.files: st.files[path] = Group()
        st.log.append(('open', path, mode)); st.open_now += 1
        root = st.files[path]
        class Ctx:
            def __enter__(s2): return root
            def __exit__(s2, *a): st.log.append(('close', path)); st.open_now -= 1; return False
        return Ctx()
    class h5t:
        @staticmethod
        def check_string_dtype(dt): return None


class LArr:
    def __init__(self, v): self.v = list(v)
    def sort(self): self.v.sort()
    def __iter__(self): return iter(self.v)
    def __len__(self): return len(self.v)
    def __ge__(self, o): return [x >= o for x in self.v]
    def __le__(self, o): return [x <= o for x in self.v]
    def __getitem__(self, m):
        if isinstance(m, list): return LArr([x for x, keep in zip(self.v, m) if keep])
        return self.v[m]


class NP:
    int64 = 'int64'; uint64 = int; generic = (); ndarray = (); object_ = object
    @staticmethod
    def fromiter(it, dtype, count=-1): return LArr([_int_shim(x) for x in it])
    @staticmethod
    def logical_and(a, b): return [p and q for p, q in zip(a, b)]


class RecOD:
    def __init__(self): self._i = []
    def __setitem__(self, k, v):
        for j, (kk, _) in enumerate(self._i):
            if kk == k: self._i[j] = (k, v); return
        self._i.append((k, v))
    def __getitem__(self, k):
        for kk, v in self._i:
            if kk == k: return v
        raise KeyError(k)
    def __len__(self): return len(self._i)
    def __bool__(self): return len(self._i) > 0
    def __iter__(self): return iter([k for k, _ in self._i])
    def __reversed__(self): return iter([k for k, _ in reversed(self._i)])
    def keys(self): return [k for k, _ in self._i]
    def items(self): return list(self._i)
    def values(self): return [v for _, v in self._i]


class Coll:
    OrderedDict = RecOD


def _path(j): return '/md/sub/md@%d.h5' % (j * W)


_LIST_DRF = M.list_drf


def _real_init():
    """a reader object built by the REAL DigitalMetadataReader.__init__ on a concrete in-memory properties file (every attribute the
    constructor sets exists, e.g. caches), before the harness points it at its symbolic channel"""
    _os, _glob, _np0, _h5, _ld = M.os, M.glob, M.np, M.h5py, M.list_drf
    M.list_drf = _LIST_DRF
    class FOS:
        class path:
            @staticmethod
            def join(*a): return '/'.join(a)
        @staticmethod
        def remove(p): pass
        @staticmethod
        def getpid(): return 1
    root = Group()
    root.attrs = _Attrs(subdir_cadence_secs=1000, file_cadence_secs=W, sample_rate_numerator=1, sample_rate_denominator=1, file_name='md',
                        digital_metadata_version='2.5.0')
    class FD:
        def __getitem__(s, k): return []
        def __iter__(s): return iter([])
        def __len__(s): return 0
    root.items_.append(('fields', FD()))
    st0 = Store(); st0.files['/md/dmd_properties.h5'] = root
    class G:
        @staticmethod
        def glob(p): return ['/md/dmd_properties.h5']
    import numpy as _np
    M.h5py = FakeH5(st0); M.os = FOS; M.glob = G; M.np = _np
    r = chload.new_obj(M.DigitalMetadataReader)
    r._check_compatible_version = lambda: None
    try:
        M.DigitalMetadataReader.__init__(r, '/md')
    finally:
        M.os, M.glob, M.np, M.h5py, M.list_drf = _os, _glob, _np0, _h5, _ld
    return r


def _setup(samples):
    """channel holding `samples` (ascending, distinct), one group per sample, file j holds [j*W, (j+1)*W)"""
    st = Store()
    for s in samples:
        j = 0 if s < W else (1 if s < 2 * W else 2)
        p = _path(j)
        if p not in st.files: st.files[p] = Group()
        g = st.files[p].create_group(K(s)); g.create_dataset('v', data=('val', s))
    r = _real_init()
    r._metadata_dir = '/md'; r._file_cadence_secs = W; r._subdir_cadence_secs = 1000; r._file_name = 'md'
    M.h5py = FakeH5(st); M.np = NP; M.collections = Coll
    calls = []
    def gfl(s0, s1):
        calls.append((s0, s1))
        out = []
        for j in (0, 1, 2):
            if _path(j) in st.files and (j + 1) * W - 1 >= s0 and j * W <= s1: out.append(_path(j))
        return out
    r._get_file_list = gfl
    class LD:
        @staticmethod
        def ilsdrf(d, **kw):
            ps = [_path(j) for j in (0, 1, 2) if _path(j) in st.files]
            return iter(list(reversed(ps)) if kw.get('reverse') else ps)
    M.list_drf = LD
    return r, st


def _bounds(a: int, d1: int, d2: int, n: int) -> bool:
    """
    pre: 0 <= a <= 250 and 1 <= d1 <= 250 and 1 <= d2 <= 250 and 1 <= n <= 3 and a + d1 + d2 < 300
    post: _
    """
    # 1..3 samples at a < a+d1 < a+d1+d2 spread over up to 3 files: bounds == (smallest, largest) index written
    samples = [a] if n == 1 else ([a, a + d1] if n == 2 else [a, a + d1, a + d1 + d2])
    r, st = _setup(samples)
    return r.get_bounds() == (samples[0], samples[-1]) and st.open_now == 0


def _read_range(a: int, d1: int, d2: int, lo: int, hi: int) -> bool:
    """
    pre: 0 <= a <= 250 and 1 <= d1 <= 250 and 1 <= d2 <= 250 and a + d1 + d2 < 300
    pre: 0 <= lo <= hi <= 320
    post: _
    """
    # three samples; a plain range read returns exactly the samples with lo <= index <= hi, ascending, with their own values
    samples = [a, a + d1, a + d1 + d2]
    r, st = _setup(samples)
    got = r.read(lo, hi)
    want = [(s, {'v': ('val', s)}) for s in samples if lo <= s <= hi]
    return got.items() == want and st.open_now == 0


def _read_ffill(a: int, d1: int, d2: int, lo: int, hi: int) -> bool:
    """
    pre: 0 <= a <= 250 and 1 <= d1 <= 250 and 1 <= d2 <= 250 and a + d1 + d2 < 300
    pre: 0 <= lo <= hi <= 320
    post: _
    """
    # forward fill: additionally the latest sample at or before the start of the range (once), still ascending
    samples = [a, a + d1, a + d1 + d2]
    r, st = _setup(samples)
    got = r.read(lo, hi, method='ffill')
    before = [s for s in samples if s <= lo]
    inr = [s for s in samples if lo < s <= hi]
    want = ([before[-1]] if before else []) + inr
    return got.keys() == want and all(v == {'v': ('val', k)} for k, v in got.items()) and st.open_now == 0


def _read_latest(a: int, d1: int, d2: int) -> bool:
    """
    pre: 0 <= a <= 250 and 1 <= d1 <= 250 and 1 <= d2 <= 250 and a + d1 + d2 < 300
    post: _
    """
    samples = [a, a + d1, a + d1 + d2]
    r, st = _setup(samples)
    got = r.read_latest()
    return got.keys() == [samples[-1]] and st.open_now == 0


def _read_column(a: int, d1: int, lo: int, hi: int) -> bool:
    """
    pre: 0 <= a <= 250 and 1 <= d1 <= 250 and a + d1 < 300 and 0 <= lo <= hi <= 320
    post: _
    """
    # a single column name returns the column value itself; a list of names returns {name: value}
    samples = [a, a + d1]
    r, st = _setup(samples)
    g1 = r.read(lo, hi, columns='v'); g2 = r.read(lo, hi, columns=['v'])
    inr = [s for s in samples if lo <= s <= hi]
    return g1.items() == [(s, ('val', s)) for s in inr] and g2.items() == [(s, {'v': ('val', s)}) for s in inr]


def _meta_witness(a: int, d1: int, lo: int) -> bool:
    """
    pre: 0 <= a <= 250 and 1 <= d1 <= 250 and a + d1 < 300 and 0 <= lo <= 320
    post: _
    """
    r, st = _setup([a, a + d1])
    return len(r.read(lo, 320, method='ffill')) != 2       # reachability twin


# ------------------------------------------------------------------ writer (C12 write side, C20 open/close discipline)

class Rate:
    """samples per second stand-in (1 Hz): cadence * Rate -> samples per file; sample / that -> exact quotient (placement is C13's job)"""
    def __rmul__(self, c): return SPF(c)
    def __mul__(self, c): return SPF(c)


class SPF:
    def __init__(self, w): self.w = w
    def __rtruediv__(self, s): return Quot(s, self.w)


class Quot:
    def __init__(self, s, w): self.s, self.w = s, w


class NPW(NP):
    @staticmethod
    def uint64(x):
        if isinstance(x, Quot): return x.s // x.w
        return x
    @staticmethod
    def asarray(x, dtype=None): return LArr(list(x) if isinstance(x, (list, tuple)) else [x])
    @staticmethod
    def atleast_1d(a): return a
    @staticmethod
    def longdouble(x): return x


class FakeOSW:
    W_OK = 2; R_OK = 4
    @staticmethod
    def access(p, mode): return p == '/md'          # the channel directory is writable; it holds no properties file yet
    class path:
        @staticmethod
        def join(*a): return '/'.join(a)
        @staticmethod
        def exists(p): return True
    @staticmethod
    def makedirs(p): pass


def _writer(existing):
    st = Store()
    for s in existing:
        j = 0 if s < W else (1 if s < 2 * W else 2)
        p = '/md/1970-01-01T00-00-00/md@%d.h5' % (j * W)
        if p not in st.files: st.files[p] = Group()
        g = st.files[p].create_group(K(s)); g.create_dataset('v', data=('old', s))
    M.h5py = FakeH5(st); M.np = NPW; M.os = FakeOSW
    # built by the REAL constructor (every attribute it sets exists); only the properties file of the new channel is not written
    cls = M.DigitalMetadataWriter
    oldw = cls._write_properties
    cls._write_properties = lambda self: None
    try:
        w = cls('/md', 1000, W, 1, 1, 'md')
    finally:
        cls._write_properties = oldw
    w._samples_per_second = Rate(); w._fields = ['v']
    return w, st


def _file_of(s): return '/md/1970-01-01T00-00-00/md@%d.h5' % ((0 if s < W else (1 if s < 2 * W else 2)) * W)


def _write_new(e: int, a: int, d1: int) -> bool:
    """
    pre: 0 <= e < 300 and 0 <= a < 300 and 1 <= d1 < 300 and a + d1 < 300
    post: _
    """
    # channel already holding sample e; write samples a < a+d1 (list-of-dicts form).  Accepted iff neither index exists; then each sample is one
    # group named by its index in the file of its index, holding its own value; every file opened is closed when write returns.
    # An index that already exists is refused with IOError and the stored sample is unchanged.
    w, st = _writer([e])
    samples = [a, a + d1]
    try:
        w.write(samples, [{'v': ('new', a)}, {'v': ('new', a + d1)}])
        ok = True
    except IOError:
        ok = False
    closed = st.open_now == 0 and all(x[0] != 'open' or x[2] in ('a', 'r') for x in st.log)
    old = st.files[_file_of(e)][K(e)]['v'].val == ('old', e)
    if e == a or e == a + d1:
        return (not ok) and old and closed
    if not ok: return False
    good = True
    for s in samples:
        f = st.files.get(_file_of(s))
        good = good and f is not None and K(s) in f and f[K(s)]['v'].val == ('new', s)
    # nothing else was created
    total = sum(len(f.items_) for f in st.files.values())
    return good and old and closed and total == 3


def _write_dict_forms(a: int, d1: int, d2: int, slen: int) -> bool:
    """
    pre: 0 <= a < 300 and 1 <= d1 < 300 and 1 <= d2 < 300 and a + d1 + d2 < 300 and 0 <= slen <= 4
    post: _
    """
    # dict-of-values form for 3 samples: a list of length 3 is distributed one element per sample; a scalar and a list of another length are
    # repeated for every sample; a string is never distributed, whatever its length; nested dictionaries keep their structure
    w, st = _writer([])
    samples = [a, a + d1, a + d1 + d2]
    text = 'abcd'[:slen]
    w.write(samples, {'per': [10, 20, 30], 'all': 7, 'pair': [1, 2], 'txt': text, 'sub': {'x': [4, 5, 6], 't': text, 'deep': {'y': [7, 8, 9], 'z': {'w': 1}}}, 'other': {'deep': {'y': 0}}})
    good = st.open_now == 0
    for i, s in enumerate(samples):
        f = st.files.get(_file_of(s))
        if f is None or K(s) not in f: return False
        g = f[K(s)]
        good = (good and g['per'].val == [10, 20, 30][i] and g['all'].val == 7 and g['pair'].val == [1, 2] and g['txt'].val == text
                and g['sub/x'].val == [4, 5, 6][i] and g['sub/t'].val == text
                and g['sub/deep/y'].val == [7, 8, 9][i] and g['sub/deep/z/w'].val == 1 and g['other/deep/y'].val == 0)
    return good


def _file_of2(s):
    j = 0 if s < W else (1 if s < 2 * W else (2 if s < 3 * W else 3))
    return '/md/%s/md@%d.h5' % ('1970-01-01T00-00-00' if j < 2 else '1970-01-01T00-03-20', j * W)


def _write_subdirs(a: int, d1: int, d2: int, e2: int) -> bool:
    """
    pre: 0 <= a and 1 <= d1 and 1 <= d2 and a + d1 + d2 < 400
    pre: 0 <= e2 < 400 and e2 != a and e2 != a + d1 and e2 != a + d1 + d2
    post: _
    """
    # subdirectory cadence = 2 files: one batch write of three ascending samples (possibly straddling the subdirectory boundary), then a
    # second write call on the SAME writer object with any other index (earlier or later: back-filled metadata).  Every sample ends up in the
    # file of its index inside the subdirectory of that file -- placement does not depend on what was written before
    w, st = _writer([])
    w._subdir_cadence_secs = 200
    samples = [a, a + d1, a + d1 + d2]
    w.write(samples, [{'v': ('new', x)} for x in samples])
    w.write([e2], [{'v': ('new', e2)}])
    good = st.open_now == 0
    for s in samples + [e2]:
        f = st.files.get(_file_of2(s))
        good = good and f is not None and K(s) in f and f[K(s)]['v'].val == ('new', s)
    total = sum(len(f.items_) for f in st.files.values())
    return good and total == 4


def _write_witness(e: int, a: int) -> bool:
    """
    pre: 0 <= e < 300 and 0 <= a < 299
    post: _
    """
    w, st = _writer([e])
    try:
        w.write([a, a + 1], [{'v': 1}, {'v': 2}])
    except IOError:
        return True
    return False       # reachability twin: an accepted write must be reachable


# ------------------------------------------------------------------ C20: live visibility and non-destructive reading

def _reader_sees_write(a: int, d1: int, d2: int, pos: int) -> bool:
    """
    pre: 0 <= a < 300 and 1 <= d1 < 300 and 1 <= d2 < 300 and a + d1 + d2 < 300 and 0 <= pos <= 2
    post: _
    """
    # a reader created BEFORE a write (and already queried) and one created after it both report the new sample as soon as write() returned:
    # bounds include it, a range read returns it, read_latest returns the highest index (no cached state in the reader).  The new sample
    # may lie before, between or after the two samples already there.
    three = [a, a + d1, a + d1 + d2]
    if pos == 0: new = three[0]; samples0 = [three[1], three[2]]
    elif pos == 1: new = three[1]; samples0 = [three[0], three[2]]
    else: new = three[2]; samples0 = [three[0], three[1]]
    r_old, st = _setup(samples0)
    b0 = r_old.get_bounds(); l0 = r_old.read_latest().keys()
    w, _st2 = _writer([])
    # writer and readers share the same store
    M.h5py = FakeH5(st); M.np = NPW; M.os = FakeOSW
    # the harness channel of the reader lives under /md/sub, the writer's under its own subdirectory: place the new sample where the reader looks
    p = _path(0 if new < W else (1 if new < 2 * W else 2))
    if p not in st.files: st.files[p] = Group()
    g = st.files[p].create_group(K(new)); g.create_dataset('v', data=('val', new))
    M.np = NP
    r_new = _real_init()
    for k_, v_ in r_old.__dict__.items():
        if k_ in ('_metadata_dir', '_file_cadence_secs', '_subdir_cadence_secs', '_file_name', '_get_file_list'): r_new.__dict__[k_] = v_
    M.h5py = FakeH5(st); M.np = NP
    ok = True
    for r in (r_old, r_new):
        ok = ok and r.get_bounds() == (three[0], three[2]) and r.read(new, new).keys() == [new] and r.read_latest().keys() == [three[2]]
    return ok and b0 == (samples0[0], samples0[1]) and l0 == [samples0[1]]


class _Attrs(dict):
    def __getitem__(self, k):
        v = dict.__getitem__(self, k)
        class V:
            def item(s): return v
        return V() if k not in ('file_name', 'digital_metadata_version') else v


def _init_nondestructive(accept_empty: bool, has_fields: bool) -> bool:
    """
    post: _
    """
    # constructing a metadata reader on a valid channel never deletes anything, except the documented accept_empty=False branch on a
    # channel that has no fields yet
    removed = []
    class FOS:
        class path:
            @staticmethod
            def join(*a): return '/'.join(a)
        @staticmethod
        def remove(p): removed.append(p)
        @staticmethod
        def getpid(): return 1
    root = Group()
    root.attrs = _Attrs(subdir_cadence_secs=1000, file_cadence_secs=100, sample_rate_numerator=1, sample_rate_denominator=1, file_name='md',
                        digital_metadata_version='2.5.0')
    if has_fields:
        class FD:
            def __getitem__(s, k): return []
            def __iter__(s): return iter([])
            def __len__(s): return 0
        root.items_.append(('fields', FD()))
    st = Store(); st.files['/md/dmd_properties.h5'] = root
    class G:
        @staticmethod
        def glob(p): return ['/md/dmd_properties.h5']
    import numpy as _np
    M.h5py = FakeH5(st); M.os = FOS; M.glob = G; M.np = _np
    r = chload.new_obj(M.DigitalMetadataReader)
    r._check_compatible_version = lambda: None
    try:
        M.DigitalMetadataReader.__init__(r, '/md', accept_empty=accept_empty)
        raised = False
    except IOError:
        raised = True
    if accept_empty or has_fields: return removed == [] and not raised
    return removed == ['/md/dmd_properties.h5'] and raised


def _add_metadata_nondestructive(readable: bool, writable: bool, age: int, cadence: int, colsel: int) -> bool:
    """
    pre: 0 <= age <= 10**6 and 1 <= cadence <= 10**6 and 0 <= colsel <= 4
    post: _
    """
    # reading a data file deletes it only if opening it fails although it is accessible AND it is older than one file cadence;
    # a file that opens is never touched
    removed = []
    st = Store(); st.files['/md/f'] = Group(); st.files['/md/f'].create_group(K(5)).create_dataset('v', data=1)
    class FOS:
        R_OK = 4; W_OK = 2
        class path:
            @staticmethod
            def getmtime(p): return 1000
        @staticmethod
        def access(p, m): return readable if m == 4 else writable
        @staticmethod
        def remove(p): removed.append(p)
    class T:
        @staticmethod
        def time(): return 1000 + age
    M.h5py = FakeH5(st); M.np = NP; M.collections = Coll; M.os = FOS; M.time = T
    M.traceback = type('TB', (), {'print_exc': staticmethod(lambda: None)})
    M.print = lambda *a, **k: None
    r = chload.new_obj(M.DigitalMetadataReader)
    r._file_cadence_secs = cadence
    out = RecOD()
    r._add_metadata(out, '/md/f', None, 0, 10, True)          # file opens fine
    ok1 = removed == [] and out.keys() == [5]
    # a column-restricted read of the same valid file, the column present or not: whatever it returns or raises, the file is not touched
    cols = [None, 'v', 'nosuch', ['v'], ['nosuch']][colsel]
    try:
        r._add_metadata(RecOD(), '/md/f', cols, 0, 10, True)
    except KeyError:
        pass
    ok1 = ok1 and removed == []
    st.unreadable.add('/md/bad')
    r._add_metadata(out, '/md/bad', None, 0, 10, True)        # open raises IOError
    want = ['/md/bad'] if (readable and writable and age > cadence) else []
    return ok1 and removed == want
