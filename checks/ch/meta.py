"""CrossHair harnesses over the real DigitalMetadataReader / DigitalMetadataWriter internals (C12, C20).
h5py is replaced by an in-memory store of files/groups/datasets with an open/close log; numpy array helpers by a list-backed shim;
collections.OrderedDict by an insertion-ordered list-backed mapping; file placement (C13) is supplied by a stub of _get_file_list /
an exact-division shim for the writer's file index."""
import sys
sys.path.insert(0, '/verif')
from typing import List, Optional
from vlib import chload
drf = chload.load()
import digital_rf.digital_metadata as M

W = 100          # samples per file in the harness channel (1 Hz, 100 s files)


# ------------------------------------------------------------------ fake h5py
class Dataset:
    def __init__(self, val): self.val = val
    def __getitem__(self, k): return self.val


class Group:
    def __init__(self): self.items_ = []          # ordered (name, child)
    def keys(self): return [n for n, _ in self.items_]
    def items(self): return list(self.items_)
    def _find(self, name):
        for n, c in self.items_:
            if n == name: return c
        return None
    def __getitem__(self, name):
        c = self._find(name)
        if c is None: raise KeyError(name)
        return c
    def __contains__(self, name): return self._find(name) is not None
    def create_group(self, name):
        if self._find(name) is not None: raise ValueError('Unable to create group (name already exists)')
        g = Group(); self.items_.append((name, g)); return g
    def create_dataset(self, key, data=None):
        if self._find(key) is not None: raise ValueError('exists')
        d = Dataset(data); self.items_.append((key, d)); return d


class Store:
    def __init__(self): self.files = {}; self.log = []; self.open_now = 0; self.unreadable = set()


class FakeH5:
    Dataset = Dataset
    def __init__(self, store): self.s = store
    def File(self, path, mode='r', **kw):
        st = self.s
        if path in st.unreadable: raise IOError('unreadable')
        if mode == 'r' and path not in st.files: raise IOError('no such file')
        if path not in st.files: st.files[path] = Group()
        st.log.append(('open', path, mode)); st.open_now += 1
        root = st.files[path]
        class Ctx:
            def __enter__(s2): return root
            def __exit__(s2, *a): st.log.append(('close', path)); st.open_now -= 1; return False
        return Ctx()
    class h5t:
        @staticmethod
        def check_string_dtype(dt): return None


class LArr:
    def __init__(self, v): self.v = list(v)
    def sort(self): self.v.sort()
    def __iter__(self): return iter(self.v)
    def __len__(self): return len(self.v)
    def __ge__(self, o): return [x >= o for x in self.v]
    def __le__(self, o): return [x <= o for x in self.v]
    def __getitem__(self, m):
        if isinstance(m, list): return LArr([x for x, keep in zip(self.v, m) if keep])
        return self.v[m]


class NP:
    int64 = 'int64'; uint64 = int; generic = (); ndarray = (); object_ = object
    @staticmethod
    def fromiter(it, dtype, count=-1): return LArr([int(x) for x in it])
    @staticmethod
    def logical_and(a, b): return [p and q for p, q in zip(a, b)]


class RecOD:
    def __init__(self): self._i = []
    def __setitem__(self, k, v):
        for j, (kk, _) in enumerate(self._i):
            if kk == k: self._i[j] = (k, v); return
        self._i.append((k, v))
    def __getitem__(self, k):
        for kk, v in self._i:
            if kk == k: return v
        raise KeyError(k)
    def __len__(self): return len(self._i)
    def __bool__(self): return len(self._i) > 0
    def __iter__(self): return iter([k for k, _ in self._i])
    def __reversed__(self): return iter([k for k, _ in reversed(self._i)])
    def keys(self): return [k for k, _ in self._i]
    def items(self): return list(self._i)
    def values(self): return [v for _, v in self._i]


class Coll:
    OrderedDict = RecOD


def _path(j): return '/md/sub/md@%d.h5' % (j * W)


def _setup(samples):
    """channel holding `samples` (ascending, distinct), one group per sample, file j holds [j*W, (j+1)*W)"""
    st = Store()
    for s in samples:
        j = 0 if s < W else (1 if s < 2 * W else 2)
        p = _path(j)
        if p not in st.files: st.files[p] = Group()
        g = st.files[p].create_group(str(s)); g.create_dataset('v', data=('val', s))
    r = M.DigitalMetadataReader.__new__(M.DigitalMetadataReader)
    r._metadata_dir = '/md'; r._file_cadence_secs = W; r._subdir_cadence_secs = 1000; r._file_name = 'md'
    M.h5py = FakeH5(st); M.np = NP; M.collections = Coll
    calls = []
    def gfl(s0, s1):
        calls.append((s0, s1))
        out = []
        for j in (0, 1, 2):
            if _path(j) in st.files and (j + 1) * W - 1 >= s0 and j * W <= s1: out.append(_path(j))
        return out
    r._get_file_list = gfl
    class LD:
        @staticmethod
        def ilsdrf(d, **kw):
            ps = [_path(j) for j in (0, 1, 2) if _path(j) in st.files]
            return iter(list(reversed(ps)) if kw.get('reverse') else ps)
    M.list_drf = LD
    return r, st


def _bounds(a: int, d1: int, d2: int, n: int) -> bool:
    """
    pre: 0 <= a <= 250 and 1 <= d1 <= 250 and 1 <= d2 <= 250 and 1 <= n <= 3 and a + d1 + d2 < 300
    post: _
    """
    # 1..3 samples at a < a+d1 < a+d1+d2 spread over up to 3 files: bounds == (smallest, largest) index written
    samples = [a] if n == 1 else ([a, a + d1] if n == 2 else [a, a + d1, a + d1 + d2])
    r, st = _setup(samples)
    return r.get_bounds() == (samples[0], samples[-1]) and st.open_now == 0


def _read_range(a: int, d1: int, d2: int, lo: int, hi: int) -> bool:
    """
    pre: 0 <= a <= 250 and 1 <= d1 <= 250 and 1 <= d2 <= 250 and a + d1 + d2 < 300
    pre: 0 <= lo <= hi <= 320
    post: _
    """
    # three samples; a plain range read returns exactly the samples with lo <= index <= hi, ascending, with their own values
    samples = [a, a + d1, a + d1 + d2]
    r, st = _setup(samples)
    got = r.read(lo, hi)
    want = [(s, {'v': ('val', s)}) for s in samples if lo <= s <= hi]
    return got.items() == want and st.open_now == 0


def _read_ffill(a: int, d1: int, d2: int, lo: int, hi: int) -> bool:
    """
    pre: 0 <= a <= 250 and 1 <= d1 <= 250 and 1 <= d2 <= 250 and a + d1 + d2 < 300
    pre: 0 <= lo <= hi <= 320
    post: _
    """
    # forward fill: additionally the latest sample at or before the start of the range (once), still ascending
    samples = [a, a + d1, a + d1 + d2]
    r, st = _setup(samples)
    got = r.read(lo, hi, method='ffill')
    before = [s for s in samples if s <= lo]
    inr = [s for s in samples if lo < s <= hi]
    want = ([before[-1]] if before else []) + inr
    return got.keys() == want and all(v == {'v': ('val', k)} for k, v in got.items()) and st.open_now == 0


def _read_latest(a: int, d1: int, d2: int) -> bool:
    """
    pre: 0 <= a <= 250 and 1 <= d1 <= 250 and 1 <= d2 <= 250 and a + d1 + d2 < 300
    post: _
    """
    samples = [a, a + d1, a + d1 + d2]
    r, st = _setup(samples)
    got = r.read_latest()
    return got.keys() == [samples[-1]] and st.open_now == 0


def _read_column(a: int, d1: int, lo: int, hi: int) -> bool:
    """
    pre: 0 <= a <= 250 and 1 <= d1 <= 250 and a + d1 < 300 and 0 <= lo <= hi <= 320
    post: _
    """
    # a single column name returns the column value itself; a list of names returns {name: value}
    samples = [a, a + d1]
    r, st = _setup(samples)
    g1 = r.read(lo, hi, columns='v'); g2 = r.read(lo, hi, columns=['v'])
    inr = [s for s in samples if lo <= s <= hi]
    return g1.items() == [(s, ('val', s)) for s in inr] and g2.items() == [(s, {'v': ('val', s)}) for s in inr]


def _meta_witness(a: int, d1: int, lo: int) -> bool:
    """
    pre: 0 <= a <= 250 and 1 <= d1 <= 250 and a + d1 < 300 and 0 <= lo <= 320
    post: _
    """
    r, st = _setup([a, a + d1])
    return len(r.read(lo, 320, method='ffill')) != 2       # reachability twin
