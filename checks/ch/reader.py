"""CrossHair harnesses over the real DigitalRFReader internals (C01 R1/R2, C08).  h5py datasets are replaced by list-backed fakes."""
import sys
sys.path.insert(0, '/verif')
from typing import List, Tuple, Optional
from vlib import chload
drf = chload.load()
import digital_rf.digital_rf_hdf5 as H
chload.warm(H.DigitalRFReader)


class FakeData:
    """rf_data stand-in: slicing returns a description of what was sliced"""
    def __init__(self, n, ncol=1): self.shape = (n, ncol)
    def __getitem__(self, sl):
        col = None
        if isinstance(sl, tuple): sl, col = sl
        return ('rows', sl.start, sl.stop, col)


class FakeIndex:
    def __init__(self, rows): self.rows = rows; self.shape = (len(rows), 2)
    def __getitem__(self, rc):
        if rc is Ellipsis: return self
        r, c = rc
        return self.rows[r][c]


class Rec:
    """recording mapping (symbolic ints are never used as keys of a real dict)"""
    def __init__(self): self.items_ = []
    def __setitem__(self, k, v): self.items_.append((k, v))


def _new_top():
    """a per-directory reader object built by the REAL constructor (so every attribute it sets exists); only the properties file read is replaced"""
    cls = H._top_level_dir_properties
    old = cls._read_properties
    cls._read_properties = lambda self: {'digital_rf_version': '2.6.0'}
    try:
        t = cls('/w', 'ch', 'local', 1)
    finally:
        cls._read_properties = old
    return t


def _props(rows, n):
    t = _new_top()
    t._cachedFilename = '/w/ch/f'; t._cachedFile = None
    t.rf_data = FakeData(n); t.rf_data_len = n
    t.rf_index = FakeIndex(rows); t.rf_index_len = len(rows)
    H.os.access = lambda p, m: True
    return t


def _wf(rows, n):
    return (rows[0][1] == 0 and all(r[0] >= 0 for r in rows)
            and all(rows[i + 1][1] > rows[i][1] and rows[i + 1][0] - rows[i][0] >= rows[i + 1][1] - rows[i][1] for i in range(len(rows) - 1))
            and rows[-1][1] < n)


def _expected(rows, n, s0, s1):
    """Blocks(Sem(rows, n)) clipped to [s0, s1], one entry per index row (merging is _combine_blocks' job)"""
    exp = []
    for i, (g, o) in enumerate(rows):
        stop = rows[i + 1][1] if i + 1 < len(rows) else n
        lo = max(g, s0); hi = min(g + (stop - o) - 1, s1)
        if lo <= hi:
            exp.append((lo, hi - lo + 1, o + (lo - g)))
    return exp


def _read_lengths(rows: List[Tuple[int, int]], n: int, s0: int, s1: int) -> bool:
    """
    pre: 1 <= len(rows) <= 3
    pre: _wf(rows, n) and n <= 16
    pre: 0 <= s0 <= s1
    post: _
    """
    t = _props(rows, n)
    out = Rec()
    t._read(s0, s1, ['f'], out, len_only=True)
    return out.items_ == [(k, ln) for (k, ln, r0) in _expected(rows, n, s0, s1)]


def _read_slices(rows: List[Tuple[int, int]], n: int, s0: int, s1: int, sub: Optional[int]) -> bool:
    """
    pre: 1 <= len(rows) <= 3
    pre: _wf(rows, n) and n <= 16
    pre: 0 <= s0 <= s1
    pre: sub is None or 0 <= sub < 4
    post: _
    """
    t = _props(rows, n)
    out = Rec()
    t._read(s0, s1, ['f'], out, len_only=False, sub_channel=sub)
    return out.items_ == [(k, ('rows', r0, r0 + ln, sub)) for (k, ln, r0) in _expected(rows, n, s0, s1)]


def _read_witness(rows: List[Tuple[int, int]], n: int, s0: int, s1: int) -> bool:
    """
    pre: 2 <= len(rows) <= 3
    pre: _wf(rows, n) and n <= 16
    pre: 0 <= s0 <= s1
    post: _
    """
    t = _props(rows, n)
    out = Rec()
    t._read(s0, s1, ['f'], out, len_only=True)
    return len(out.items_) < 2       # reachability twin: a two-block result must be reachable


class LenArr:
    """stand-in for a numpy block with a known length and identity"""
    def __init__(self, n, tag): self.n = n; self.tag = tag
    def __len__(self): return self.n


class _RecOD:
    """list-backed stand-in for collections.OrderedDict inside _combine_blocks: a real dict would hash (= realise) symbolic keys"""
    def __init__(self): self._i = []
    def __setitem__(self, k, v): self._i.append((k, v))
    def __len__(self): return len(self._i)
    def items(self): return list(self._i)


class _Coll:
    OrderedDict = _RecOD


H.collections = _Coll


class _D:
    """mapping stand-in handed to _combine_blocks (only len() and items() are used)"""
    def __init__(self, items): self._i = items
    def __len__(self): return len(self._i)
    def items(self): return list(self._i)


def _combine3(a: int, l1: int, g1: int, l2: int, g2: int, l3: int, perm: int) -> bool:
    """
    pre: a >= 0 and 1 <= l1 <= 1000 and 1 <= l2 <= 1000 and 1 <= l3 <= 1000 and 0 <= g1 <= 1000 and 0 <= g2 <= 1000
    pre: 0 <= perm < 6
    post: _
    """
    # three blocks in ascending order, gaps g1, g2 (0 = adjacent), handed over in an arbitrary order
    k1 = a; k2 = a + l1 + g1; k3 = k2 + l2 + g2
    blocks = [(k1, l1), (k2, l2), (k3, l3)]
    orders = [(0, 1, 2), (0, 2, 1), (1, 0, 2), (1, 2, 0), (2, 0, 1), (2, 1, 0)]
    r = chload.new_obj(H.DigitalRFReader)
    got = list(r._combine_blocks(_D([blocks[i] for i in orders[perm]]), len_only=True).items())
    if g1 == 0 and g2 == 0: exp = [(k1, l1 + l2 + l3)]
    elif g1 == 0: exp = [(k1, l1 + l2), (k3, l3)]
    elif g2 == 0: exp = [(k1, l1), (k2, l2 + l3)]
    else: exp = blocks
    return got == exp


def _combine2_arrays(a: int, l1: int, g1: int, l2: int, swap: bool) -> bool:
    """
    pre: a >= 0 and 1 <= l1 <= 1000 and 1 <= l2 <= 1000 and 0 <= g1 <= 1000
    post: _
    """
    # data mode: values are array stand-ins; np.concatenate is replaced by a recording stub
    k1 = a; k2 = a + l1 + g1
    A, B = LenArr(l1, 'A'), LenArr(l2, 'B')
    class NP:
        @staticmethod
        def concatenate(parts):
            return LenArr(sum(len(p) for p in parts), tuple(p.tag for p in parts))
    old = H.np
    H.np = NP
    try:
        r = chload.new_obj(H.DigitalRFReader)
        items = [(k2, B), (k1, A)] if swap else [(k1, A), (k2, B)]
        got = list(r._combine_blocks(_D(items), len_only=False).items())
    finally:
        H.np = old
    if g1 == 0:
        return len(got) == 1 and got[0][0] == k1 and got[0][1].tag == ('A', 'B') and len(got[0][1]) == l1 + l2
    return len(got) == 2 and got[0][0] == k1 and got[0][1] is A and got[1][0] == k2 and got[1][1] is B


def _combine_witness(a: int, l1: int, g1: int, l2: int) -> bool:
    """
    pre: a >= 0 and 1 <= l1 <= 1000 and 1 <= l2 <= 1000 and 0 <= g1 <= 1000
    post: _
    """
    r = chload.new_obj(H.DigitalRFReader)
    got = list(r._combine_blocks(_D([(a, l1), (a + l1 + g1, l2)]), len_only=True).items())
    return len(got) != 1          # reachability twin: a merge must be reachable


# ----------------------------------------------------------------------------- read()/get_continuous_blocks() glue (C08)

class _Top:
    """records the arguments _read is called with (the real _read is decided by the harnesses above)"""
    def __init__(self, log): self.log = log
    def _read(self, start_sample, end_sample, filepaths, cont_data_dict, len_only=False, sub_channel=None):
        self.log.append((start_sample, end_sample, filepaths, cont_data_dict, len_only, sub_channel))


class _Chan:
    def __init__(self, tops, props): self.top_level_dir_meta_list = tops; self.properties = props


def _mk_reader(ntop, nsub, log):
    r = chload.new_obj(H.DigitalRFReader)
    props = {'num_subchannels': nsub, 'subdir_cadence_secs': 3600, 'file_cadence_millisecs': 1000, 'samples_per_second': 'SPS',
             'sample_rate_numerator': 'NUM', 'sample_rate_denominator': 'DEN'}
    r._channel_dict = {'ch': _Chan([_Top(log) for _ in range(ntop)], props)}
    flog = []
    def gfl(*a):
        flog.append(tuple(a)); return ['FILES']
    r._get_file_list = gfl
    r._combine_blocks = lambda d, len_only=False: ('combined', d, len_only)
    return r, flog


import inspect as _inspect
_FL_PARAMS = list(_inspect.signature(H.DigitalRFReader._get_file_list).parameters)[2:]
_FL_ARGS = tuple({'samples_per_second': 'SPS', 'sample_rate_numerator': 'NUM', 'sample_rate_denominator': 'DEN'}.get(p, 3600 if 'subdir' in p else 1000)
                 for p in _FL_PARAMS)     # what the real signature expects, from the channel properties


def _read_glue(s0: int, s1: int, sub: Optional[int], nsub: int, ntop: int) -> bool:
    """
    pre: 1 <= nsub <= 4 and 1 <= ntop <= 2
    pre: s0 <= s1 and (sub is None or 0 <= sub < nsub)
    post: _
    """
    log = []
    r, flog = _mk_reader(ntop, nsub, log)
    out = r.read(s0, s1, 'ch', sub)
    d = out[1]
    return (out[0] == 'combined' and out[2] is False and isinstance(d, dict) and len(d) == 0 and flog == [(s0, s1) + _FL_ARGS]
            and len(log) == ntop and all(e == (s0, s1, ['FILES'], d, False, sub) and e[3] is d for e in log))


class _TopData(_Top):
    """a top-level directory that contributes concrete blocks to the shared mapping"""
    def __init__(self, log, blocks): self.log = log; self.blocks = blocks
    def _read(self, start_sample, end_sample, filepaths, cont_data_dict, len_only=False, sub_channel=None):
        self.log.append((start_sample, end_sample))
        for k, ln in self.blocks:
            if k + ln - 1 >= start_sample and k <= end_sample: cont_data_dict[k] = ln if len_only else [k + i for i in range(ln)]


def _read_all_dirs(order: int, lo: int, hi: int, len_only: bool) -> bool:
    """
    pre: 0 <= order <= 5 and 0 <= lo <= 12 and 17 <= hi <= 29
    post: _
    """
    # sessions interleaved over three top-level directories (blocks [0,10) [10,20) [20,30) in any assignment / order of directories): a read
    # visits EVERY directory -- also when the blocks found so far already touch both ends of the request -- and hands the union to the merge
    perms = [(0, 1, 2), (0, 2, 1), (1, 0, 2), (1, 2, 0), (2, 0, 1), (2, 1, 0)]
    blocks = [[(0, 10), (20, 10)], [(10, 10)], []]
    log = []
    r = chload.new_obj(H.DigitalRFReader)
    props = {'num_subchannels': 1, 'subdir_cadence_secs': 3600, 'file_cadence_millisecs': 1000, 'samples_per_second': 'SPS',
             'sample_rate_numerator': 'NUM', 'sample_rate_denominator': 'DEN'}
    r._channel_dict = {'ch': _Chan([_TopData(log, blocks[i]) for i in perms[order]], props)}
    r._get_file_list = lambda *a: ['FILES']
    r._combine_blocks = lambda d, len_only=False: ('combined', d, len_only)
    out = r.get_continuous_blocks(lo, hi, 'ch') if len_only else r.read(lo, hi, 'ch')
    d = out[1]
    want = [k for k in (0, 10, 20) if k + 9 >= lo and k <= hi]
    return out[0] == 'combined' and len(log) == 3 and sorted(d.keys()) == want


def _read_glue_errors(s0: int, s1: int, sub: Optional[int], nsub: int) -> bool:
    """
    pre: 1 <= nsub <= 3 and 0 <= s0 <= 3 and 0 <= s1 <= 3
    pre: sub is None or 0 <= sub <= 4
    pre: s1 < s0 or (sub is not None and sub >= nsub)
    post: _
    """
    # an inverted range or a sub-channel index that does not exist is refused with ValueError before any file is touched
    log = []
    r, flog = _mk_reader(1, nsub, log)
    try:
        r.read(s0, s1, 'ch', sub)
    except ValueError:
        return log == []
    return False


def _blocks_glue(s0: int, s1: int, ntop: int) -> bool:
    """
    pre: 1 <= ntop <= 2
    post: _
    """
    log = []
    r, flog = _mk_reader(ntop, 1, log)
    out = r.get_continuous_blocks(s0, s1, 'ch')
    d = out[1]
    return (out[0] == 'combined' and out[2] is True and isinstance(d, dict) and len(d) == 0 and flog == [(s0, s1) + _FL_ARGS]
            and len(log) == ntop and all(e == (s0, s1, ['FILES'], d, True, None) and e[3] is d for e in log))


# ----------------------------------------------------------------------------- two files through the real _read with a fake h5py (C08, C09)

class _Guard:
    """dataset handle of a fake file: unusable once the file is closed (h5py raises for identifiers of a closed file)"""
    def __init__(self, f, d): self._f = f; self._ds = d
    def _chk(self):
        if self._f.closed: raise OSError('identifier is not of specified type (file closed)')
    @property
    def shape(self): self._chk(); return self._ds.shape
    def __getitem__(self, k): self._chk(); return self._ds[k]


class _FakeH5File:
    def __init__(self, rows, n): self._d = {'rf_data': FakeData(n), 'rf_data_index': FakeIndex(rows)}; self.closed = False
    def __getitem__(self, k):
        if self.closed: raise OSError('file closed')
        return _Guard(self, self._d[k])
    def close(self): self.closed = True
    def __enter__(self): return self
    def __exit__(self, *a): self.close()


def _two_files(r1: List[Tuple[int, int]], n1: int, gap: int, r2: List[Tuple[int, int]], n2: int, s0: int, s1: int, have1: bool, have2: bool) -> bool:
    """
    pre: 1 <= len(r1) <= 2 and 1 <= len(r2) <= 2 and n1 <= 8 and n2 <= 8 and 0 <= gap <= 8
    pre: _wf(r1, n1) and _wf(r2, n2)
    pre: r2[0][0] == r1[-1][0] + (n1 - r1[-1][1]) + gap
    pre: 0 <= s0 <= s1
    post: _
    """
    files = {'/w/ch/a': (r1, n1), '/w/ch/b': (r2, n2)}
    present = {'/w/ch/a': have1, '/w/ch/b': have2}
    opened = []
    class FH5:
        @staticmethod
        def File(path, mode, **kw):
            if not present[path]: raise OSError('unable to open file (no such file)')
            opened.append(path); rows, n = files[path]; return _FakeH5File(rows, n)
    t = _new_top()
    old = (H.h5py, H.os.access)
    H.h5py = FH5; H.os.access = lambda p, m: present[p]
    try:
        out = Rec()
        t._read(s0, s1, ['a', 'b'], out, len_only=True)
    finally:
        H.h5py, H.os.access = old
    exp = []
    if have1: exp += [(k, ln) for (k, ln, r0) in _expected(r1, n1, s0, s1)]
    if have2: exp += [(k, ln) for (k, ln, r0) in _expected(r2, n2, s0, s1)]
    return out.items_ == exp and opened == [p for p in ('/w/ch/a', '/w/ch/b') if present[p]]


def _cache_sequence(rows: List[Tuple[int, int]], n: int, s0: int, s1: int, probe: int, mid_there: bool) -> bool:
    """
    pre: 1 <= len(rows) <= 2
    pre: _wf(rows, n) and n <= 8
    pre: 0 <= s0 <= s1 and 0 <= probe <= 2
    post: _
    """
    # a long-lived reader: read file a; then a pass over file names of which a further one may not exist (yet / any more); then file a again:
    # the third pass returns what the first returned and never fails (no stale cached handle)
    files = {'/w/ch/a': (rows, n), '/w/ch/b': (rows, n), '/w/ch/c': (rows, n)}
    present = {'/w/ch/a': True, '/w/ch/b': mid_there, '/w/ch/c': False}
    class FH5:
        @staticmethod
        def File(path, mode, **kw):
            if not present[path]: raise OSError('unable to open file (no such file)')
            r_, n_ = files[path]; return _FakeH5File(r_, n_)
    t = _new_top()
    old = (H.h5py, H.os.access)
    H.h5py = FH5; H.os.access = lambda p, m: present[p]
    try:
        o1 = Rec(); t._read(s0, s1, ['a'], o1, len_only=False)
        o2 = Rec(); t._read(s0, s1, (['c'] if probe == 0 else (['b', 'c'] if probe == 1 else ['a', 'b', 'c'])), o2, len_only=False)
        o3 = Rec(); t._read(s0, s1, ['a'], o3, len_only=False)
    finally:
        H.h5py, H.os.access = old
    return o3.items_ == o1.items_


def _appearing_file(rows: List[Tuple[int, int]], n: int, s0: int, s1: int, probe_a: bool) -> bool:
    """
    pre: 1 <= len(rows) <= 2
    pre: _wf(rows, n) and n <= 8
    pre: 0 <= s0 <= s1
    post: _
    """
    # monotone visibility for a long-lived reader: a file that did not exist yet when a pass probed it (the writer had not finalized it) is
    # returned by the next pass once it exists -- nothing about the earlier probe is remembered
    files = {'/w/ch/a': (rows, n), '/w/ch/b': (rows, n)}
    present = {'/w/ch/a': True, '/w/ch/b': False}
    class FH5:
        @staticmethod
        def File(path, mode, **kw):
            if not present[path]: raise OSError('unable to open file (no such file)')
            r_, n_ = files[path]; return _FakeH5File(r_, n_)
    t = _new_top()
    old = (H.h5py, H.os.access)
    H.h5py = FH5; H.os.access = lambda p, m: present[p]
    try:
        o1 = Rec(); t._read(s0, s1, (['a', 'b'] if probe_a else ['b']), o1, len_only=True)
        present['/w/ch/b'] = True
        o2 = Rec(); t._read(s0, s1, ['b'], o2, len_only=True)
    finally:
        H.h5py, H.os.access = old
    exp = [(k, ln) for (k, ln, r0) in _expected(rows, n, s0, s1)]
    return o2.items_ == exp and o1.items_ == (exp if probe_a else [])


def _split_invariance(rows: List[Tuple[int, int]], n: int, a: int, b: int, c: int) -> bool:
    """
    pre: 1 <= len(rows) <= 2
    pre: _wf(rows, n) and n <= 12
    pre: 0 <= a <= b < c
    post: _
    """
    # reading [a, c] == merging the reads of [a, b] and [b+1, c]   (per-file extraction + cross-block merge, lengths)
    t = _props(rows, n)
    whole = Rec(); t._read(a, c, ['f'], whole, len_only=True)
    left = Rec(); t._read(a, b, ['f'], left, len_only=True)
    right = Rec(); t._read(b + 1, c, ['f'], right, len_only=True)
    r = chload.new_obj(H.DigitalRFReader)
    m1 = list(r._combine_blocks(_D(whole.items_), len_only=True).items())
    m2 = list(r._combine_blocks(_D(left.items_ + right.items_), len_only=True).items())
    return m1 == m2


# ----------------------------------------------------------------------------- bounds (C08)

class _FakeH5Bounds:
    def __init__(self, rows, n):
        class DS:
            def __init__(s, rows_): s.rows = rows_
            def __getitem__(s, i): return s.rows[i]
        class Data: shape = (n, 1)
        self._d = {'rf_data_index': DS(rows), 'rf_data': Data()}
    def __getitem__(self, k): return self._d[k]
    def __enter__(self): return self
    def __exit__(self, *a): return False


def _first_last(rows: List[Tuple[int, int]], n: int) -> bool:
    """
    pre: 1 <= len(rows) <= 3
    pre: _wf(rows, n) and n <= 1000
    post: _
    """
    class FH5:
        @staticmethod
        def File(path, mode, **kw): return _FakeH5Bounds(rows, n)
    t = _new_top()
    old = H.h5py; H.h5py = FH5
    try:
        f, l = t._get_first_sample('x'), t._get_last_sample('x')
    finally:
        H.h5py = old
    return f == rows[0][0] and l == rows[-1][0] + (n - rows[-1][1]) - 1


def _bounds_scan(v: List[int], bad: List[int]) -> bool:
    """
    pre: 1 <= len(v) <= 3 and len(bad) == len(v)
    pre: all(0 <= x <= 2 for x in bad)
    post: _
    """
    # files in listing order; bad[i]: 0 = readable, 1 = vanished (IOError), 2 = corrupt (KeyError).  Bounds come from the first / last
    # readable file; unreadable ones are skipped without raising.
    names = ['f%d' % i for i in range(len(v))]
    t = _new_top()
    def get(path, off):
        i = names.index(path)
        if bad[i] == 1: raise IOError('gone')
        if bad[i] == 2: raise KeyError('corrupt')
        return v[i] + off
    t._get_first_sample = lambda p: get(p, 0)
    t._get_last_sample = lambda p: get(p, 5)
    calls = []
    class LD:
        @staticmethod
        def ilsdrf(d, **kw):
            calls.append(kw); return iter(list(reversed(names)) if kw.get('reverse') else list(names))
    old = (H.list_drf, H.print) if hasattr(H, 'print') else (H.list_drf, None)
    old_access = H.os.access
    # every listed file existed when it was listed (probing it then succeeds); it may be gone or unreadable when it is opened
    H.list_drf = LD; H.print = lambda *a, **k: None; H.os.access = lambda p, m: True
    try:
        got = t._get_bounds()
    finally:
        H.list_drf = old[0]; H.os.access = old_access
    good = [i for i in range(len(v)) if bad[i] == 0]
    exp = (v[good[0]], v[good[-1]] + 5) if good else (None, None)
    flags_ok = all(k.get('include_drf') is True and k.get('include_dmd') is False and k.get('include_drf_properties') is False and k.get('recursive') is False for k in calls)
    return got == exp and flags_ok and len(calls) == 2


def _bounds_merge(f1: Optional[int], n1: int, f2: Optional[int], n2: int, f3: Optional[int], n3: int) -> bool:
    """
    pre: 0 <= n1 <= 100 and 0 <= n2 <= 100 and 0 <= n3 <= 100
    pre: (f1 is None or f1 >= 0) and (f2 is None or f2 >= 0) and (f3 is None or f3 >= 0)
    post: _
    """
    # three top-level directories holding the same channel; a directory without data reports (None, None)
    class T:
        def __init__(s, f, n): s.b = (f, None if f is None else f + n)
        def _get_bounds(s): return s.b
    r = chload.new_obj(H.DigitalRFReader)
    tops = [T(f1, n1), T(f2, n2), T(f3, n3)]
    r._channel_dict = {'ch': _Chan(tops, {})}
    got = r.get_bounds('ch')
    firsts = [t.b[0] for t in tops if t.b[0] is not None]; lasts = [t.b[1] for t in tops if t.b[0] is not None]
    exp = (min(firsts), max(lasts)) if firsts else (None, None)
    return got == exp


# ----------------------------------------------------------------------------- vector reads (C08)

class _Arr:
    """shape-only stand-in for a numpy array (squeeze / len / shape / identity)"""
    def __init__(self, shape, tag='z'): self.shape = tuple(shape); self.tag = tag
    def squeeze(self): return _Arr([d for d in self.shape if d != 1], self.tag)
    def __len__(self):
        if not self.shape: raise TypeError('len() of unsized object')
        return self.shape[0]
    @property
    def ndim(self): return len(self.shape)
    def __getitem__(self, key):
        # z[:, 0] style column selection / reshape helpers used by possible implementations
        if isinstance(key, tuple) and len(key) == 2 and isinstance(key[0], slice) and key[0] == slice(None) and isinstance(key[1], int):
            return _Arr(self.shape[:1], self.tag)
        raise TypeError('unsupported index')
    def reshape(self, *shape):
        if len(shape) == 1 and isinstance(shape[0], (tuple, list)): shape = tuple(shape[0])
        return _Arr(shape, self.tag)


class _OD:
    def __init__(self, items): self._i = list(items)
    def __len__(self): return len(self._i)
    def popitem(self, last=True): return self._i.pop()
    def items(self): return list(self._i)
    def values(self): return [v for _, v in self._i]
    def keys(self): return [k for k, _ in self._i]
    def __iter__(self): return iter(self.keys())
    def __getitem__(self, k):
        for kk, v in self._i:
            if kk == k: return v
        raise KeyError(k)


def _vector_raw(start: int, vlen: int, nblocks: int, got_len: int, nsub: int, sub: Optional[int], off: int) -> bool:
    """
    pre: 0 <= start <= 2 and 0 <= nblocks <= 2 and 1 <= got_len <= 4 and 1 <= nsub <= 3 and -1 <= vlen <= 4
    pre: sub is None or 0 <= sub < nsub
    pre: 0 <= off <= 3 and (off == 0 or off + got_len <= vlen)
    post: _
    """
    # `off`: the first block read() returns may start after the requested start (a gap at the beginning of the range); read() clips its
    # blocks to the requested range (R1), hence off + got_len <= vlen in that case
    # read() is replaced by a stub returning `nblocks` blocks, the first of got_len samples; the vector read must return the block iff
    # there is exactly one block and it has exactly vlen samples (shape (vlen,) or (vlen, nsub)), and raise IOError (only) otherwise
    r = chload.new_obj(H.DigitalRFReader)
    calls = []
    shape = (got_len, nsub) if sub is None else (got_len,)
    z = _Arr(shape)
    def fake_read(s0, s1, ch, sc=None):
        calls.append((s0, s1, ch, sc))
        return _OD([(s0 + off + 100 * i, z if i == 0 else _Arr(shape, 'other')) for i in range(nblocks)])
    r.read = fake_read
    try:
        out = r.read_vector_raw(start, vlen, 'ch', sub)
    except IOError:
        return vlen < 1 or nblocks != 1 or got_len != vlen or off != 0
    if vlen < 1 or nblocks != 1 or got_len != vlen or off != 0: return False
    ok_shape = out.shape in ((vlen,), (vlen, nsub)) and (out.shape == (vlen,) or nsub > 1 or sub is None)
    return calls == [(start, start + vlen - 1, 'ch', sub)] and out.tag == 'z' and ok_shape and out.shape[0] == vlen


# ----------------------------------------------------------------------------- C20: the RF reader hands out non-destructive metadata readers

def _get_dmd_default(found: bool) -> bool:
    """
    post: _
    """
    # DigitalRFReader.get_digital_metadata constructs the metadata reader in its non-destructive mode (accept_empty left True)
    made = []
    class DM:
        class DigitalMetadataReader:
            def __init__(self, d, accept_empty=True): made.append((d, accept_empty))
    r = chload.new_obj(H.DigitalRFReader)
    r._channel_metadata_reader = {}; r._top_level_dir_dict = {'/top': None}
    old = (H.digital_metadata, H.os.access)
    H.digital_metadata = DM; H.os.access = lambda p, m: found
    try:
        try:
            r.get_digital_metadata('ch')
        except IOError:
            return not found and made == []
    finally:
        H.digital_metadata, H.os.access = old
    return found and made == [('/top/ch/metadata', True)]
