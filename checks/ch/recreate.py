"""CrossHair harness over the real recreate_properties_file (C06, last sentence).  h5py / glob / os.access are replaced by an in-memory
store; the 15 channel attributes of the chosen data file are symbolic integers (strings are opaque: an integer stands for the value)."""
import sys
sys.path.insert(0, '/verif')
from typing import List, Tuple, Optional
from vlib import chload
drf = chload.load()
import digital_rf.digital_rf_hdf5 as H

PROPS = ['H5Tget_class', 'H5Tget_size', 'H5Tget_order', 'H5Tget_precision', 'H5Tget_offset', 'subdir_cadence_secs', 'file_cadence_millisecs',
         'sample_rate_numerator', 'sample_rate_denominator', 'is_complex', 'num_subchannels', 'is_continuous', 'epoch',
         'digital_rf_time_description', 'digital_rf_version']
FILE_ONLY = ['sequence_num', 'uuid_str', 'init_utc_timestamp', 'computer_time']     # per-file attributes that are NOT channel properties
SUBS = ['/w/ch/2020-01-01T00-00-00', '/w/ch/2020-01-01T01-00-00', '/w/ch/2020-01-01T02-00-00']


class Attrs:
    def __init__(self, d, log, ro): self.d = d; self.log = log; self.ro = ro
    def __getitem__(self, k): return self.d[k]
    def __setitem__(self, k, v):
        if self.ro: self.log.append('write to a file opened read-only'); return
        self.d[k] = v


class Node:
    def __init__(self, attrs): self.attrs = attrs


class FakeFile:
    def __init__(self, store, path, mode):
        self.store = store; self.path = path; self.mode = mode
        store.opened.append((path, mode))
        if mode == 'r':
            if path not in store.files: raise IOError('no such file')
        elif mode in ('w', 'w-', 'x'):
            if mode != 'w' and path in store.files: raise IOError('exists')
            store.files[path] = {'/': {}}
        else:
            store.log.append('unexpected open mode %s' % mode)
            store.files.setdefault(path, {'/': {}})
    @property
    def attrs(self): return Attrs(self.store.files[self.path]['/'], self.store.log, self.mode == 'r')
    def __getitem__(self, k): return Node(Attrs(self.store.files[self.path][k], self.store.log, self.mode == 'r'))
    def __enter__(self): return self
    def __exit__(self, *a): self.store.closed.append(self.path); return False
    def close(self): self.store.closed.append(self.path)


class Store:
    def __init__(self): self.files = {}; self.opened = []; self.closed = []; self.log = []


def _mk(vals, has_props, present, order):
    st = Store()
    data_attrs = {}
    for i, k in enumerate(PROPS): data_attrs[k] = vals[i]
    for j, k in enumerate(FILE_ONLY): data_attrs[k] = 1000 + j
    subs = [s for s, p in zip(SUBS, present) if p[0]]
    files = {}
    for s, p in zip(SUBS, present):
        if not p[0]: continue
        names = []
        if p[1]: names.append(s + '/rf@1577836800.000.h5')
        if p[2]: names.append(s + '/rf@1577836801.000.h5')
        if order: names = list(reversed(names))
        files[s] = names
        for n in names: st.files[n] = {'/': {}, 'rf_data': dict(data_attrs)}
        # entries the glob must not pick: a tmp. file and a metadata-like file (never opened as the source)
        st.files[s + '/tmp.rf@1577836802.000.h5'] = {'/': {}, 'rf_data': {}}
    if has_props: st.files['/w/ch/drf_properties.h5'] = {'/': {'stale': 1}}

    class G:
        @staticmethod
        def glob(pat):
            d = pat.rsplit('/', 1)[0]
            if d == '/w/ch': return list(reversed(subs)) if order else list(subs)
            if pat.rsplit('/', 1)[1].startswith('rf'): return list(files.get(d, []))
            return list(files.get(d, [])) + [d + '/tmp.rf@1577836802.000.h5']
    class H5:
        File = staticmethod(lambda path, mode='r', **kw: FakeFile(st, path, mode))
    H.glob = G; H.h5py = H5
    H.os.access = lambda p, m: p in st.files
    return st, subs, files


def _check(vals, has_props, s0, s1, s2, f00, f01, f10, f11, f20, f21, order):
    # for every state of the channel directory: (a) an existing properties file is never overwritten (IOError); (b) without a usable data
    # file IOError and nothing is created; (c) otherwise the new drf_properties.h5 holds exactly the 15 channel attributes with the values
    # stored in a finalized data file of this channel, that file was opened read-only, nothing else was written
    st, subs, files = _mk(vals, has_props, [(s0, f00, f01), (s1, f10, f11), (s2, f20, f21)], order)
    before = {k: {g: dict(a) for g, a in v.items()} for k, v in st.files.items()}
    try:
        H.recreate_properties_file('/w/ch')
        raised = False
    except IOError:
        raised = True
    pf = '/w/ch/drf_properties.h5'
    if st.log: return False
    if has_props:
        return raised and st.files[pf] == {'/': {'stale': 1}} and all(m == 'r' for (_p, m) in st.opened)
    any_file = any(len(files[s]) > 0 for s in subs)
    if raised:
        # refusal is only acceptable when the directory it looked at holds no data file; nothing may have been created
        return (pf not in st.files) and all(m == 'r' for (_p, m) in st.opened) and (not subs or not all(len(files[s]) > 0 for s in subs))
    if not any_file: return False
    got = st.files.get(pf)
    if got is None: return False
    root = got['/']
    if sorted(root.keys()) != sorted(PROPS): return False
    for i, k in enumerate(PROPS):
        if root[k] != vals[i]: return False
    src = [p for (p, m) in st.opened if m == 'r']
    if len(src) != 1 or '/tmp.' in src[0] or not any(src[0] in files[s] for s in subs): return False
    # no other file changed, the source is closed again
    for k, v in before.items():
        if st.files.get(k) != v: return False
    return src[0] in st.closed and pf in st.closed


def _recreate_0_0(v0: int, v1: int, v2: int, v3: int, v4: int, v5: int, v6: int, v7: int, v8: int, v9: int, v10: int, v11: int, v12: int, v13: int, v14: int,
                   has_props: bool, f00: bool, f01: bool, f10: bool, f11: bool, f20: bool, f21: bool) -> bool:
    """
    post: _
    """
    return _check([v0, v1, v2, v3, v4, v5, v6, v7, v8, v9, v10, v11, v12, v13, v14], has_props, False, False, False, f00, f01, f10, f11, f20, f21, False)


def _recreate_0_1(v0: int, v1: int, v2: int, v3: int, v4: int, v5: int, v6: int, v7: int, v8: int, v9: int, v10: int, v11: int, v12: int, v13: int, v14: int,
                   has_props: bool, f00: bool, f01: bool, f10: bool, f11: bool, f20: bool, f21: bool) -> bool:
    """
    post: _
    """
    return _check([v0, v1, v2, v3, v4, v5, v6, v7, v8, v9, v10, v11, v12, v13, v14], has_props, True, False, False, f00, f01, f10, f11, f20, f21, False)


def _recreate_0_2(v0: int, v1: int, v2: int, v3: int, v4: int, v5: int, v6: int, v7: int, v8: int, v9: int, v10: int, v11: int, v12: int, v13: int, v14: int,
                   has_props: bool, f00: bool, f01: bool, f10: bool, f11: bool, f20: bool, f21: bool) -> bool:
    """
    post: _
    """
    return _check([v0, v1, v2, v3, v4, v5, v6, v7, v8, v9, v10, v11, v12, v13, v14], has_props, False, True, False, f00, f01, f10, f11, f20, f21, False)


def _recreate_0_3(v0: int, v1: int, v2: int, v3: int, v4: int, v5: int, v6: int, v7: int, v8: int, v9: int, v10: int, v11: int, v12: int, v13: int, v14: int,
                   has_props: bool, f00: bool, f01: bool, f10: bool, f11: bool, f20: bool, f21: bool) -> bool:
    """
    post: _
    """
    return _check([v0, v1, v2, v3, v4, v5, v6, v7, v8, v9, v10, v11, v12, v13, v14], has_props, True, True, False, f00, f01, f10, f11, f20, f21, False)


def _recreate_0_4(v0: int, v1: int, v2: int, v3: int, v4: int, v5: int, v6: int, v7: int, v8: int, v9: int, v10: int, v11: int, v12: int, v13: int, v14: int,
                   has_props: bool, f00: bool, f01: bool, f10: bool, f11: bool, f20: bool, f21: bool) -> bool:
    """
    post: _
    """
    return _check([v0, v1, v2, v3, v4, v5, v6, v7, v8, v9, v10, v11, v12, v13, v14], has_props, False, False, True, f00, f01, f10, f11, f20, f21, False)


def _recreate_0_5(v0: int, v1: int, v2: int, v3: int, v4: int, v5: int, v6: int, v7: int, v8: int, v9: int, v10: int, v11: int, v12: int, v13: int, v14: int,
                   has_props: bool, f00: bool, f01: bool, f10: bool, f11: bool, f20: bool, f21: bool) -> bool:
    """
    post: _
    """
    return _check([v0, v1, v2, v3, v4, v5, v6, v7, v8, v9, v10, v11, v12, v13, v14], has_props, True, False, True, f00, f01, f10, f11, f20, f21, False)


def _recreate_0_6(v0: int, v1: int, v2: int, v3: int, v4: int, v5: int, v6: int, v7: int, v8: int, v9: int, v10: int, v11: int, v12: int, v13: int, v14: int,
                   has_props: bool, f00: bool, f01: bool, f10: bool, f11: bool, f20: bool, f21: bool) -> bool:
    """
    post: _
    """
    return _check([v0, v1, v2, v3, v4, v5, v6, v7, v8, v9, v10, v11, v12, v13, v14], has_props, False, True, True, f00, f01, f10, f11, f20, f21, False)


def _recreate_0_7(v0: int, v1: int, v2: int, v3: int, v4: int, v5: int, v6: int, v7: int, v8: int, v9: int, v10: int, v11: int, v12: int, v13: int, v14: int,
                   has_props: bool, f00: bool, f01: bool, f10: bool, f11: bool, f20: bool, f21: bool) -> bool:
    """
    post: _
    """
    return _check([v0, v1, v2, v3, v4, v5, v6, v7, v8, v9, v10, v11, v12, v13, v14], has_props, True, True, True, f00, f01, f10, f11, f20, f21, False)


def _recreate_1_0(v0: int, v1: int, v2: int, v3: int, v4: int, v5: int, v6: int, v7: int, v8: int, v9: int, v10: int, v11: int, v12: int, v13: int, v14: int,
                   has_props: bool, f00: bool, f01: bool, f10: bool, f11: bool, f20: bool, f21: bool) -> bool:
    """
    post: _
    """
    return _check([v0, v1, v2, v3, v4, v5, v6, v7, v8, v9, v10, v11, v12, v13, v14], has_props, False, False, False, f00, f01, f10, f11, f20, f21, True)


def _recreate_1_1(v0: int, v1: int, v2: int, v3: int, v4: int, v5: int, v6: int, v7: int, v8: int, v9: int, v10: int, v11: int, v12: int, v13: int, v14: int,
                   has_props: bool, f00: bool, f01: bool, f10: bool, f11: bool, f20: bool, f21: bool) -> bool:
    """
    post: _
    """
    return _check([v0, v1, v2, v3, v4, v5, v6, v7, v8, v9, v10, v11, v12, v13, v14], has_props, True, False, False, f00, f01, f10, f11, f20, f21, True)


def _recreate_1_2(v0: int, v1: int, v2: int, v3: int, v4: int, v5: int, v6: int, v7: int, v8: int, v9: int, v10: int, v11: int, v12: int, v13: int, v14: int,
                   has_props: bool, f00: bool, f01: bool, f10: bool, f11: bool, f20: bool, f21: bool) -> bool:
    """
    post: _
    """
    return _check([v0, v1, v2, v3, v4, v5, v6, v7, v8, v9, v10, v11, v12, v13, v14], has_props, False, True, False, f00, f01, f10, f11, f20, f21, True)


def _recreate_1_3(v0: int, v1: int, v2: int, v3: int, v4: int, v5: int, v6: int, v7: int, v8: int, v9: int, v10: int, v11: int, v12: int, v13: int, v14: int,
                   has_props: bool, f00: bool, f01: bool, f10: bool, f11: bool, f20: bool, f21: bool) -> bool:
    """
    post: _
    """
    return _check([v0, v1, v2, v3, v4, v5, v6, v7, v8, v9, v10, v11, v12, v13, v14], has_props, True, True, False, f00, f01, f10, f11, f20, f21, True)


def _recreate_1_4(v0: int, v1: int, v2: int, v3: int, v4: int, v5: int, v6: int, v7: int, v8: int, v9: int, v10: int, v11: int, v12: int, v13: int, v14: int,
                   has_props: bool, f00: bool, f01: bool, f10: bool, f11: bool, f20: bool, f21: bool) -> bool:
    """
    post: _
    """
    return _check([v0, v1, v2, v3, v4, v5, v6, v7, v8, v9, v10, v11, v12, v13, v14], has_props, False, False, True, f00, f01, f10, f11, f20, f21, True)


def _recreate_1_5(v0: int, v1: int, v2: int, v3: int, v4: int, v5: int, v6: int, v7: int, v8: int, v9: int, v10: int, v11: int, v12: int, v13: int, v14: int,
                   has_props: bool, f00: bool, f01: bool, f10: bool, f11: bool, f20: bool, f21: bool) -> bool:
    """
    post: _
    """
    return _check([v0, v1, v2, v3, v4, v5, v6, v7, v8, v9, v10, v11, v12, v13, v14], has_props, True, False, True, f00, f01, f10, f11, f20, f21, True)


def _recreate_1_6(v0: int, v1: int, v2: int, v3: int, v4: int, v5: int, v6: int, v7: int, v8: int, v9: int, v10: int, v11: int, v12: int, v13: int, v14: int,
                   has_props: bool, f00: bool, f01: bool, f10: bool, f11: bool, f20: bool, f21: bool) -> bool:
    """
    post: _
    """
    return _check([v0, v1, v2, v3, v4, v5, v6, v7, v8, v9, v10, v11, v12, v13, v14], has_props, False, True, True, f00, f01, f10, f11, f20, f21, True)


def _recreate_1_7(v0: int, v1: int, v2: int, v3: int, v4: int, v5: int, v6: int, v7: int, v8: int, v9: int, v10: int, v11: int, v12: int, v13: int, v14: int,
                   has_props: bool, f00: bool, f01: bool, f10: bool, f11: bool, f20: bool, f21: bool) -> bool:
    """
    post: _
    """
    return _check([v0, v1, v2, v3, v4, v5, v6, v7, v8, v9, v10, v11, v12, v13, v14], has_props, True, True, True, f00, f01, f10, f11, f20, f21, True)


def _recreate_witness(v0: int, s1: bool, f10: bool) -> bool:
    """
    post: _
    """
    vals = [v0] + list(range(1, 15))
    st, subs, files = _mk(vals, False, [(False, False, False), (s1, f10, False), (False, False, False)], False)
    try:
        H.recreate_properties_file('/w/ch')
    except IOError:
        return True
    return '/w/ch/drf_properties.h5' not in st.files      # reachability twin: a regenerated file must be reachable
