"""CrossHair harnesses over the real list_drf functions (C14): os.listdir is replaced by an in-memory tree with symbolic existence bits."""
import sys
sys.path.insert(0, '/verif')
from typing import List, Tuple, Optional
import datetime
from vlib import chload
drf = chload.load()
from digital_rf import list_drf as L


class _PyBisect:
    """the standard library's pure-Python reference implementation of bisect_left (the C accelerator would realise symbolic values)"""
    @staticmethod
    def bisect_left(a, x, lo=0, hi=None):
        if lo < 0: raise ValueError('lo must be non-negative')
        if hi is None: hi = len(a)
        while lo < hi:
            mid = (lo + hi) // 2
            if a[mid] < x: lo = mid + 1
            else: hi = mid
        return lo

    @staticmethod
    def bisect_right(a, x, lo=0, hi=None):
        if lo < 0: raise ValueError('lo must be non-negative')
        if hi is None: hi = len(a)
        while lo < hi:
            mid = (lo + hi) // 2
            if x < a[mid]: hi = mid
            else: lo = mid + 1
        return lo
    bisect = bisect_right


L.bisect = _PyBisect


def _want_slice(dec, start, end, ffill):
    inwin = [x for x in dec if (start is None or x[0] >= start) and (end is None or x[0] <= end)]
    if ffill and start is not None:
        before = [x for x in dec if x[0] < start]
        exact = [x for x in dec if x[0] == start]
        if before and not exact:
            return [before[-1]] + inwin
    return inwin


def _slice3(t0: int, d1: int, d2: int, start: Optional[int], end: Optional[int], ffill: bool) -> bool:
    """
    pre: 0 <= t0 <= 100 and 0 <= d1 <= 100 and 0 <= d2 <= 100
    pre: (start is None or 0 <= start <= 400) and (end is None or 0 <= end <= 400)
    pre: start is None or end is None or start <= end
    post: _
    """
    # three sorted (time, x) entries, ties allowed (d = 0): the slice selects exactly the entries with start <= time <= end (both inclusive,
    # every tie included); with forward fill and no entry exactly at start, additionally the latest entry before start
    dec = [(t0, 'a'), (t0 + d1, 'b'), (t0 + d1 + d2, 'c')]
    return dec[L._decorated_list_slice(dec, start, end, ffill)] == _want_slice(dec, start, end, ffill)


def _slice_small(n: int, t0: int, d1: int, start: Optional[int], end: Optional[int], ffill: bool) -> bool:
    """
    pre: 0 <= n <= 2 and 0 <= t0 <= 100 and 0 <= d1 <= 100
    pre: (start is None or 0 <= start <= 400) and (end is None or 0 <= end <= 400)
    pre: start is None or end is None or start <= end
    post: _
    """
    dec = [] if n == 0 else ([(t0, 'a')] if n == 1 else [(t0, 'a'), (t0 + d1, 'b')])
    return dec[L._decorated_list_slice(dec, start, end, ffill)] == _want_slice(dec, start, end, ffill)


def _slice_witness(dec: List[Tuple[int, int]], start: Optional[int]) -> bool:
    """
    pre: len(dec) == 3
    pre: all(dec[i] <= dec[i + 1] for i in range(len(dec) - 1))
    pre: all(0 <= t <= 50 and 0 <= k <= 50 for (t, k) in dec)
    post: _
    """
    return len(dec[L._decorated_list_slice(dec, start, None, True)]) != 2     # reachability twin


# ------------------------------------------------------------------ _yield_matching_files on an in-memory channel

# the first subdirectory spans the moment the seconds field of the file names grows from 9 to 10 digits (2001-09-09T01:46:40Z): its two files
# sort one way by name and the other way by time
SUBS = ['2001-09-09T01-00-00', '2001-09-09T02-00-00', '2001-09-09T03-00-00']
T0 = 999997200          # 2001-09-09T01:00:00Z
OFFS0 = (2790, 2810)     # 999999990 (9 digits), 1000000010 (10 digits)


def _tree(kind, present):
    """candidate files: two in the first subdirectory (+2790 s, +2810 s: 9- and 10-digit names), one in each of the others (+10 s); existence bits symbolic"""
    tree = {}
    k = 0
    for i, sd in enumerate(SUBS):
        files = []
        for off in (OFFS0 if i == 0 else (10,)):
            t = T0 + 3600 * i + off
            name = ('rf@%d.000.h5' % t) if kind == 'drf' else ('metadata@%d.h5' % t)
            if present[k]: files.append((t, name))
            k += 1
        tree[sd] = files
    return tree


STRAY = 'tmp.metadata@%d.h5' % (T0 + 3600 + 5)      # an in-progress / stale tmp file: never listed, never stops the look-back
STRAY_RF = 'tmp.rf@%d.000.h5' % (T0 + 3600 + 5)      # the data file a concurrent writer has open right now


class TD:
    """timedelta-like window bound wrapping a (symbolic) integer number of seconds: only ordering against datetime.timedelta and
    truthiness are needed by the listing code; avoids timedelta's divmod normalisation on symbolic values"""
    def __init__(self, secs): self.s = secs
    @staticmethod
    def _v(o): return o.s if isinstance(o, TD) else o.days * 86400 + o.seconds
    def __lt__(self, o): return self.s < TD._v(o)
    def __le__(self, o): return self.s <= TD._v(o)
    def __gt__(self, o): return self.s > TD._v(o)
    def __ge__(self, o): return self.s >= TD._v(o)
    def __eq__(self, o): return isinstance(o, (TD, datetime.timedelta)) and self.s == TD._v(o)
    def __ne__(self, o): return not self.__eq__(o)
    def __bool__(self): return True if self.s != 0 else False
    __hash__ = None


def _run_listing(kind, present, gone, start, end, reverse, stray=False):
    kd = 'drf' if kind == 0 else 'dmd'
    tree = _tree(kd, present)
    def listdir(path):
        sd = path.rsplit('/', 1)[1]
        if gone >= 0 and sd == SUBS[gone]: raise OSError('vanished')
        return [n for (_t, n) in tree[sd]] + ([STRAY if kind == 1 else STRAY_RF] if (stray and sd == SUBS[1]) else [])
    st = None if start is None else TD(T0 + start)
    en = None if end is None else TD(T0 + end)
    old = L.os.listdir
    L.os.listdir = listdir
    try:
        props = ['drf_properties.h5'] if kind == 0 else ['dmd_properties.h5']
        dirs = list(SUBS) + ['other']
        got = list(L._yield_matching_files('/r/ch', dirs, props, kind == 0, kind == 1, starttime=st, endtime=en, reverse=reverse))
    finally:
        L.os.listdir = old
    return got, dirs, tree


def _expected_listing(kind, tree, gone, start, end):
    allf = []
    for i, sd in enumerate(SUBS):
        if gone == i: continue
        for (t, n) in tree[sd]: allf.append((t - T0, '/r/ch/%s/%s' % (sd, n)))
    allf.sort()
    inwin = [x for x in allf if (start is None or x[0] >= start) and (end is None or x[0] <= end)]
    want = inwin
    if kind == 1 and start is not None:
        before = [x for x in allf if x[0] < start]
        exact = [x for x in allf if x[0] == start]
        if before and not exact:
            want = [before[-1]] + inwin
    return [p for (_t, p) in want]


def _listing_fwd_rf_none(p0: bool, p1: bool, p2: bool, p3: bool, start: Optional[int], end: Optional[int]) -> bool:
    """
    pre: start is None or 0 <= start <= 3 * 3600
    pre: end is None or 0 <= end <= 3 * 3600
    pre: start is None or end is None or start <= end
    post: _
    """
    got, dirs, tree = _run_listing(0, [p0, p1, p2, p3], -1, start, end, False)
    want = _expected_listing(0, tree, -1, start, end)
    return got == (want) and dirs == ['other']


def _listing_rev_rf_none(p0: bool, p1: bool, p2: bool, p3: bool, start: Optional[int], end: Optional[int]) -> bool:
    """
    pre: start is None or 0 <= start <= 3 * 3600
    pre: end is None or 0 <= end <= 3 * 3600
    pre: start is None or end is None or start <= end
    post: _
    """
    got, dirs, tree = _run_listing(0, [p0, p1, p2, p3], -1, start, end, True)
    want = _expected_listing(0, tree, -1, start, end)
    return got == (list(reversed(want))) and dirs == ['other']


def _listing_fwd_rf_none_stray(p0: bool, p1: bool, p2: bool, p3: bool, start: Optional[int], end: Optional[int]) -> bool:
    """
    pre: start is None or 0 <= start <= 3 * 3600
    pre: end is None or 0 <= end <= 3 * 3600
    pre: start is None or end is None or start <= end
    post: _
    """
    got, dirs, tree = _run_listing(0, [p0, p1, p2, p3], -1, start, end, False, True)
    want = _expected_listing(0, tree, -1, start, end)
    return got == (want) and dirs == ['other']


def _listing_rev_rf_none_stray(p0: bool, p1: bool, p2: bool, p3: bool, start: Optional[int], end: Optional[int]) -> bool:
    """
    pre: start is None or 0 <= start <= 3 * 3600
    pre: end is None or 0 <= end <= 3 * 3600
    pre: start is None or end is None or start <= end
    post: _
    """
    got, dirs, tree = _run_listing(0, [p0, p1, p2, p3], -1, start, end, True, True)
    want = _expected_listing(0, tree, -1, start, end)
    return got == (list(reversed(want))) and dirs == ['other']


def _listing_fwd_rf_gone0(p0: bool, p1: bool, p2: bool, p3: bool, start: Optional[int], end: Optional[int]) -> bool:
    """
    pre: start is None or 0 <= start <= 3 * 3600
    pre: end is None or 0 <= end <= 3 * 3600
    pre: start is None or end is None or start <= end
    post: _
    """
    got, dirs, tree = _run_listing(0, [p0, p1, p2, p3], 0, start, end, False)
    want = _expected_listing(0, tree, 0, start, end)
    return got == (want) and dirs == ['other']


def _listing_rev_rf_gone0(p0: bool, p1: bool, p2: bool, p3: bool, start: Optional[int], end: Optional[int]) -> bool:
    """
    pre: start is None or 0 <= start <= 3 * 3600
    pre: end is None or 0 <= end <= 3 * 3600
    pre: start is None or end is None or start <= end
    post: _
    """
    got, dirs, tree = _run_listing(0, [p0, p1, p2, p3], 0, start, end, True)
    want = _expected_listing(0, tree, 0, start, end)
    return got == (list(reversed(want))) and dirs == ['other']


def _listing_fwd_rf_gone1(p0: bool, p1: bool, p2: bool, p3: bool, start: Optional[int], end: Optional[int]) -> bool:
    """
    pre: start is None or 0 <= start <= 3 * 3600
    pre: end is None or 0 <= end <= 3 * 3600
    pre: start is None or end is None or start <= end
    post: _
    """
    got, dirs, tree = _run_listing(0, [p0, p1, p2, p3], 1, start, end, False)
    want = _expected_listing(0, tree, 1, start, end)
    return got == (want) and dirs == ['other']


def _listing_rev_rf_gone1(p0: bool, p1: bool, p2: bool, p3: bool, start: Optional[int], end: Optional[int]) -> bool:
    """
    pre: start is None or 0 <= start <= 3 * 3600
    pre: end is None or 0 <= end <= 3 * 3600
    pre: start is None or end is None or start <= end
    post: _
    """
    got, dirs, tree = _run_listing(0, [p0, p1, p2, p3], 1, start, end, True)
    want = _expected_listing(0, tree, 1, start, end)
    return got == (list(reversed(want))) and dirs == ['other']


def _listing_fwd_rf_gone2(p0: bool, p1: bool, p2: bool, p3: bool, start: Optional[int], end: Optional[int]) -> bool:
    """
    pre: start is None or 0 <= start <= 3 * 3600
    pre: end is None or 0 <= end <= 3 * 3600
    pre: start is None or end is None or start <= end
    post: _
    """
    got, dirs, tree = _run_listing(0, [p0, p1, p2, p3], 2, start, end, False)
    want = _expected_listing(0, tree, 2, start, end)
    return got == (want) and dirs == ['other']


def _listing_rev_rf_gone2(p0: bool, p1: bool, p2: bool, p3: bool, start: Optional[int], end: Optional[int]) -> bool:
    """
    pre: start is None or 0 <= start <= 3 * 3600
    pre: end is None or 0 <= end <= 3 * 3600
    pre: start is None or end is None or start <= end
    post: _
    """
    got, dirs, tree = _run_listing(0, [p0, p1, p2, p3], 2, start, end, True)
    want = _expected_listing(0, tree, 2, start, end)
    return got == (list(reversed(want))) and dirs == ['other']


def _listing_fwd_md_none(p0: bool, p1: bool, p2: bool, p3: bool, start: Optional[int], end: Optional[int]) -> bool:
    """
    pre: start is None or 0 <= start <= 3 * 3600
    pre: end is None or 0 <= end <= 3 * 3600
    pre: start is None or end is None or start <= end
    post: _
    """
    got, dirs, tree = _run_listing(1, [p0, p1, p2, p3], -1, start, end, False, False)
    want = _expected_listing(1, tree, -1, start, end)
    return got == (want) and dirs == ['other']


def _listing_fwd_md_none_stray(p0: bool, p1: bool, p2: bool, p3: bool, start: Optional[int], end: Optional[int]) -> bool:
    """
    pre: start is None or 0 <= start <= 3 * 3600
    pre: end is None or 0 <= end <= 3 * 3600
    pre: start is None or end is None or start <= end
    post: _
    """
    got, dirs, tree = _run_listing(1, [p0, p1, p2, p3], -1, start, end, False, True)
    want = _expected_listing(1, tree, -1, start, end)
    return got == (want) and dirs == ['other']


def _listing_rev_md_none(p0: bool, p1: bool, p2: bool, p3: bool, start: Optional[int], end: Optional[int]) -> bool:
    """
    pre: start is None or 0 <= start <= 3 * 3600
    pre: end is None or 0 <= end <= 3 * 3600
    pre: start is None or end is None or start <= end
    post: _
    """
    got, dirs, tree = _run_listing(1, [p0, p1, p2, p3], -1, start, end, True, False)
    want = _expected_listing(1, tree, -1, start, end)
    return got == (list(reversed(want))) and dirs == ['other']


def _listing_rev_md_none_stray(p0: bool, p1: bool, p2: bool, p3: bool, start: Optional[int], end: Optional[int]) -> bool:
    """
    pre: start is None or 0 <= start <= 3 * 3600
    pre: end is None or 0 <= end <= 3 * 3600
    pre: start is None or end is None or start <= end
    post: _
    """
    got, dirs, tree = _run_listing(1, [p0, p1, p2, p3], -1, start, end, True, True)
    want = _expected_listing(1, tree, -1, start, end)
    return got == (list(reversed(want))) and dirs == ['other']


def _listing_fwd_md_gone0(p0: bool, p1: bool, p2: bool, p3: bool, start: Optional[int], end: Optional[int]) -> bool:
    """
    pre: start is None or 0 <= start <= 3 * 3600
    pre: end is None or 0 <= end <= 3 * 3600
    pre: start is None or end is None or start <= end
    post: _
    """
    got, dirs, tree = _run_listing(1, [p0, p1, p2, p3], 0, start, end, False, False)
    want = _expected_listing(1, tree, 0, start, end)
    return got == (want) and dirs == ['other']


def _listing_fwd_md_gone0_stray(p0: bool, p1: bool, p2: bool, p3: bool, start: Optional[int], end: Optional[int]) -> bool:
    """
    pre: start is None or 0 <= start <= 3 * 3600
    pre: end is None or 0 <= end <= 3 * 3600
    pre: start is None or end is None or start <= end
    post: _
    """
    got, dirs, tree = _run_listing(1, [p0, p1, p2, p3], 0, start, end, False, True)
    want = _expected_listing(1, tree, 0, start, end)
    return got == (want) and dirs == ['other']


def _listing_rev_md_gone0(p0: bool, p1: bool, p2: bool, p3: bool, start: Optional[int], end: Optional[int]) -> bool:
    """
    pre: start is None or 0 <= start <= 3 * 3600
    pre: end is None or 0 <= end <= 3 * 3600
    pre: start is None or end is None or start <= end
    post: _
    """
    got, dirs, tree = _run_listing(1, [p0, p1, p2, p3], 0, start, end, True, False)
    want = _expected_listing(1, tree, 0, start, end)
    return got == (list(reversed(want))) and dirs == ['other']


def _listing_rev_md_gone0_stray(p0: bool, p1: bool, p2: bool, p3: bool, start: Optional[int], end: Optional[int]) -> bool:
    """
    pre: start is None or 0 <= start <= 3 * 3600
    pre: end is None or 0 <= end <= 3 * 3600
    pre: start is None or end is None or start <= end
    post: _
    """
    got, dirs, tree = _run_listing(1, [p0, p1, p2, p3], 0, start, end, True, True)
    want = _expected_listing(1, tree, 0, start, end)
    return got == (list(reversed(want))) and dirs == ['other']


def _listing_fwd_md_gone1(p0: bool, p1: bool, p2: bool, p3: bool, start: Optional[int], end: Optional[int]) -> bool:
    """
    pre: start is None or 0 <= start <= 3 * 3600
    pre: end is None or 0 <= end <= 3 * 3600
    pre: start is None or end is None or start <= end
    post: _
    """
    got, dirs, tree = _run_listing(1, [p0, p1, p2, p3], 1, start, end, False)
    want = _expected_listing(1, tree, 1, start, end)
    return got == (want) and dirs == ['other']


def _listing_rev_md_gone1(p0: bool, p1: bool, p2: bool, p3: bool, start: Optional[int], end: Optional[int]) -> bool:
    """
    pre: start is None or 0 <= start <= 3 * 3600
    pre: end is None or 0 <= end <= 3 * 3600
    pre: start is None or end is None or start <= end
    post: _
    """
    got, dirs, tree = _run_listing(1, [p0, p1, p2, p3], 1, start, end, True)
    want = _expected_listing(1, tree, 1, start, end)
    return got == (list(reversed(want))) and dirs == ['other']


def _listing_fwd_md_gone2(p0: bool, p1: bool, p2: bool, p3: bool, start: Optional[int], end: Optional[int]) -> bool:
    """
    pre: start is None or 0 <= start <= 3 * 3600
    pre: end is None or 0 <= end <= 3 * 3600
    pre: start is None or end is None or start <= end
    post: _
    """
    got, dirs, tree = _run_listing(1, [p0, p1, p2, p3], 2, start, end, False, False)
    want = _expected_listing(1, tree, 2, start, end)
    return got == (want) and dirs == ['other']


def _listing_fwd_md_gone2_stray(p0: bool, p1: bool, p2: bool, p3: bool, start: Optional[int], end: Optional[int]) -> bool:
    """
    pre: start is None or 0 <= start <= 3 * 3600
    pre: end is None or 0 <= end <= 3 * 3600
    pre: start is None or end is None or start <= end
    post: _
    """
    got, dirs, tree = _run_listing(1, [p0, p1, p2, p3], 2, start, end, False, True)
    want = _expected_listing(1, tree, 2, start, end)
    return got == (want) and dirs == ['other']


def _listing_rev_md_gone2(p0: bool, p1: bool, p2: bool, p3: bool, start: Optional[int], end: Optional[int]) -> bool:
    """
    pre: start is None or 0 <= start <= 3 * 3600
    pre: end is None or 0 <= end <= 3 * 3600
    pre: start is None or end is None or start <= end
    post: _
    """
    got, dirs, tree = _run_listing(1, [p0, p1, p2, p3], 2, start, end, True, False)
    want = _expected_listing(1, tree, 2, start, end)
    return got == (list(reversed(want))) and dirs == ['other']


def _listing_rev_md_gone2_stray(p0: bool, p1: bool, p2: bool, p3: bool, start: Optional[int], end: Optional[int]) -> bool:
    """
    pre: start is None or 0 <= start <= 3 * 3600
    pre: end is None or 0 <= end <= 3 * 3600
    pre: start is None or end is None or start <= end
    post: _
    """
    got, dirs, tree = _run_listing(1, [p0, p1, p2, p3], 2, start, end, True, True)
    want = _expected_listing(1, tree, 2, start, end)
    return got == (list(reversed(want))) and dirs == ['other']


# ------------------------------------------------------------------ ilsdrf tree walk on an in-memory tree (C14)

TSA, TSB, TSX = '2020-01-01T00-00-00', '2020-01-01T01-00-00', '2019-05-05T00-00-00'


def _mk_tree(pA, pM, pB, pL, fA1, fM):
    """directory -> (subdirectories in an arbitrary unsorted order, files).  Channels: /t/chA (RF; nested metadata channel /t/chA/metadata),
    /t/<timestamp-named non-channel dir>/chB (RF), /t/zmd (legacy metadata.h5: both kinds).  Stray files, tmp. files, data-like files outside any
    channel, and an unrelated directory are present throughout."""
    return {
        '/t': (['zmd', 'chA', 'other', TSX], ['readme.txt', 'rf@5.000.h5']),
        '/t/chA': ([TSB, 'metadata', TSA], (['drf_properties.h5'] if pA else []) + ['notes.txt']),
        '/t/chA/' + TSA: ([], (['rf@%d.000.h5' % (T0 + 10)] if fA1 else []) + ['tmp.rf@%d.000.h5' % (T0 + 11), 'junk.bin']),
        '/t/chA/' + TSB: ([], ['rf@%d.000.h5' % (T0 + 3610)]),
        '/t/chA/metadata': ([TSA], ['dmd_properties.h5'] if pM else []),
        '/t/chA/metadata/' + TSA: ([], (['metadata@%d.h5' % (T0 + 20)] if fM else []) + ['tmp.metadata@%d.h5' % (T0 + 21)]),
        '/t/' + TSX: (['chB'], []),
        '/t/' + TSX + '/chB': ([TSA], ['drf_properties.h5'] if pB else []),
        '/t/' + TSX + '/chB/' + TSA: ([], ['rf@%d.000.h5' % (T0 + 30)]),
        '/t/other': ([TSA], ['metadata@7.h5']),
        '/t/other/' + TSA: ([], ['rf@%d.000.h5' % (T0 + 40)]),
        '/t/zmd': ([TSA], ['metadata.h5'] if pL else []),
        '/t/zmd/' + TSA: ([], ['metadata@%d.h5' % (T0 + 60), 'rf@%d.000.h5' % (T0 + 50)]),
    }


def _expected_tree(tree, start, recursive, reverse, inc_drf, inc_dmd, p_drf, p_dmd):
    if p_drf is None: p_drf = inc_drf
    if p_dmd is None: p_dmd = inc_dmd
    out = []

    def channel_files(d, only=None):
        dirs, files = tree[d]
        is_drf = ('drf_properties.h5' in files or 'metadata.h5' in files) and inc_drf
        is_dmd = ('dmd_properties.h5' in files or 'metadata.h5' in files) and inc_dmd
        got = []
        for sd in dirs:
            if len(sd) != 19 or sd[4] != '-' or sd[10] != 'T': continue
            if only is not None and sd != only: continue
            for f in tree[d + '/' + sd][1]:
                if f.startswith('tmp.') or not f.endswith('.h5') or '@' not in f: continue
                body = f[f.index('@') + 1:-3]
                if is_drf and body.count('.') == 1 and f.startswith('rf@'): got.append((int(body.split('.')[0]), d + '/' + sd + '/' + f))
                elif is_dmd and body.count('.') == 0: got.append((int(body), d + '/' + sd + '/' + f))
        got.sort(reverse=reverse)
        return [p_ for (_t, p_) in got]

    def visit(d):
        dirs, files = tree[d]
        props = [f for f in files if f in ('drf_properties.h5', 'dmd_properties.h5', 'metadata.h5')]
        if props:
            sel = [f for f in props if (p_drf and f in ('drf_properties.h5', 'metadata.h5')) or (p_dmd and f in ('dmd_properties.h5', 'metadata.h5'))]
            out.extend(d + '/' + f for f in sorted(sel, reverse=reverse))
            out.extend(channel_files(d))
        if recursive:
            for sd in sorted(dirs, reverse=reverse): visit(d + '/' + sd)

    if start.count('/') == 3 and start.rsplit('/', 1)[1] in (TSA, TSB):
        # the path itself is a timestamped subdirectory of a channel: its files are listed
        root, sd = start.rsplit('/', 1)
        if (inc_drf or inc_dmd) and any(f in ('drf_properties.h5', 'dmd_properties.h5', 'metadata.h5') for f in tree[root][1]):
            out.extend(channel_files(root, only=sd))
    visit(start)
    return out


def _ilsdrf(tree, start, recursive, reverse, inc_drf, inc_dmd, p_drf, p_dmd):
    def walk(top):
        dirs, files = list(tree[top][0]), list(tree[top][1])
        yield top, dirs, files
        for d in list(dirs):
            for x in walk(top + '/' + d): yield x
    def listdir(path): return list(tree[path][0]) + list(tree[path][1])
    old = (L.os.walk, L.os.listdir)
    L.os.walk = walk; L.os.listdir = listdir
    try:
        return list(L.ilsdrf(start, recursive=recursive, reverse=reverse, include_drf=inc_drf, include_dmd=inc_dmd, include_drf_properties=p_drf,
                             include_dmd_properties=p_dmd))
    finally:
        L.os.walk, L.os.listdir = old


def _tree_case(start, recursive, reverse, pA, pM, pB, pL, fA1, fM, inc_drf, inc_dmd, p_drf, p_dmd):
    tree = _mk_tree(pA, pM, pB, pL, fA1, fM)
    got = _ilsdrf(tree, start, recursive, reverse, inc_drf, inc_dmd, p_drf, p_dmd)
    want = _expected_tree(tree, start, recursive, reverse, inc_drf, inc_dmd, p_drf, p_dmd)
    return got == want and len(set(got)) == len(got)


def _ilsdrf_tree_0_1_0(pA: bool, pM: bool, pB: bool, pL: bool, inc_drf: bool, inc_dmd: bool, p_drf: Optional[bool], p_dmd: Optional[bool]) -> bool:
    """
    post: _
    """
    return _tree_case('/t', True, False, pA, pM, pB, pL, True, True, inc_drf, inc_dmd, p_drf, p_dmd)


def _ilsdrf_tree_0_1_1(pA: bool, pM: bool, pB: bool, pL: bool, inc_drf: bool, inc_dmd: bool, p_drf: Optional[bool], p_dmd: Optional[bool]) -> bool:
    """
    post: _
    """
    return _tree_case('/t', True, True, pA, pM, pB, pL, True, True, inc_drf, inc_dmd, p_drf, p_dmd)


def _ilsdrf_tree_1_1_0(pA: bool, pM: bool, pB: bool, pL: bool, fA1: bool, fM: bool, inc_drf: bool, inc_dmd: bool, p_drf: Optional[bool], p_dmd: Optional[bool]) -> bool:
    """
    post: _
    """
    return _tree_case('/t/chA', True, False, pA, pM, pB, pL, fA1, fM, inc_drf, inc_dmd, p_drf, p_dmd)


def _ilsdrf_tree_1_1_1(pA: bool, pM: bool, pB: bool, pL: bool, fA1: bool, fM: bool, inc_drf: bool, inc_dmd: bool, p_drf: Optional[bool], p_dmd: Optional[bool]) -> bool:
    """
    post: _
    """
    return _tree_case('/t/chA', True, True, pA, pM, pB, pL, fA1, fM, inc_drf, inc_dmd, p_drf, p_dmd)


def _ilsdrf_tree_1_0_0(pA: bool, pM: bool, pB: bool, pL: bool, fA1: bool, fM: bool, inc_drf: bool, inc_dmd: bool, p_drf: Optional[bool], p_dmd: Optional[bool]) -> bool:
    """
    post: _
    """
    return _tree_case('/t/chA', False, False, pA, pM, pB, pL, fA1, fM, inc_drf, inc_dmd, p_drf, p_dmd)


def _ilsdrf_tree_1_0_1(pA: bool, pM: bool, pB: bool, pL: bool, fA1: bool, fM: bool, inc_drf: bool, inc_dmd: bool, p_drf: Optional[bool], p_dmd: Optional[bool]) -> bool:
    """
    post: _
    """
    return _tree_case('/t/chA', False, True, pA, pM, pB, pL, fA1, fM, inc_drf, inc_dmd, p_drf, p_dmd)


def _ilsdrf_tree_2_1_0(pA: bool, pM: bool, pB: bool, pL: bool, fA1: bool, fM: bool, inc_drf: bool, inc_dmd: bool, p_drf: Optional[bool], p_dmd: Optional[bool]) -> bool:
    """
    post: _
    """
    return _tree_case('/t/chA/' + TSA, True, False, pA, pM, pB, pL, fA1, fM, inc_drf, inc_dmd, p_drf, p_dmd)


def _ilsdrf_tree_2_1_1(pA: bool, pM: bool, pB: bool, pL: bool, fA1: bool, fM: bool, inc_drf: bool, inc_dmd: bool, p_drf: Optional[bool], p_dmd: Optional[bool]) -> bool:
    """
    post: _
    """
    return _tree_case('/t/chA/' + TSA, True, True, pA, pM, pB, pL, fA1, fM, inc_drf, inc_dmd, p_drf, p_dmd)


def _ilsdrf_tree_2_0_0(pA: bool, pM: bool, pB: bool, pL: bool, fA1: bool, fM: bool, inc_drf: bool, inc_dmd: bool, p_drf: Optional[bool], p_dmd: Optional[bool]) -> bool:
    """
    post: _
    """
    return _tree_case('/t/chA/' + TSA, False, False, pA, pM, pB, pL, fA1, fM, inc_drf, inc_dmd, p_drf, p_dmd)


def _ilsdrf_tree_2_0_1(pA: bool, pM: bool, pB: bool, pL: bool, fA1: bool, fM: bool, inc_drf: bool, inc_dmd: bool, p_drf: Optional[bool], p_dmd: Optional[bool]) -> bool:
    """
    post: _
    """
    return _tree_case('/t/chA/' + TSA, False, True, pA, pM, pB, pL, fA1, fM, inc_drf, inc_dmd, p_drf, p_dmd)


class FakeDT:
    """integer-backed stand-in for datetime.datetime (whole seconds): `wall` = seconds of the wall-clock fields since 1970-01-01 00:00:00,
    `off` = UTC offset in seconds of an aware value.  Semantics of the real class: subtracting an aware datetime from a naive one raises
    TypeError; replace(tzinfo=) keeps the wall-clock fields; astimezone() keeps the instant; aware - aware compares instants."""
    def __init__(self, wall, off, aware): self.wall = wall; self.off = off; self.aware = aware
    @property
    def tzinfo(self): return FakeTZ(self.off) if self.aware else None
    def utcoffset(self): return TD(self.off) if self.aware else None
    def replace(self, tzinfo=True, **kw):
        if kw: raise NotImplementedError('FakeDT.replace of fields')
        if tzinfo is True: return FakeDT(self.wall, self.off, self.aware)
        if tzinfo is None: return FakeDT(self.wall, 0, False)
        return FakeDT(self.wall, _tzoff(tzinfo), True)
    def astimezone(self, tz=None):
        inst = self.wall - self.off if self.aware else self.wall       # a naive value is local time; the harness runs with TZ=UTC
        o = _tzoff(tz) if tz is not None else 0
        return FakeDT(inst + o, o, True)
    def timestamp(self): return self.wall - self.off if self.aware else self.wall
    def __sub__(self, o):
        if isinstance(o, FakeDT):
            if o.aware != self.aware: raise TypeError("can't subtract offset-naive and offset-aware datetimes")
            return TD((self.wall - self.off) - (o.wall - o.off)) if self.aware else TD(self.wall - o.wall)
        if isinstance(o, (TD, datetime.timedelta)): return FakeDT(self.wall - TD._v(o), self.off, self.aware)
        if hasattr(o, 'utctimetuple'):
            # a real datetime (util.epoch): its instant from its fields, without datetime arithmetic
            if (o.tzinfo is None) == self.aware: raise TypeError("can't subtract offset-naive and offset-aware datetimes")
            import calendar
            oi = calendar.timegm(o.utctimetuple())
            return TD((self.wall - self.off if self.aware else self.wall) - oi)
        return NotImplemented


class FakeTZ:
    def __init__(self, off): self.off = off
    def utcoffset(self, dt): return TD(self.off)


def _tzoff(tz):
    if isinstance(tz, FakeTZ): return tz.off
    d = tz.utcoffset(None)
    return d.days * 86400 + d.seconds


def _ilsdrf_window(ws: int, offs: int, aws: bool, we: int, offe: int, awe: bool, has_s: bool, has_e: bool) -> bool:
    """
    pre: 0 <= ws <= 4 * 10**9 and 0 <= we <= 4 * 10**9 and -86399 <= offs <= 86399 and -86399 <= offe <= 86399
    post: _
    """
    # the time window handed to the per-channel listing is the INSTANT of starttime / endtime (seconds since the epoch): a naive datetime is
    # taken as UTC, an aware one is converted (its UTC offset subtracted), None stays None
    rec = []
    def ymf(root, dirs, props, inc_drf, inc_dmd, starttime=None, endtime=None, reverse=False):
        rec.append((starttime, endtime)); return iter(())
    tree = _mk_tree(True, True, True, True, True, True)
    old = L._yield_matching_files
    L._yield_matching_files = ymf
    try:
        def walk(top):
            dirs, files = list(tree[top][0]), list(tree[top][1])
            yield top, dirs, files
            for d in list(dirs):
                for x in walk(top + '/' + d): yield x
        oldw = (L.os.walk, L.os.listdir)
        L.os.walk = walk; L.os.listdir = lambda path: list(tree[path][0]) + list(tree[path][1])
        try:
            list(L.ilsdrf('/t', starttime=FakeDT(ws, offs, aws) if has_s else None, endtime=FakeDT(we, offe, awe) if has_e else None))
        finally:
            L.os.walk, L.os.listdir = oldw
    finally:
        L._yield_matching_files = old
    es = (ws - offs if aws else ws) if has_s else None
    ee = (we - offe if awe else we) if has_e else None
    def same(t, e):
        if e is None: return t is None
        return isinstance(t, (TD, datetime.timedelta)) and TD._v(t) == e
    return len(rec) >= 1 and all(same(r[0], es) and same(r[1], ee) for r in rec)


def _ilsdrf_tree_witness(pB: bool, inc_drf: bool) -> bool:
    """
    post: _
    """
    tree = _mk_tree(True, True, pB, True, True, True)
    got = _ilsdrf(tree, '/t', True, False, inc_drf, True, None, None)
    return not any('/chB/' in p for p in got)      # reachability twin: a file below the timestamp-named non-channel directory is listed


def _listing_witness(p0: bool, p3: bool, start: Optional[int]) -> bool:
    """
    pre: start is None or 0 <= start <= 3 * 3600
    post: _
    """
    got, dirs, tree = _run_listing(1, [p0, False, False, p3], -1, start, None, False)
    return len(got) != 2      # reachability twin
