"""CrossHair harnesses over the real list_drf functions (C14): os.listdir is replaced by an in-memory tree with symbolic existence bits."""
import sys
sys.path.insert(0, '/verif')
from typing import List, Tuple, Optional
import datetime
from vlib import chload
drf = chload.load()
from digital_rf import list_drf as L


class _PyBisect:
    """the standard library's pure-Python reference implementation of bisect_left (the C accelerator would realise symbolic values)"""
    @staticmethod
    def bisect_left(a, x, lo=0, hi=None):
        if lo < 0: raise ValueError('lo must be non-negative')
        if hi is None: hi = len(a)
        while lo < hi:
            mid = (lo + hi) // 2
            if a[mid] < x: lo = mid + 1
            else: hi = mid
        return lo

    @staticmethod
    def bisect_right(a, x, lo=0, hi=None):
        if lo < 0: raise ValueError('lo must be non-negative')
        if hi is None: hi = len(a)
        while lo < hi:
            mid = (lo + hi) // 2
            if x < a[mid]: hi = mid
            else: lo = mid + 1
        return lo
    bisect = bisect_right


L.bisect = _PyBisect


def _want_slice(dec, start, end, ffill):
    inwin = [x for x in dec if (start is None or x[0] >= start) and (end is None or x[0] <= end)]
    if ffill and start is not None:
        before = [x for x in dec if x[0] < start]
        exact = [x for x in dec if x[0] == start]
        if before and not exact:
            return [before[-1]] + inwin
    return inwin


def _slice3(t0: int, d1: int, d2: int, start: Optional[int], end: Optional[int], ffill: bool) -> bool:
    """
    pre: 0 <= t0 <= 100 and 0 <= d1 <= 100 and 0 <= d2 <= 100
    pre: (start is None or 0 <= start <= 400) and (end is None or 0 <= end <= 400)
    pre: start is None or end is None or start <= end
    post: _
    """
    # three sorted (time, x) entries, ties allowed (d = 0): the slice selects exactly the entries with start <= time <= end (both inclusive,
    # every tie included); with forward fill and no entry exactly at start, additionally the latest entry before start
    dec = [(t0, 'a'), (t0 + d1, 'b'), (t0 + d1 + d2, 'c')]
    return dec[L._decorated_list_slice(dec, start, end, ffill)] == _want_slice(dec, start, end, ffill)


def _slice_small(n: int, t0: int, d1: int, start: Optional[int], end: Optional[int], ffill: bool) -> bool:
    """
    pre: 0 <= n <= 2 and 0 <= t0 <= 100 and 0 <= d1 <= 100
    pre: (start is None or 0 <= start <= 400) and (end is None or 0 <= end <= 400)
    pre: start is None or end is None or start <= end
    post: _
    """
    dec = [] if n == 0 else ([(t0, 'a')] if n == 1 else [(t0, 'a'), (t0 + d1, 'b')])
    return dec[L._decorated_list_slice(dec, start, end, ffill)] == _want_slice(dec, start, end, ffill)


def _slice_witness(dec: List[Tuple[int, int]], start: Optional[int]) -> bool:
    """
    pre: len(dec) == 3
    pre: all(dec[i] <= dec[i + 1] for i in range(len(dec) - 1))
    pre: all(0 <= t <= 50 and 0 <= k <= 50 for (t, k) in dec)
    post: _
    """
    return len(dec[L._decorated_list_slice(dec, start, None, True)]) != 2     # reachability twin


# ------------------------------------------------------------------ _yield_matching_files on an in-memory channel

SUBS = ['2020-01-01T00-00-00', '2020-01-01T01-00-00', '2020-01-01T02-00-00']
T0 = 1577836800          # 2020-01-01T00:00:00Z


def _tree(kind, present):
    """candidate files: two in the first subdirectory (+10 s, +20 s), one in each of the others (+10 s); existence bits symbolic"""
    tree = {}
    k = 0
    for i, sd in enumerate(SUBS):
        files = []
        for off in ((10, 20) if i == 0 else (10,)):
            t = T0 + 3600 * i + off
            name = ('rf@%d.000.h5' % t) if kind == 'drf' else ('metadata@%d.h5' % t)
            if present[k]: files.append((t, name))
            k += 1
        tree[sd] = files
    return tree


STRAY = 'tmp.metadata@%d.h5' % (T0 + 3600 + 5)      # an in-progress / stale tmp file: never listed, never stops the look-back


class TD:
    """timedelta-like window bound wrapping a (symbolic) integer number of seconds: only ordering against datetime.timedelta and
    truthiness are needed by the listing code; avoids timedelta's divmod normalisation on symbolic values"""
    def __init__(self, secs): self.s = secs
    @staticmethod
    def _v(o): return o.s if isinstance(o, TD) else o.days * 86400 + o.seconds
    def __lt__(self, o): return self.s < TD._v(o)
    def __le__(self, o): return self.s <= TD._v(o)
    def __gt__(self, o): return self.s > TD._v(o)
    def __ge__(self, o): return self.s >= TD._v(o)
    def __eq__(self, o): return isinstance(o, (TD, datetime.timedelta)) and self.s == TD._v(o)
    def __ne__(self, o): return not self.__eq__(o)
    def __bool__(self): return True if self.s != 0 else False
    __hash__ = None


def _run_listing(kind, present, gone, start, end, reverse, stray=False):
    kd = 'drf' if kind == 0 else 'dmd'
    tree = _tree(kd, present)
    def listdir(path):
        sd = path.rsplit('/', 1)[1]
        if gone >= 0 and sd == SUBS[gone]: raise OSError('vanished')
        return [n for (_t, n) in tree[sd]] + ([STRAY] if (stray and sd == SUBS[1]) else [])
    st = None if start is None else TD(T0 + start)
    en = None if end is None else TD(T0 + end)
    old = L.os.listdir
    L.os.listdir = listdir
    try:
        props = ['drf_properties.h5'] if kind == 0 else ['dmd_properties.h5']
        dirs = list(SUBS) + ['other']
        got = list(L._yield_matching_files('/r/ch', dirs, props, kind == 0, kind == 1, starttime=st, endtime=en, reverse=reverse))
    finally:
        L.os.listdir = old
    return got, dirs, tree


def _expected_listing(kind, tree, gone, start, end):
    allf = []
    for i, sd in enumerate(SUBS):
        if gone == i: continue
        for (t, n) in tree[sd]: allf.append((t - T0, '/r/ch/%s/%s' % (sd, n)))
    allf.sort()
    inwin = [x for x in allf if (start is None or x[0] >= start) and (end is None or x[0] <= end)]
    want = inwin
    if kind == 1 and start is not None:
        before = [x for x in allf if x[0] < start]
        exact = [x for x in allf if x[0] == start]
        if before and not exact:
            want = [before[-1]] + inwin
    return [p for (_t, p) in want]


def _listing_fwd_rf_none(p0: bool, p1: bool, p2: bool, p3: bool, start: Optional[int], end: Optional[int]) -> bool:
    """
    pre: start is None or 0 <= start <= 3 * 3600
    pre: end is None or 0 <= end <= 3 * 3600
    pre: start is None or end is None or start <= end
    post: _
    """
    got, dirs, tree = _run_listing(0, [p0, p1, p2, p3], -1, start, end, False)
    want = _expected_listing(0, tree, -1, start, end)
    return got == (want) and dirs == ['other']


def _listing_rev_rf_none(p0: bool, p1: bool, p2: bool, p3: bool, start: Optional[int], end: Optional[int]) -> bool:
    """
    pre: start is None or 0 <= start <= 3 * 3600
    pre: end is None or 0 <= end <= 3 * 3600
    pre: start is None or end is None or start <= end
    post: _
    """
    got, dirs, tree = _run_listing(0, [p0, p1, p2, p3], -1, start, end, True)
    want = _expected_listing(0, tree, -1, start, end)
    return got == (list(reversed(want))) and dirs == ['other']


def _listing_fwd_rf_gone0(p0: bool, p1: bool, p2: bool, p3: bool, start: Optional[int], end: Optional[int]) -> bool:
    """
    pre: start is None or 0 <= start <= 3 * 3600
    pre: end is None or 0 <= end <= 3 * 3600
    pre: start is None or end is None or start <= end
    post: _
    """
    got, dirs, tree = _run_listing(0, [p0, p1, p2, p3], 0, start, end, False)
    want = _expected_listing(0, tree, 0, start, end)
    return got == (want) and dirs == ['other']


def _listing_rev_rf_gone0(p0: bool, p1: bool, p2: bool, p3: bool, start: Optional[int], end: Optional[int]) -> bool:
    """
    pre: start is None or 0 <= start <= 3 * 3600
    pre: end is None or 0 <= end <= 3 * 3600
    pre: start is None or end is None or start <= end
    post: _
    """
    got, dirs, tree = _run_listing(0, [p0, p1, p2, p3], 0, start, end, True)
    want = _expected_listing(0, tree, 0, start, end)
    return got == (list(reversed(want))) and dirs == ['other']


def _listing_fwd_rf_gone1(p0: bool, p1: bool, p2: bool, p3: bool, start: Optional[int], end: Optional[int]) -> bool:
    """
    pre: start is None or 0 <= start <= 3 * 3600
    pre: end is None or 0 <= end <= 3 * 3600
    pre: start is None or end is None or start <= end
    post: _
    """
    got, dirs, tree = _run_listing(0, [p0, p1, p2, p3], 1, start, end, False)
    want = _expected_listing(0, tree, 1, start, end)
    return got == (want) and dirs == ['other']


def _listing_rev_rf_gone1(p0: bool, p1: bool, p2: bool, p3: bool, start: Optional[int], end: Optional[int]) -> bool:
    """
    pre: start is None or 0 <= start <= 3 * 3600
    pre: end is None or 0 <= end <= 3 * 3600
    pre: start is None or end is None or start <= end
    post: _
    """
    got, dirs, tree = _run_listing(0, [p0, p1, p2, p3], 1, start, end, True)
    want = _expected_listing(0, tree, 1, start, end)
    return got == (list(reversed(want))) and dirs == ['other']


def _listing_fwd_rf_gone2(p0: bool, p1: bool, p2: bool, p3: bool, start: Optional[int], end: Optional[int]) -> bool:
    """
    pre: start is None or 0 <= start <= 3 * 3600
    pre: end is None or 0 <= end <= 3 * 3600
    pre: start is None or end is None or start <= end
    post: _
    """
    got, dirs, tree = _run_listing(0, [p0, p1, p2, p3], 2, start, end, False)
    want = _expected_listing(0, tree, 2, start, end)
    return got == (want) and dirs == ['other']


def _listing_rev_rf_gone2(p0: bool, p1: bool, p2: bool, p3: bool, start: Optional[int], end: Optional[int]) -> bool:
    """
    pre: start is None or 0 <= start <= 3 * 3600
    pre: end is None or 0 <= end <= 3 * 3600
    pre: start is None or end is None or start <= end
    post: _
    """
    got, dirs, tree = _run_listing(0, [p0, p1, p2, p3], 2, start, end, True)
    want = _expected_listing(0, tree, 2, start, end)
    return got == (list(reversed(want))) and dirs == ['other']


def _listing_fwd_md_none(p0: bool, p1: bool, p2: bool, p3: bool, start: Optional[int], end: Optional[int]) -> bool:
    """
    pre: start is None or 0 <= start <= 3 * 3600
    pre: end is None or 0 <= end <= 3 * 3600
    pre: start is None or end is None or start <= end
    post: _
    """
    got, dirs, tree = _run_listing(1, [p0, p1, p2, p3], -1, start, end, False, False)
    want = _expected_listing(1, tree, -1, start, end)
    return got == (want) and dirs == ['other']


def _listing_fwd_md_none_stray(p0: bool, p1: bool, p2: bool, p3: bool, start: Optional[int], end: Optional[int]) -> bool:
    """
    pre: start is None or 0 <= start <= 3 * 3600
    pre: end is None or 0 <= end <= 3 * 3600
    pre: start is None or end is None or start <= end
    post: _
    """
    got, dirs, tree = _run_listing(1, [p0, p1, p2, p3], -1, start, end, False, True)
    want = _expected_listing(1, tree, -1, start, end)
    return got == (want) and dirs == ['other']


def _listing_rev_md_none(p0: bool, p1: bool, p2: bool, p3: bool, start: Optional[int], end: Optional[int]) -> bool:
    """
    pre: start is None or 0 <= start <= 3 * 3600
    pre: end is None or 0 <= end <= 3 * 3600
    pre: start is None or end is None or start <= end
    post: _
    """
    got, dirs, tree = _run_listing(1, [p0, p1, p2, p3], -1, start, end, True, False)
    want = _expected_listing(1, tree, -1, start, end)
    return got == (list(reversed(want))) and dirs == ['other']


def _listing_rev_md_none_stray(p0: bool, p1: bool, p2: bool, p3: bool, start: Optional[int], end: Optional[int]) -> bool:
    """
    pre: start is None or 0 <= start <= 3 * 3600
    pre: end is None or 0 <= end <= 3 * 3600
    pre: start is None or end is None or start <= end
    post: _
    """
    got, dirs, tree = _run_listing(1, [p0, p1, p2, p3], -1, start, end, True, True)
    want = _expected_listing(1, tree, -1, start, end)
    return got == (list(reversed(want))) and dirs == ['other']


def _listing_fwd_md_gone0(p0: bool, p1: bool, p2: bool, p3: bool, start: Optional[int], end: Optional[int]) -> bool:
    """
    pre: start is None or 0 <= start <= 3 * 3600
    pre: end is None or 0 <= end <= 3 * 3600
    pre: start is None or end is None or start <= end
    post: _
    """
    got, dirs, tree = _run_listing(1, [p0, p1, p2, p3], 0, start, end, False, False)
    want = _expected_listing(1, tree, 0, start, end)
    return got == (want) and dirs == ['other']


def _listing_fwd_md_gone0_stray(p0: bool, p1: bool, p2: bool, p3: bool, start: Optional[int], end: Optional[int]) -> bool:
    """
    pre: start is None or 0 <= start <= 3 * 3600
    pre: end is None or 0 <= end <= 3 * 3600
    pre: start is None or end is None or start <= end
    post: _
    """
    got, dirs, tree = _run_listing(1, [p0, p1, p2, p3], 0, start, end, False, True)
    want = _expected_listing(1, tree, 0, start, end)
    return got == (want) and dirs == ['other']


def _listing_rev_md_gone0(p0: bool, p1: bool, p2: bool, p3: bool, start: Optional[int], end: Optional[int]) -> bool:
    """
    pre: start is None or 0 <= start <= 3 * 3600
    pre: end is None or 0 <= end <= 3 * 3600
    pre: start is None or end is None or start <= end
    post: _
    """
    got, dirs, tree = _run_listing(1, [p0, p1, p2, p3], 0, start, end, True, False)
    want = _expected_listing(1, tree, 0, start, end)
    return got == (list(reversed(want))) and dirs == ['other']


def _listing_rev_md_gone0_stray(p0: bool, p1: bool, p2: bool, p3: bool, start: Optional[int], end: Optional[int]) -> bool:
    """
    pre: start is None or 0 <= start <= 3 * 3600
    pre: end is None or 0 <= end <= 3 * 3600
    pre: start is None or end is None or start <= end
    post: _
    """
    got, dirs, tree = _run_listing(1, [p0, p1, p2, p3], 0, start, end, True, True)
    want = _expected_listing(1, tree, 0, start, end)
    return got == (list(reversed(want))) and dirs == ['other']


def _listing_fwd_md_gone1(p0: bool, p1: bool, p2: bool, p3: bool, start: Optional[int], end: Optional[int]) -> bool:
    """
    pre: start is None or 0 <= start <= 3 * 3600
    pre: end is None or 0 <= end <= 3 * 3600
    pre: start is None or end is None or start <= end
    post: _
    """
    got, dirs, tree = _run_listing(1, [p0, p1, p2, p3], 1, start, end, False)
    want = _expected_listing(1, tree, 1, start, end)
    return got == (want) and dirs == ['other']


def _listing_rev_md_gone1(p0: bool, p1: bool, p2: bool, p3: bool, start: Optional[int], end: Optional[int]) -> bool:
    """
    pre: start is None or 0 <= start <= 3 * 3600
    pre: end is None or 0 <= end <= 3 * 3600
    pre: start is None or end is None or start <= end
    post: _
    """
    got, dirs, tree = _run_listing(1, [p0, p1, p2, p3], 1, start, end, True)
    want = _expected_listing(1, tree, 1, start, end)
    return got == (list(reversed(want))) and dirs == ['other']


def _listing_fwd_md_gone2(p0: bool, p1: bool, p2: bool, p3: bool, start: Optional[int], end: Optional[int]) -> bool:
    """
    pre: start is None or 0 <= start <= 3 * 3600
    pre: end is None or 0 <= end <= 3 * 3600
    pre: start is None or end is None or start <= end
    post: _
    """
    got, dirs, tree = _run_listing(1, [p0, p1, p2, p3], 2, start, end, False, False)
    want = _expected_listing(1, tree, 2, start, end)
    return got == (want) and dirs == ['other']


def _listing_fwd_md_gone2_stray(p0: bool, p1: bool, p2: bool, p3: bool, start: Optional[int], end: Optional[int]) -> bool:
    """
    pre: start is None or 0 <= start <= 3 * 3600
    pre: end is None or 0 <= end <= 3 * 3600
    pre: start is None or end is None or start <= end
    post: _
    """
    got, dirs, tree = _run_listing(1, [p0, p1, p2, p3], 2, start, end, False, True)
    want = _expected_listing(1, tree, 2, start, end)
    return got == (want) and dirs == ['other']


def _listing_rev_md_gone2(p0: bool, p1: bool, p2: bool, p3: bool, start: Optional[int], end: Optional[int]) -> bool:
    """
    pre: start is None or 0 <= start <= 3 * 3600
    pre: end is None or 0 <= end <= 3 * 3600
    pre: start is None or end is None or start <= end
    post: _
    """
    got, dirs, tree = _run_listing(1, [p0, p1, p2, p3], 2, start, end, True, False)
    want = _expected_listing(1, tree, 2, start, end)
    return got == (list(reversed(want))) and dirs == ['other']


def _listing_rev_md_gone2_stray(p0: bool, p1: bool, p2: bool, p3: bool, start: Optional[int], end: Optional[int]) -> bool:
    """
    pre: start is None or 0 <= start <= 3 * 3600
    pre: end is None or 0 <= end <= 3 * 3600
    pre: start is None or end is None or start <= end
    post: _
    """
    got, dirs, tree = _run_listing(1, [p0, p1, p2, p3], 2, start, end, True, True)
    want = _expected_listing(1, tree, 2, start, end)
    return got == (list(reversed(want))) and dirs == ['other']


def _listing_witness(p0: bool, p3: bool, start: Optional[int]) -> bool:
    """
    pre: start is None or 0 <= start <= 3 * 3600
    post: _
    """
    got, dirs, tree = _run_listing(1, [p0, False, False, p3], -1, start, None, False)
    return len(got) != 2      # reachability twin
