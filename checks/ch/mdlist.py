"""CrossHair harness over the real DigitalMetadataReader._get_file_list (C12, C13, C20): the candidate files of a range read on a small
channel (1 Hz, 10 s files, 20 s subdirectories, six file periods in three subdirectories) with the existence of every file and of every
empty subdirectory symbolic.  numpy array helpers are replaced by the list-backed shim of the RF harness."""
import sys
sys.path.insert(0, '/verif')
import datetime, posixpath
from vlib import chload
drf = chload.load()
import digital_rf.digital_metadata as M
from checks.ch.filelist import NP

FC, SC = 10, 20
SUBNAME = {0: '1970-01-01T00-00-00', 20: '1970-01-01T00-00-20', 40: '1970-01-01T00-00-40'}


def _mk(present, empty_dir):
    r = chload.new_obj(M.DigitalMetadataReader)
    r._metadata_dir = '/md'; r._file_cadence_secs = FC; r._subdir_cadence_secs = SC; r._file_name = 'md'
    r._sample_rate_numerator = 1; r._sample_rate_denominator = 1; r._samples_per_second = 1
    files = {'/md/%s/md@%d.h5' % (SUBNAME[(t // SC) * SC], t): present[t // FC] for t in range(0, 60, FC)}
    dirs = {}
    for i, s in enumerate((0, 20, 40)):
        dirs['/md/' + SUBNAME[s]] = present[2 * i] or present[2 * i + 1] or empty_dir[i]        # a directory holding a file exists
    class FOS:
        R_OK = 4; W_OK = 2; F_OK = 0
        class path:
            join = staticmethod(posixpath.join)
            @staticmethod
            def isdir(p): return dirs.get(p, False)
            @staticmethod
            def exists(p): return dirs.get(p, False) or files.get(p, False)
            @staticmethod
            def isfile(p): return files.get(p, False)
        @staticmethod
        def access(p, mode): return files.get(p, False) or dirs.get(p, False)
        @staticmethod
        def listdir(p): return [posixpath.basename(f) for f, ok in files.items() if ok and posixpath.dirname(f) == p]
    return r, files, FOS


def _md_file_list(s0: int, s1: int, p0: bool, p1: bool, p2: bool, p3: bool, p4: bool, p5: bool, e0: bool, e1: bool, e2: bool) -> bool:
    """
    pre: 0 <= s0 <= s1 <= 59
    post: _
    """
    # the candidate files of read(s0, s1) are exactly the existing files of the periods floor(s0/10)*10 .. floor(s1/10)*10, in ascending
    # order -- whichever other files and subdirectories exist or are missing in between
    r, files, FOS = _mk([p0, p1, p2, p3, p4, p5], [e0, e1, e2])
    old = (M.np, M.os)
    M.np = NP; M.os = FOS
    try:
        got = r._get_file_list(s0, s1)
    finally:
        M.np, M.os = old
    want = ['/md/%s/md@%d.h5' % (SUBNAME[(t // SC) * SC], t) for t in range(0, 60, FC) if (s0 // FC) * FC <= t <= (s1 // FC) * FC and files['/md/%s/md@%d.h5' % (SUBNAME[(t // SC) * SC], t)]]
    return list(got) == want


def _md_list_witness(s0: int, s1: int, p0: bool, p5: bool) -> bool:
    """
    pre: 0 <= s0 <= s1 <= 59
    post: _
    """
    # reachability twin: a list holding files of the first and of the last subdirectory
    r, files, FOS = _mk([p0, False, False, False, False, p5], [False, False, False])
    old = (M.np, M.os)
    M.np = NP; M.os = FOS
    try:
        got = r._get_file_list(s0, s1)
    finally:
        M.np, M.os = old
    return len(got) < 2
