"""CrossHair harnesses over the real DigitalRFWriter.rf_write / rf_write_blocks / getters / close (C05, C19).
The compiled extension is replaced by a model of the C writer that states exactly what the E-LL checks prove about it (cursor update,
rejection rule, continuous-mode block-by-block writes); numpy index-array operations are replaced by a list-backed shim with uint64
wrap-around and int64 reinterpretation."""
import sys
sys.path.insert(0, '/verif')
from typing import List, Optional
from vlib import chload
drf = chload.load()
import digital_rf.digital_rf_hdf5 as H
chload.warm(H.DigitalRFWriter)

M64 = 1 << 64


class Q(int):
    pass


class SI:
    """integer whose formatting does not depend on its value (error-message text is not part of any property; formatting a symbolic
    integer would force CrossHair to enumerate its values).  Arithmetic and comparisons delegate to the wrapped (symbolic) int."""
    __slots__ = ('x',)
    def __init__(self, x): self.x = x.x if isinstance(x, SI) else x
    @staticmethod
    def _u(o): return o.x if isinstance(o, SI) else o
    def __lt__(self, o): return self.x < SI._u(o)
    def __le__(self, o): return self.x <= SI._u(o)
    def __gt__(self, o): return self.x > SI._u(o)
    def __ge__(self, o): return self.x >= SI._u(o)
    def __eq__(self, o): return self.x == SI._u(o)
    def __ne__(self, o): return self.x != SI._u(o)
    def __add__(self, o): return SI(self.x + SI._u(o))
    __radd__ = __add__
    def __sub__(self, o): return SI(self.x - SI._u(o))
    def __rsub__(self, o): return SI(SI._u(o) - self.x)
    def __mod__(self, o): return SI(self.x % SI._u(o))
    def __int__(self): return self.x
    def __index__(self): return self.x
    def __format__(self, spec): return '<n>'
    def __deepcopy__(self, memo): return SI(0)      # CrossHair deep-realises format() arguments: hand it a placeholder
    def __copy__(self): return SI(0)
    def __ch_deep_realize__(self, memo): return SI(0)
    def __str__(self): return '<n>'
    __repr__ = __str__
    __hash__ = None


def unwrap(v): return v.x if isinstance(v, SI) else v


_builtin_int = int


def _int_shim(v=0, *a):
    """int() that sees through the format-opaque wrapper (module-level shadow of the builtin inside digital_rf_hdf5)"""
    if isinstance(v, SI): return v.x
    return _builtin_int(v, *a)


H.int = _int_shim


class UArr:
    """uint64 / int64 1-d array stand-in"""
    def __init__(self, vals, signed=False): self.v = [SI(x) for x in vals]; self.signed = signed
    def __format__(self, spec): return '<array>'
    def __deepcopy__(self, memo): return UArr([])
    def __ch_deep_realize__(self, memo): return UArr([])
    def __str__(self): return '<array>'
    def __len__(self): return len(self.v)
    def __getitem__(self, i): return self.v[i]
    def view(self, dtype=None):
        return UArr([x - M64 if x >= (1 << 63) else x for x in self.v], True)
    def __lt__(self, o): return [x < (o if not isinstance(o, UArr) else o.v[i]) for i, x in enumerate(self.v)]
    def __gt__(self, o): return [x > (o if not isinstance(o, UArr) else o.v[i]) for i, x in enumerate(self.v)]
    def __le__(self, o): return [x <= (o if not isinstance(o, UArr) else o.v[i]) for i, x in enumerate(self.v)]
    def __ge__(self, o): return [x >= (o if not isinstance(o, UArr) else o.v[i]) for i, x in enumerate(self.v)]
    def __sub__(self, o): return UArr([(x - (o if not isinstance(o, UArr) else o.v[i])) % M64 for i, x in enumerate(self.v)])
    def __add__(self, o): return UArr([(x + (o if not isinstance(o, UArr) else o.v[i])) % M64 for i, x in enumerate(self.v)])
    @property
    def shape(self): return (len(self.v),)


class NP:
    int64 = 'int64'; uint64 = 'uint64'
    @staticmethod
    def diff(a): return UArr([(a.v[i + 1] - a.v[i]) % M64 for i in range(len(a.v) - 1)])
    @staticmethod
    def any(x):
        for b in x:
            if b: return True
        return False
    @staticmethod
    def all(x):
        for b in x:
            if not b: return False
        return True


class Arr:
    def __init__(self, n, ncol=1): self.shape = (SI(n), ncol)
    def __len__(self): return int(unwrap(self.shape[0]))       # len() of an array is its number of rows (realises the symbolic length)


class Ext:
    """model of the extension + C writer (what C01/C05/C19 prove at the C level): cursor c, rejection rule, continuous splitting"""
    def __init__(self, c, continuous): self.c = c; self.cont = continuous; self.calls = []; self.bad = False; self.commits = 0
    def _write(self, ns, n):
        if ns < self.c: raise RuntimeError('Failed to write data')
        if n > 0:
            self.c = ns + n; self.commits += 1
    def rf_write(self, obj, arr, ns):
        n = unwrap(arr.shape[0]); ns = unwrap(ns)
        self.calls.append(('rf_write', ns, n))
        self._write(ns, n); return self.c
    def rf_block_write(self, obj, arr, G, B):
        n = unwrap(arr.shape[0]); G, B = [unwrap(x) for x in G.v], [unwrap(x) for x in B.v]
        self.calls.append(('rf_block_write', tuple(G), tuple(B), n))
        mal = len(G) < 1 or len(G) != len(B) or G[0] < self.c or B[0] != 0
        if not mal:
            for i in range(len(G)):
                if B[i] >= n or (i > 0 and (B[i - 1] >= B[i] or G[i - 1] >= G[i] or B[i] - B[i - 1] > G[i] - G[i - 1])): mal = True
        if mal: self.bad = True          # the public writer must never hand malformed blocks to the library
        if self.cont and len(G) > 1:
            for i in range(len(G)):
                nxt = n if i + 1 == len(G) else B[i + 1]
                self._write(G[i], nxt - B[i])
            return self.c
        if mal: raise RuntimeError('Failed to write data')
        self.c = G[-1] + (n - B[-1]); self.commits += 1
        return self.c
    def get_last_file_written(self, obj): return 'FILE@%d' % 0 if False else ('file', self.c)
    def get_last_dir_written(self, obj): return ('dir', self.c)
    def get_last_utc_timestamp(self, obj): return ('time', self.c)


def _writer(nxt, written, gaps, continuous):
    w = chload.new_obj(H.DigitalRFWriter)
    w._next_avail_sample = SI(nxt); w._total_samples_written = written; w._total_gap_samples = gaps
    w._channelObj = object(); w.is_continuous = continuous
    w._cast_input_array = lambda a: a
    w._cast_sample_array = lambda a: a
    ext = Ext(nxt, continuous)
    H._py_rf_write_hdf5 = ext
    H.np = NP
    return w, ext


def _malformed(G, B, n, nxt):
    if len(G) < 1 or len(B) < 1: return True
    if G[0] < nxt or B[0] != 0 or len(G) != len(B): return True
    for i in range(len(G)):
        if B[i] >= n: return True
        if i > 0 and (B[i - 1] >= B[i] or G[i - 1] >= G[i] or B[i] - B[i - 1] > G[i] - G[i - 1]): return True
    return False


def _rf_write_step(nxt: int, written: int, n: int, ns: Optional[int], continuous: bool, raw: int) -> bool:
    """
    pre: 0 <= written <= nxt <= 4 and 0 <= n <= 2**20 and (raw == n or raw == 2 * n)
    pre: written >= 1 or nxt == 0
    pre: ns is None or 0 <= ns <= 6
    post: _
    """
    # inductive step from any state with  written + gaps == next  (and python / C cursors equal):
    # rejected (ValueError, nothing touched) iff next_sample < next available; otherwise returns the new next-available sample, which is
    # one past the highest index written, written += n, gaps += skipped indices, and written + gaps == next again
    gaps = nxt - written
    w, ext = _writer(nxt, written, gaps, continuous)
    # the caller's array may have another length than the array of samples it is cast to (flat interleaved I/Q, structured input):
    # everything is counted in samples of the cast array, which is what the library receives
    w._cast_input_array = lambda a: Arr(n)
    at = nxt if ns is None else ns
    try:
        ret = w.rf_write(Arr(raw), ns)
    except ValueError:
        return at < nxt and ext.calls == [] and (unwrap(w._next_avail_sample), unwrap(w._total_samples_written), unwrap(w._total_gap_samples)) == (nxt, written, gaps)
    if at < nxt: return False
    new_next = at + n if n > 0 else nxt
    return (unwrap(ret) == new_next and unwrap(w._next_avail_sample) == new_next and unwrap(w._total_samples_written) == written + n
            and unwrap(w._total_gap_samples) == new_next - (written + n) and ext.calls == [('rf_write', at, n)] and ext.c == new_next)


def _blocks_step(nxt, written, n, G, B, continuous):
    gaps = nxt - written
    w, ext = _writer(nxt, written, gaps, continuous)
    mal = _malformed(G, B, n, nxt)
    try:
        ret = w.rf_write_blocks(Arr(n), UArr(G), UArr(B))
    except ValueError:
        return mal and ext.calls == [] and (unwrap(w._next_avail_sample), unwrap(w._total_samples_written), unwrap(w._total_gap_samples)) == (nxt, written, gaps)
    except RuntimeError:
        return False         # a call the python layer let through was refused (possibly after a partial commit) by the library
    if mal or ext.bad: return False
    new_next = G[-1] + (n - B[-1])
    return (unwrap(ret) == new_next and unwrap(w._next_avail_sample) == new_next and unwrap(w._total_samples_written) == written + n
            and unwrap(w._total_gap_samples) == new_next - (written + n) and ext.c == new_next)


def _rf_write_blocks_1(nxt: int, written: int, n: int, g0: int, b0: int, continuous: bool) -> bool:
    """
    pre: 0 <= written <= nxt <= 2**40 and 1 <= n <= 2**20
    pre: written >= 1 or nxt == 0
    pre: 0 <= g0 <= 2**41 and 0 <= b0 <= 2**41
    post: _
    """
    # rejected with ValueError before the library is called, state untouched, iff the block description is malformed; otherwise the library
    # gets well-formed blocks only, nothing is partially committed, and the counters follow the recording (inductive step, 1 block)
    return _blocks_step(nxt, written, n, [g0], [b0], continuous)


def _rf_write_blocks_2(nxt: int, written: int, n: int, g0: int, g1: int, b0: int, b1: int, continuous: bool) -> bool:
    """
    pre: 0 <= written <= nxt <= 2**40 and 1 <= n <= 2**20
    pre: written >= 1 or nxt == 0
    pre: 0 <= g0 <= 2**41 and 0 <= b0 <= 2**41 and 0 <= g1 <= 2**41 and 0 <= b1 <= 2**41
    post: _
    """
    return _blocks_step(nxt, written, n, [g0, g1], [b0, b1], continuous)


def _rf_write_blocks_3(nxt: int, written: int, n: int, g0: int, g1: int, g2: int, b0: int, b1: int, b2: int, continuous: bool) -> bool:
    """
    pre: 0 <= written <= nxt <= 2**40 and 1 <= n <= 2**20
    pre: written >= 1 or nxt == 0
    pre: 0 <= g0 <= 2**41 and 0 <= b0 <= 2**41 and 0 <= g1 <= 2**41 and 0 <= b1 <= 2**41 and 0 <= g2 <= 2**41 and 0 <= b2 <= 2**41
    post: _
    """
    return _blocks_step(nxt, written, n, [g0, g1, g2], [b0, b1, b2], continuous)


def _rf_write_blocks_mismatch(nxt: int, n: int, g0: int, g1: int, b0: int) -> bool:
    """
    pre: 0 <= nxt <= 2**40 and 1 <= n <= 2**20
    pre: 0 <= g0 <= 2**41 and 0 <= b0 <= 2**41 and 0 <= g1 <= 2**41
    post: _
    """
    # index arrays of different lengths are always refused
    return _blocks_step(nxt, nxt, n, [g0, g1], [b0], False)


def _rf_write_blocks_mismatch2(nxt: int, n: int, g0: int, b0: int, b1: int) -> bool:
    """
    pre: 0 <= nxt <= 2**40 and 1 <= n <= 2**20
    pre: 0 <= g0 <= 2**41 and 0 <= b0 <= 2**41 and 0 <= b1 <= 2**41
    post: _
    """
    # ... also when the block array is the longer one
    return _blocks_step(nxt, nxt, n, [g0], [b0, b1], False)


def _getters_after_close(nxt: int, written: int) -> bool:
    """
    pre: 0 <= written <= nxt <= 2**40
    post: _
    """
    # last file / dir / time getters return the library's answer while open and the values captured at close afterwards; counters survive
    w, ext = _writer(nxt, written, nxt - written, True)
    before = (w.get_last_file_written(), w.get_last_dir_written(), w.get_last_utc_timestamp())
    w.close()
    after = (w.get_last_file_written(), w.get_last_dir_written(), w.get_last_utc_timestamp())
    still = (w.get_next_available_sample(), w.get_total_samples_written(), w.get_total_gap_samples())
    closed = False
    try:
        w.rf_write(Arr(1))
    except IOError:
        closed = True
    return before == (('file', nxt), ('dir', nxt), ('time', nxt)) and after == before and still == (nxt, written, nxt - written) and closed and not hasattr(w, '_channelObj')


def _blocks_witness(n: int, G: List[int], B: List[int]) -> bool:
    """
    pre: 1 <= n <= 100 and len(G) == 2 and len(B) == 2
    pre: all(0 <= x <= 1000 for x in G) and all(0 <= x <= 1000 for x in B)
    post: _
    """
    w, ext = _writer(0, 0, 0, False)
    try:
        w.rf_write_blocks(Arr(n), UArr(G), UArr(B))
    except ValueError:
        return True
    return False        # reachability twin: an accepted two-block call must be reachable
