"""C06 Self-describing data files and recoverable channel properties.
E-LL: index well-formedness of every file on every path of the write-path histories; W0 row well-formedness; the 19 per-file attributes and
the 15 channel-properties attributes (digital_rf_write_metadata / digital_rf_handle_metadata executed from IR); recreate_properties_file in
checks/pylayer.py."""
import time
import z3
from vlib import build, common, smt, wrun, envstubs, wpath
from vlib.llsym import Module, Exec, Ptr, SymStr, Inconclusive
from vlib.wobj import WObj
from vlib import wobj
from checks import wcommon, C01

FUNCS = C01.FUNCS + ['digital_rf_handle_metadata', 'recreate_properties_file (python)']
PROPS = ['H5Tget_class', 'H5Tget_size', 'H5Tget_order', 'H5Tget_precision', 'H5Tget_offset', 'subdir_cadence_secs', 'file_cadence_millisecs',
         'sample_rate_numerator', 'sample_rate_denominator', 'is_complex', 'num_subchannels', 'is_continuous', 'epoch',
         'digital_rf_time_description', 'digital_rf_version']


def props_create(rep):
    """digital_rf_handle_metadata, create branch: exactly the 15 documented attributes, values = object fields / H5Tget_* answers"""
    mod = Module(build.c_ir()); stubs = envstubs.mk_stubs()
    res = []

    def setup(ex):
        o = WObj(ex)
        o.fresh_open_state(z3.Int('n'), z3.Int('d'), z3.Int('sc'), z3.Int('fc'), z3.Int('start'), z3.Int('cont'), z3.Int('chunk'),
                           z3.Int('cplx'), z3.Int('nsub'))
        for v in ('n', 'd', 'sc', 'fc', 'start', 'cont', 'chunk', 'cplx', 'nsub'): ex.assume(z3.And(z3.Int(v) >= 0, z3.Int(v) < 2**31))
        ex.user['fs_init'] = lambda e, s: False
        for nm in ('H5Tget_class', 'H5Tget_order', 'H5Tget_precision', 'H5Tget_offset'): ex.user[nm] = z3.Int('ans_' + nm)
        ex.user['tsize'] = z3.Int('ans_H5Tget_size')
        for nm in ('ans_H5Tget_class', 'ans_H5Tget_order', 'ans_H5Tget_precision', 'ans_H5Tget_offset', 'ans_H5Tget_size'):
            ex.assume(z3.And(z3.Int(nm) >= 0, z3.Int(nm) < 2**31))
        ex.user['o'] = o
        return [o.ptr]

    def on_path(ex, status, ret):
        o = ex.user['o']
        fc = [e for e in ex.events if e[0] == 'H5Fcreate']
        aw = [e for e in ex.events if e[0] == 'H5Awrite']
        type_ok = all(str(e[4]) == str(e[5]) for e in aw)
        ok = status == 'ret' and len(fc) == 1 and ex.valid(ret == 0)
        names = [e[2].text() for e in aw if e[2] is not None and e[2].is_concrete()]
        ok_names = sorted(names) == sorted(PROPS) and type_ok      # (each attribute stored with the type it is written with)
        vals = []
        if ok and ok_names:
            d = {e[2].text(): e[3] for e in aw}
            exp = {'H5Tget_class': z3.Int('ans_H5Tget_class'), 'H5Tget_size': z3.Int('ans_H5Tget_size'), 'H5Tget_order': z3.Int('ans_H5Tget_order'),
                   'H5Tget_precision': z3.Int('ans_H5Tget_precision'), 'H5Tget_offset': z3.Int('ans_H5Tget_offset')}
            for k_ in ('subdir_cadence_secs', 'file_cadence_millisecs', 'sample_rate_numerator', 'sample_rate_denominator', 'is_complex',
                       'num_subchannels', 'is_continuous'):
                exp[k_] = o.get(k_)
            for k_, v in exp.items():
                vals.append(not isinstance(d[k_], SymStr) and ex.valid(d[k_] == v))
            for k_ in ('epoch', 'digital_rf_time_description', 'digital_rf_version'):
                vals.append(isinstance(d[k_], SymStr) and d[k_].is_concrete() and len(d[k_].text()) > 0)
            fid = fc[0][3]
            vals.append(all(e[1] == fid for e in aw))
            vals.append(any(e[0] == 'H5Fclose' and e[1] == fid for e in ex.events))
            nm_ = fc[0][1].text() if fc[0][1].is_concrete() else ''
            ren = [e for e in ex.events if e[0] == 'rename']
            # either created directly (exclusive) under the final name, or staged under tmp. and renamed into place after the close
            vals.append((nm_ == wobj.CHDIR + '/drf_properties.h5' and fc[0][2] == 4) or
                        (nm_ == wobj.CHDIR + '/tmp.drf_properties.h5' and len(ren) == 1 and ren[0][1].text() == nm_ and ren[0][2].text() == wobj.CHDIR + '/drf_properties.h5'))
        res.append((ok, ok_names, all(vals) if vals else False, names))

    ex = Exec(mod, stubs)
    try:
        n = ex.explore('@digital_rf_handle_metadata', setup, on_path)
    except Inconclusive as e:
        rep.ob('channel properties file (create)', 'inconclusive', detail=str(e)); return
    good = bool(res) and all(a and b and c for a, b, c, _ in res)
    rep.ob('digital_rf_handle_metadata (create): drf_properties.h5 gets exactly the 15 documented attributes with the writer\'s parameters, exclusive create, closed',
           'discharged' if good else 'inconclusive', 'all parameter values (symbolic)', ex.nq, ex.tq, n, detail=None if good else str(res)[:400],
           sample={'attributes': PROPS})
    # the per-file attributes are a superset: checked on every file of every path by the write-path harness ('19 documented attributes')


REPLAY_INIT = '''
from vlib import build, refmodel
import ctypes, tempfile, os, shutil, sys
bad = 0
for (n, d, start) in %r:
    top = tempfile.mkdtemp(); ch = os.path.join(top, 'ch'); os.makedirs(ch)
    rw = refmodel.RealWriter(build, ch, n, d, 3600, 1000, start, 0)
    if not rw.obj: print('constructor refused', (n, d, start)); shutil.rmtree(top); continue
    rw.lib.verif_peek_init_utc_timestamp.restype = ctypes.c_uint64; rw.lib.verif_peek_init_utc_timestamp.argtypes = [ctypes.c_void_p]
    got = int(rw.lib.verif_peek_init_utc_timestamp(rw.obj)); want = start * d // n
    rw.close(); shutil.rmtree(top)
    print('rate %%d/%%d start index %%d: init_utc_timestamp %%d, exact second of the first sample %%d' %% (n, d, start, got, want))
    if got != want: bad = 1
sys.exit(1 if bad else 0)
'''


LONG_UUID = 'urn:uuid:6ba7b810-9dad-11d1-80b4-00c04fd430c8/receiver-0'      # 56 characters


REPLAY_UUID = '''
from vlib import build
import numpy as np, tempfile, os, shutil, sys, glob, warnings
warnings.simplefilter('ignore')
drf = build.load_pkg()
import h5py
bad = 0
for uid in ('urn:uuid:6ba7b810-9dad-11d1-80b4-00c04fd430c8/receiver-0', '{6ba7b810-9dad-11d1-80b4-00c04fd430c8}', 'x' * 300):
    top = tempfile.mkdtemp(); os.makedirs(top + '/ch')
    w = drf.DigitalRFWriter(top + '/ch', 'i2', 3600, 1000, 10**10, 10, 1, uid, is_complex=False, marching_periods=False)
    w.rf_write(np.arange(25, dtype='i2')); w.close()
    for f in sorted(glob.glob(top + '/ch/*/rf@*.h5')):
        with h5py.File(f, 'r') as h:
            got = h['rf_data'].attrs['uuid_str']
            got = got.decode() if isinstance(got, bytes) else str(got)
        if got != uid: print(os.path.basename(f), 'carries uuid_str', repr(got[:60]), 'session identifier', repr(uid[:60])); bad = 1
    shutil.rmtree(top)
sys.exit(1 if bad else 0)
'''


def ctor_init_timestamp(rep, st, tier):
    """digital_rf_create_write_hdf5: the session start timestamp stored in every data file == floor(start_index * d / n), decided per rate with
    the x87 80-bit operations of the constructor modelled exactly (one RNE step per division, binade by forking)"""
    from vlib import rates
    from vlib.llsym import M as MASK
    mod = Module(build.c_ir()); stubs = envstubs.mk_stubs()
    rate_list = [r_ for r_ in (rates.QUICK_RATES if tier == 'quick' else rates.QUICK_RATES + [(8000, 1), (10**7, 3), (100, 3), (2**32 - 1, 4294967)])]
    t0 = time.time(); npaths = 0; nq = 0; bad = []; unknown = []; uuid_bad = []
    for (n, d) in rate_list:
        start = z3.Int('start')
        res = []

        def setup(ex, n=n, d=d):
            ex.fp_exact = True
            kmax = min(2**63 - 1, (253402300800 * n) // d)            # before year 9999
            ex.assume(z3.And(start >= 0, start <= kmax))
            dr = ex.new_region('dir'); ex.mem[dr]['cells'][()] = SymStr([wobj.CHDIR])
            uu = ex.new_region('uuid'); ex.mem[uu]['cells'][()] = SymStr([LONG_UUID])
            def hmd(e, o):
                e.user['obj_at_md'] = o; return 0
            ex.summaries['@digital_rf_check_hdf5_directory'] = lambda e, p_: 0
            ex.summaries['@digital_rf_set_fill_value'] = lambda e, o: 0
            ex.summaries['@digital_rf_handle_metadata'] = hmd
            ex.summaries['@digital_rf_close_write_hdf5'] = lambda e, o: 0
            return [Ptr(dr, (0,)), 7001, 3600, 1000, start, n, d, Ptr(uu, (0,)), 0, 0, 0, 1, 0, 0]

        def on_path(ex, status, ret, n=n, d=d):
            if status != 'ret' or not isinstance(ret, Ptr) or ret.region is None or 'obj_at_md' not in ex.user: return
            o = WObj(ex, ex.user['obj_at_md'])
            v = o.get('init_utc_timestamp')
            if v is None or isinstance(v, (Ptr, SymStr)) or not (isinstance(v, int) or z3.is_expr(v)):
                res.append(('unknown', None)); return
            claim = v == (start * d) / n
            # the session identifier stored in the object (and repeated in every file) is the caller's string, whatever its length
            us = o.get_str('uuid_str')
            if not (isinstance(us, SymStr) and us.copy().norm().is_concrete() and us.copy().norm().text() == LONG_UUID):
                uuid_bad.append(repr(us)[:120])
            if ex.valid(claim): res.append(('ok', None))
            else:
                m = ex.model(z3.Not(claim))
                res.append(('bad', smt.mval(m, start) if m is not None else None))

        ex = Exec(mod, stubs, {}, timeout_ms=4000, fallback_ms=60000)
        try:
            npaths += ex.explore('@digital_rf_create_write_hdf5', setup, on_path)
        except Inconclusive as e:
            unknown.append('%d/%d: %s' % (n, d, str(e)[:80])); continue
        nq += ex.nq
        if not res or any(r_[0] == 'unknown' for r_ in res): unknown.append('%d/%d' % (n, d))
        bad += [(n, d, r_[1]) for r_ in res if r_[0] == 'bad' and r_[1] is not None]
    t_uuid = 'constructor: the session identifier kept in the writer object (uuid_str, repeated in every data file) is exactly the caller\'s string (56 characters in the harness)'
    if uuid_bad:
        rep.violation(t_uuid, 'C06.uuid', 'stored identifier %s, given %r' % (uuid_bad[0], LONG_UUID), replay_body=REPLAY_UUID, queries=nq, paths=npaths)
    elif not unknown:
        rep.ob(t_uuid, 'discharged', 'any length (strings are abstract: literal pieces)', 0, 0, npaths)
    title = 'constructor: the session start timestamp (init_utc_timestamp, stored in every data file) == floor(start index * d / n)'
    bounds = '%d rates x every start index with time before year 9999' % len(rate_list)
    if bad:
        rep.violation(title, 'C06.init_utc_timestamp', 'differs at (n, d, start) = %s' % (bad[:3],), replay_body=REPLAY_INIT % (bad[:6],), queries=nq, solver_s=time.time() - t0,
                      paths=npaths, bounds=bounds, sample={'cases': bad[:6]})
    elif unknown:
        rep.ob(title, 'inconclusive', bounds, nq, time.time() - t0, npaths, detail='not decided for ' + ', '.join(unknown[:6]))
    else:
        rep.ob(title, 'discharged', bounds, nq, time.time() - t0, npaths, sample={'rates': rate_list[:6]})


def main(tier):
    rep = common.Report('C06', tier, 'model_checking', functions=FUNCS)
    st = smt.Stats()
    rep.assume('environment stubs of vlib/envstubs.py; fresh channel; no I/O faults',
               'H5Tget_* answers are arbitrary but fixed for a type id; attribute values are what the C code hands to H5Awrite')
    rep.outside_claim('index_len > 3, > 3 files per call, > 3 calls', 'h5py/HDF5 attribute storage itself')
    if not wcommon.gate(rep, st): return rep.finish()
    C01.w0_part(rep, st, tier, select=lambda nm: 'rows' in nm or nm.startswith('no C assert'))
    specs = wcommon.valid_specs(tier)
    t0 = time.time()
    results = wrun.run_all(specs)
    keep = ('no C assert', 'event trace is well formed', 'file index well formed', 'each data file carries exactly the 19', 'sequence_num counts', 'representation invariant Inv_W',
            'every created file has')
    tot = wcommon.report(rep, specs, results, lambda nm: nm.startswith(keep),
                         sigmap={})
    rep.extra['write_path'] = dict(configurations=len(specs), paths=tot['paths'], queries=tot['q'], solver_s=round(tot['s'], 1), wall_s=round(time.time() - t0, 1))
    rep.ob('write path explored', 'witness', '%d configurations' % len(specs), tot['q'], tot['s'], tot['paths'])
    props_create(rep)
    ctor_init_timestamp(rep, st, tier)
    from checks import extglue
    extglue.run_init(rep, st, tier); extglue.run_py_init_call(rep); extglue.run_dtype(rep, st, tier)
    n, bad = wrun.replay_witnesses(results, specs, limit=15)
    if bad:
        nm, cfgd, hist, d = bad[0]
        rep.violation('real build == reference model on solver witnesses', 'C06.X.' + d[0][:40], 'history %s on %s: %s' % (hist, cfgd, d[:2]),
                      replay_body=wrun.REPLAY_BODY % (cfgd, hist))
    else:
        rep.replays += n
        rep.ob('%d solver witnesses run on the real build: every file\'s rf_data_index is well formed and denotes the reference samples' % n,
               'witness' if n else 'inconclusive', None, 0, 0, n)
    from checks import pylayer
    pylayer.c06_part(rep, st, tier)
    return rep.finish()
