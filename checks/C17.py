"""C17 Mirror fidelity, staged publication and no loss in move mode.  CrossHair on the real DigitalRFMirrorHandler.mirror_to_dest, the real
LinkWithFallback and the handler set built by DigitalRFMirror.__init__, on an in-memory file system with symbolic existence / content."""
from vlib import common, smt, chx

FUNCS = ['DigitalRFMirrorHandler.mirror_to_dest', 'DigitalRFMirror.__init__ (handler set per method, LinkWithFallback)', 'DigitalRFMirrorHandler._get_dest_path']
TITLES = {
    '_mirror_one': 'copy / move / link of one file under 1..3 (duplicated, late) events, optionally after a late event for a vanished file, with arbitrary pre-existing destination and stale tmp file (possibly a hard link of the source): destination ends with the source content, final name written only by rename from tmp., an intact copy exists in source or destination at every moment, vanished source changes nothing',
    '_mirror_wiring': 'handler set per method: metadata and properties copied (linked) by the first handler, RF files moved by a separate handler only in move mode, the count-1 metadata ringbuffer only in move mode and dispatched after the copying handler; the first handler selects exactly the data kinds it has to copy and the properties file of each selected kind',
    '_mirror_start': 'start(): property files always listed per the include flags, data / metadata files of the window unless ignore_existing; every listed path dispatched as a creation event to every handler in handler order without time matching',
    '_mirror_witness': 'reachability: a staged rename is reachable',
}
REPLAY = '''
from vlib import build
import os, tempfile, shutil, sys
drf = build.load_pkg()
from digital_rf import mirror as MIR
kw = %r
method = ['copy', 'move', 'link'][kw.get('method', 0)]
top = tempfile.mkdtemp(); s = top + '/s/ch/2020-01-01T00-00-00'; d = top + '/d/ch/2020-01-01T00-00-00'
os.makedirs(s); os.makedirs(d)
content = lambda i: 'content-%%d' %% i
if kw.get('src_there', True): open(s + '/rf@1.000.h5', 'w').write(content(kw.get('src_id', 0)))
if kw.get('dst_there'): open(d + '/rf@1.000.h5', 'w').write(content(kw.get('dst_id', 0)))
if kw.get('tmp_is_link'): os.link(s + '/rf@1.000.h5', d + '/tmp.rf@1.000.h5')
elif kw.get('tmp_there'): open(d + '/tmp.rf@1.000.h5', 'w').write(content(kw.get('tmp_id', 0)))
class NoObs:
    def __init__(self, *a, **k): pass
    def schedule(self, *a, **k): pass
MIR.watchdog_drf.DirWatcher = NoObs
m = MIR.DigitalRFMirror(top + '/s', top + '/d', method=method)
h = m.event_handlers[1] if method == 'move' else m.event_handlers[0]
if kw.get('late_first'): h.mirror_to_dest(s + '/rf@0.000.h5')
for _ in range(kw.get('events', 1)): h.mirror_to_dest(s + '/rf@1.000.h5')
bad = 0
got = open(d + '/rf@1.000.h5').read() if os.path.exists(d + '/rf@1.000.h5') else None
if kw.get('src_there', True):
    if got != content(kw.get('src_id', 0)): print('destination holds', got, 'expected', content(kw.get('src_id', 0))); bad = 1
else:
    want = content(kw.get('dst_id', 0)) if kw.get('dst_there') else None
    if got != want: print('destination changed although the source vanished:', got); bad = 1
    tgot = open(d + '/tmp.rf@1.000.h5').read() if os.path.exists(d + '/tmp.rf@1.000.h5') else None
    twant = content(kw.get('tmp_id', 0)) if kw.get('tmp_there') else None
    if tgot != twant: print('the staged tmp file (possibly the only copy after an interrupted move) was touched although the source vanished:', tgot); bad = 1
shutil.rmtree(top)
sys.exit(1 if bad else 0)
'''


REPLAY_WIRING = '''
from vlib import build
import os, tempfile, shutil, sys, glob
import numpy as np
drf = build.load_pkg()
from digital_rf import mirror as MIR
kw = %r
method = ['copy', 'move', 'link'][kw.get('method', 0)]
top = tempfile.mkdtemp(); src = top + '/s'; dst = top + '/d'; os.makedirs(src + '/ch/metadata'); os.makedirs(dst)
w = drf.DigitalRFWriter(src + '/ch', 'i2', 3600, 1000, 10**10, 10, 1, 'u', is_complex=False)
w.rf_write(np.arange(300, dtype='i2')); w.close()
mw = drf.DigitalMetadataWriter(src + '/ch/metadata', 3600, 1, 10, 1, 'md')
for k in range(3): mw.write(10**10 + 10 * k, {'v': k})
rf0 = sorted(os.path.relpath(f, src) for f in glob.glob(src + '/ch/*/rf@*.h5'))
md0 = sorted(os.path.relpath(f, src) for f in glob.glob(src + '/ch/metadata/*/md@*.h5'))
props = ['ch/drf_properties.h5', 'ch/metadata/dmd_properties.h5']
class NoObs:
    def __init__(self, *a, **k): pass
    def schedule(self, *a, **k): pass
MIR.watchdog_drf.DirWatcher = NoObs
inc_drf, inc_dmd = kw.get('include_drf', True), kw.get('include_dmd', True)
m = MIR.DigitalRFMirror(src, dst, method=method, include_drf=inc_drf, include_dmd=inc_dmd)
# what DigitalRFMirror.start() does for existing files (each event dispatched to the handlers in list order), with the metadata events
# arriving newest-first (late events) and once repeated
from watchdog.events import FileCreatedEvent
for rel in props + rf0 + md0[::-1] + md0[::-1]:
    ev = FileCreatedEvent(os.path.join(src, rel))
    for h in m.event_handlers: h.dispatch(ev, match_time=False)
bad = 0
want = [p for p, on in ((props[0], inc_drf), (props[1], inc_dmd)) if on] + (rf0 if inc_drf else []) + (md0 if inc_dmd else [])
for rel in want:
    if not os.path.exists(os.path.join(dst, rel)): print('not mirrored:', rel); bad = 1
for rel in (rf0 if not inc_drf else []) + (md0 if not inc_dmd else []):
    if not os.path.exists(os.path.join(src, rel)): print('excluded file removed from the source:', rel); bad = 1
    if os.path.exists(os.path.join(dst, rel)): print('excluded file mirrored:', rel); bad = 1
for rel, on in ((props[0], inc_drf), (props[1], inc_dmd)):
    if not on and os.path.exists(os.path.join(dst, rel)): print('properties file of a deselected kind mirrored:', rel); bad = 1
for rel in props:
    if not os.path.exists(os.path.join(src, rel)): print('properties file removed from the source:', rel); bad = 1
if method != 'move':
    for rel in rf0 + md0:
        if not os.path.exists(os.path.join(src, rel)): print('source file removed in', method, 'mode:', rel); bad = 1
shutil.rmtree(top)
sys.exit(1 if bad else 0)
'''


REPLAY_START = '''
from vlib import build
import os, tempfile, shutil, sys, glob
import numpy as np
drf = build.load_pkg()
from digital_rf import mirror as MIR
kw = %r
method = ['copy', 'move', 'link'][kw.get('method', 0)]
top = tempfile.mkdtemp(); src = top + '/s'; dst = top + '/d'; os.makedirs(src + '/ch/metadata'); os.makedirs(dst)
w = drf.DigitalRFWriter(src + '/ch', 'i2', 3600, 1000, 10**10, 10, 1, 'u', is_complex=False)
w.rf_write(np.arange(30, dtype='i2')); w.close()
mw = drf.DigitalMetadataWriter(src + '/ch/metadata', 3600, 1, 10, 1, 'md')
for k in range(2): mw.write(10**10 + 10 * k, {'v': k})
rel = lambda pat: sorted(os.path.relpath(f, src) for f in glob.glob(src + pat))
rf0, md0 = rel('/ch/*/rf@*.h5'), rel('/ch/metadata/*/md@*.h5')
class NoObs:
    def __init__(self, *a, **k): pass
    def schedule(self, *a, **k): pass
    def start(self): pass
MIR.watchdog_drf.DirWatcher = NoObs
inc_drf, inc_dmd, ign = kw.get('include_drf', True), kw.get('include_dmd', True), kw.get('ignore_existing', False)
m = MIR.DigitalRFMirror(src, dst, method=method, ignore_existing=ign, include_drf=inc_drf, include_dmd=inc_dmd)
if not kw.get('has_src', True): shutil.rmtree(src)
m.start()
got = sorted(os.path.relpath(os.path.join(d_, f), dst) for d_, _, fs in os.walk(dst) for f in fs)
want = []
if kw.get('has_src', True):
    want += (['ch/drf_properties.h5'] if inc_drf else []) + (['ch/metadata/dmd_properties.h5'] if inc_dmd else [])
    if not ign: want += (rf0 if inc_drf else []) + (md0 if inc_dmd else [])
print('at destination', got, 'expected', sorted(want))
shutil.rmtree(top)
sys.exit(1 if got != sorted(want) else 0)
'''


def main(tier):
    rep = common.Report('C17', tier, 'model_checking', functions=FUNCS)
    st = smt.Stats()
    rep.assume('os / shutil / filecmp replaced by an in-memory file system (content identities symbolic); shutil.move across file systems = copy then unlink '
               '(both intermediate states observable)', 'event selection (kinds, window) is the C15 filter; deletion of old metadata files is the C16 ringbuffer')
    rep.outside_claim('watchdog threads and real inotify delivery', 'more than 3 events per file', 'crash of the mirror process between staging and rename (the stale tmp file is then handled by the next event)')
    res = chx.run_module('mirror', names=list(TITLES), per_condition_timeout=180 if tier == 'quick' else 900)
    chx.report(rep, res, TITLES, replays={'_mirror_one': lambda kw: REPLAY % (kw,), '_mirror_wiring': lambda kw: REPLAY_WIRING % (kw,), '_mirror_start': lambda kw: REPLAY_START % (kw,)}, sigs={'_mirror_one': 'C17.mirror_one', '_mirror_wiring': 'C17.wiring'})
    return rep.finish()
