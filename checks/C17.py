"""C17 Mirror fidelity, staged publication and no loss in move mode.  CrossHair on the real DigitalRFMirrorHandler.mirror_to_dest, the real
LinkWithFallback and the handler set built by DigitalRFMirror.__init__, on an in-memory file system with symbolic existence / content."""
from vlib import common, smt, chx

FUNCS = ['DigitalRFMirrorHandler.mirror_to_dest', 'DigitalRFMirror.__init__ (handler set per method, LinkWithFallback)', 'DigitalRFMirrorHandler._get_dest_path']
TITLES = {
    '_mirror_one': 'copy / move / link of one file under 1..3 (duplicated, late) events with arbitrary pre-existing destination and stale tmp file: destination ends with the source content, final name written only by rename from tmp., an intact copy exists in source or destination at every moment, vanished source changes nothing',
    '_mirror_wiring': 'handler set per method: metadata and properties copied (linked) by the first handler, RF files moved by a separate handler only in move mode, the count-1 metadata ringbuffer only in move mode and dispatched after the copying handler',
    '_mirror_witness': 'reachability: a staged rename is reachable',
}
REPLAY = '''
from vlib import build
import os, tempfile, shutil, sys
drf = build.load_pkg()
from digital_rf import mirror as MIR
kw = %r
method = ['copy', 'move', 'link'][kw.get('method', 0)]
top = tempfile.mkdtemp(); s = top + '/s/ch/2020-01-01T00-00-00'; d = top + '/d/ch/2020-01-01T00-00-00'
os.makedirs(s); os.makedirs(d)
content = lambda i: 'content-%%d' %% i
if kw.get('src_there', True): open(s + '/rf@1.000.h5', 'w').write(content(kw.get('src_id', 0)))
if kw.get('dst_there'): open(d + '/rf@1.000.h5', 'w').write(content(kw.get('dst_id', 0)))
if kw.get('tmp_there'): open(d + '/tmp.rf@1.000.h5', 'w').write(content(kw.get('tmp_id', 0)))
class NoObs:
    def __init__(self, *a, **k): pass
    def schedule(self, *a, **k): pass
MIR.watchdog_drf.DirWatcher = NoObs
m = MIR.DigitalRFMirror(top + '/s', top + '/d', method=method)
h = m.event_handlers[1] if method == 'move' else m.event_handlers[0]
for _ in range(kw.get('events', 1)): h.mirror_to_dest(s + '/rf@1.000.h5')
bad = 0
got = open(d + '/rf@1.000.h5').read() if os.path.exists(d + '/rf@1.000.h5') else None
if kw.get('src_there', True):
    if got != content(kw.get('src_id', 0)): print('destination holds', got, 'expected', content(kw.get('src_id', 0))); bad = 1
else:
    want = content(kw.get('dst_id', 0)) if kw.get('dst_there') else None
    if got != want: print('destination changed although the source vanished:', got); bad = 1
shutil.rmtree(top)
sys.exit(1 if bad else 0)
'''


def main(tier):
    rep = common.Report('C17', tier, 'model_checking', functions=FUNCS)
    st = smt.Stats()
    rep.assume('os / shutil / filecmp replaced by an in-memory file system (content identities symbolic); shutil.move across file systems = copy then unlink '
               '(both intermediate states observable)', 'event selection (kinds, window) is the C15 filter; deletion of old metadata files is the C16 ringbuffer')
    rep.outside_claim('watchdog threads and real inotify delivery', 'more than 3 events per file', 'crash of the mirror process between staging and rename (the stale tmp file is then handled by the next event)')
    res = chx.run_module('mirror', names=list(TITLES), per_condition_timeout=180 if tier == 'quick' else 900)
    chx.report(rep, res, TITLES, replays={'_mirror_one': lambda kw: REPLAY % (kw,)}, sigs={'_mirror_one': 'C17.mirror_one', '_mirror_wiring': 'C17.wiring'})
    return rep.finish()
