"""C03 Exact sample-index <-> time conversion.

E-LL on the real IR of digital_rf_get_timestamp_floor / digital_rf_get_sample_ceil / digital_rf_get_unix_time_rational,
with k, n, d (and s, p) symbolic; z3 Int with Euclid variables; per-rate linear twins; z3 FP theory for the Python wrapper.
"""
import ast, os, random, time
from fractions import Fraction
import z3
from vlib import build, common, smt, rates
from vlib.llsym import Module, Exec, Ptr, Inconclusive, AssertFail, M
from vlib import envstubs

T12 = 10**12
FUNCS = ['digital_rf_get_timestamp_floor', 'digital_rf_get_sample_ceil', 'digital_rf_get_unix_time_rational',
         'digital_rf_get_time_parts', 'digital_rf.get_unix_time (python)']


def run_floor(ex, k, n, d):
    s_r, p_r = ex.new_region('sec'), ex.new_region('ps')
    r = ex.call('@digital_rf_get_timestamp_floor', [k, n, d, Ptr(s_r), Ptr(p_r)])
    return r, ex.peek(s_r, ()), ex.peek(p_r, ())


def run_ceil(ex, s, p, n, d):
    o_r = ex.new_region('out')
    r = ex.call('@digital_rf_get_sample_ceil', [s, p, n, d, Ptr(o_r)])
    return r, ex.peek(o_r, ())


def domain(k, n, d):
    return [k >= 0, k < 2**63, n >= 1, n < 2**32, d >= 1, d <= 10**9, n * d < 2**64]


REPLAY = '''
from vlib import build
import ctypes
lib = build.clib()
u64 = ctypes.c_uint64
def floor_c(k, n, d):
    s, p = u64(), u64()
    lib.digital_rf_get_timestamp_floor(u64(k), u64(n), u64(d), ctypes.byref(s), ctypes.byref(p)); return s.value, p.value
def ceil_c(s, p, n, d):
    o = u64(); lib.digital_rf_get_sample_ceil(u64(s), u64(p), u64(n), u64(d), ctypes.byref(o)); return o.value
def floor_spec(k, n, d): return (k * d) // n, (((k * d) %% n) * 10**12) // n
def ceil_spec(s, p, n, d): return -((-(s * 10**12 + p) * n) // (d * 10**12))
bad = 0
for case in %r:
    kind = case[0]
    if kind == 'floor':
        _, k, n, d = case
        got, want = floor_c(k, n, d), floor_spec(k, n, d)
    elif kind == 'ceil':
        _, s, p, n, d = case
        got, want = ceil_c(s, p, n, d), ceil_spec(s, p, n, d)
    elif kind == 'mono':
        _, k1, k2, n, d = case
        got, want = floor_c(k1, n, d) <= floor_c(k2, n, d), True
    elif kind == 'inv':
        _, k, n, d = case
        got, want = ceil_c(*floor_c(k, n, d), n, d), k
    print(case, 'got', got, 'want', want)
    if got != want: bad += 1
import sys; sys.exit(1 if bad else 0)
'''


def _dv(a, b):
    return a // b if isinstance(a, int) else a / b


def days_from_civil(y, m, d):
    """days since 1970-01-01 of the proleptic Gregorian date y-m-d (ints or z3 terms; y >= 1970)"""
    if isinstance(m, int):
        yy = y - (1 if m <= 2 else 0); mp = m - 3 if m > 2 else m + 9
    else:
        yy = y - z3.If(m <= 2, 1, 0); mp = z3.If(m > 2, m - 3, m + 9)
    era = _dv(yy, 400); yoe = yy - era * 400
    doy = _dv(153 * mp + 2, 5) + d - 1
    doe = yoe * 365 + _dv(yoe, 4) - _dv(yoe, 100) + doy
    return era * 146097 + doe - 719468


def calendar_claim(Y, Mo, Dd, hh, mi, ss, sec):
    leap = z3.And(Y % 4 == 0, z3.Or(Y % 100 != 0, Y % 400 == 0))
    dim = z3.If(Mo == 2, z3.If(leap, 29, 28), z3.If(z3.Or(Mo == 4, Mo == 6, Mo == 9, Mo == 11), 30, 31))
    return z3.And(Y >= 1970, Y <= 9999, Mo >= 1, Mo <= 12, Dd >= 1, Dd <= dim, hh >= 0, hh < 24, mi >= 0, mi < 60, ss >= 0, ss < 60,
                  days_from_civil(Y, Mo, Dd) * 86400 + hh * 3600 + mi * 60 + ss == sec)


def calendar_spec_selftest(seed):
    """the characterisation agrees with CPython's datetime on seeded and boundary seconds"""
    import datetime, random as _r
    rng = _r.Random(seed)
    secs = [0, 86399, 86400, 951782400, 951868799, 4107542400, 4107456000, 253402300799] + [rng.randrange(0, 253402300800) for _ in range(3000)]
    for s_ in secs:
        t = datetime.datetime(1970, 1, 1) + datetime.timedelta(seconds=s_)
        if days_from_civil(t.year, t.month, t.day) * 86400 + t.hour * 3600 + t.minute * 60 + t.second != s_: return False
    return True


CAL_REPLAY = '''
from vlib import build
import ctypes, datetime, sys
lib = build.clib()
bad = 0
for (k, n, d) in %r:
    o = [ctypes.c_int() for _ in range(6)]; ps = ctypes.c_uint64()
    r = lib.digital_rf_get_unix_time_rational(ctypes.c_uint64(k), ctypes.c_uint64(n), ctypes.c_uint64(d), *[ctypes.byref(x) for x in o], ctypes.byref(ps))
    sec = k * d // n
    t = datetime.datetime(1970, 1, 1) + datetime.timedelta(seconds=sec)
    got = tuple(x.value for x in o); want = (t.year, t.month, t.day, t.hour, t.minute, t.second)
    print('index', k, 'rate %%d/%%d' %% (n, d), 'second', sec, 'C:', got, 'calendar:', want)
    if r != 0 or got != want: bad = 1
sys.exit(1 if bad else 0)
'''


def has_own_calendar(mod):
    tp = mod.funcs.get('@digital_rf_get_time_parts')
    return tp is not None and not any('@gmtime' in ins.text for blk in tp.blocks.values() for ins in blk)


def own_calendar_obligation(rep, mod, stubs, st, tier):
    """digital_rf_get_time_parts without libc gmtime: executed with the second symbolic and compared with the Gregorian characterisation"""
    # digital_rf_get_time_parts executed on its own with the second symbolic: pure linear arithmetic
    sec_ = z3.Int('unix_second')
    title = 'digital_rf_get_time_parts (own calendar arithmetic, no libc gmtime): fields are the valid proleptic Gregorian date and time of day whose second count is the argument'
    done = False
    for (lo_, hi_, btxt, budget) in ((0, 253402300800, 'every second from 1970 to year 9999', 600), (315532800, 4102444800, 'every second from 1980 to 2100 (the full range was not explored within its budget: loops over the year)', 900 if tier == 'quick' else 3000)):
        if done: break
        exc_ = Exec(mod, stubs); cres = []
        def csetup(e, lo_=lo_, hi_=hi_):
            e.assume(z3.And(sec_ >= lo_, sec_ < hi_))
            e.user['outs'] = [e.new_region(nm) for nm in ('year', 'month', 'day', 'hour', 'minute', 'second')]
            return [sec_] + [Ptr(o) for o in e.user['outs']]
        def con_path(e, status, ret):
            if status != 'ret': cres.append(('bad', smt.mval(e.model(), sec_))); return
            vals = [e.peek(o_, ()) for o_ in e.user['outs']]
            if any(v is None or isinstance(v, Ptr) for v in vals): cres.append(('unknown', None)); return
            Y, Mo, Dd, hh, mi, ss = [e.signed(v, 32) if not isinstance(v, int) else v for v in vals]
            claim = z3.And(ret == 0, calendar_claim(Y, Mo, Dd, hh, mi, ss, sec_))
            r_, m_, _dt = smt.prove(list(e.pc), claim, (), 120, st)
            cres.append(('ok', None) if r_ == 'unsat' else (('bad', smt.mval(m_, sec_)) if r_ == 'sat' and m_ is not None else ('unknown', None)))
        cut = None; npc = 0
        try:
            npc = exc_.explore('@digital_rf_get_time_parts', csetup, con_path, deadline=time.time() + budget)
        except Inconclusive as e_:
            cut = str(e_); npc = len(cres)
        badc = [c_[1] for c_ in cres if c_[0] == 'bad' and c_[1] is not None]
        if badc:
            rep.violation(title, 'C03.calendar', 'calendar breakdown wrong at second(s) %s' % (badc[:4],), replay_body=CAL_REPLAY % ([(x_, 1, 1) for x_ in badc[:6]],), queries=exc_.nq, solver_s=exc_.tq, paths=npc, bounds=btxt)
            done = True
        elif any(c_[0] == 'unknown' for c_ in cres):
            # a path was not decided by the solver: never replaced by the smaller range (that would hide what the full range contains)
            rep.ob(title, 'inconclusive', btxt, exc_.nq, exc_.tq, npc, detail='solver unknown on %d path(s)' % sum(1 for c_ in cres if c_[0] == 'unknown')); done = True
        elif cut is not None:
            if hi_ == 4102444800: rep.ob(title, 'inconclusive', btxt, exc_.nq, exc_.tq, npc, detail=cut); done = True
        elif not cres or any(c_[0] != 'ok' for c_ in cres):
            rep.ob(title, 'inconclusive', detail=str(cres)[:300]); done = True
        else:
            rep.ob(title, 'discharged', btxt, exc_.nq, exc_.tq, npc); done = True


def main(tier):
    rep = common.Report('C03', tier, 'proof', functions=FUNCS)
    st = smt.Stats()
    mod = Module(build.c_ir())
    stubs = envstubs.mk_stubs()
    rep.extra['source_sha'] = {'rf_write_hdf5.c': build.sha(build.CSRC)}
    rep.assume('IR semantics: unsigned 64-bit ints as z3 Int with explicit no-wrap obligations (all discharged)',
               'gmtime / datetime calendar arithmetic is trusted (libc / CPython); PyArg_ParseTuple glue not encoded',
               'domain of the property: k < 2^63, n < 2^32, d <= 10^9, n*d < 2^64, time before year 9999')
    sym_to = 60 if tier == 'quick' else 240
    rate_list = rates.QUICK_RATES if tier == 'quick' else rates.thorough_rates()

    def cex_violation(name, sig, what, cases, **kw):
        rep.violation(name, sig, what, replay_body=REPLAY % (cases,), **kw)

    # ------------------------------------------------------------------ symbolic n, d, k : floor
    ex = Exec(mod, stubs); ex.reset(); ex.ovf_mode = 'obligation'; ex.fp_exact = True
    k, n, d = z3.Ints('k n d')
    for c in domain(k, n, d): ex.assume(c)
    try:
        ret, sec, ps = run_floor(ex, k, n, d)
    except AssertFail as e:
        rep.ob('floor.executes', 'inconclusive', detail='assert/abort reachable: %s' % e); return rep.finish()
    Q, R = ex.udivrem(k * d, n)
    Q2, R2 = ex.udivrem(R * T12, n)
    ex.assume(Q < rates.Y9999)
    pc = list(ex.pc)
    impl_vars = [v for (q, r, a, b) in ex.euclid.values() for v in (q, r)]
    lem = smt.sweep_lemmas(pc, impl_vars, [Q, R], timeout_s=5, stats=st)
    bounds = 'k<2^63, n<2^32, d<=1e9, n*d<2^64, sec<year 9999; n,d,k all symbolic'
    floor_sym_ok = True
    for nm, claim, mk in [('floor.return_zero', ret == 0, None),
                          ('floor.second == floor(k*d/n)', sec == Q, lambda m: ('floor', smt.mval(m, k), smt.mval(m, n), smt.mval(m, d))),
                          ('floor.picosecond == floor(rem*1e12/n)', ps == Q2, lambda m: ('floor', smt.mval(m, k), smt.mval(m, n), smt.mval(m, d))),
                          ('floor.picosecond < 1e12', ps < T12, lambda m: ('floor', smt.mval(m, k), smt.mval(m, n), smt.mval(m, d)))]:
        r, m, dt = smt.prove(pc, claim, lem, sym_to, st)
        if r == 'unsat': rep.ob(nm, 'discharged', bounds, 1, dt, 1, sample={'obligation': nm, 'verdict': 'unsat', 'bounds': bounds})
        elif r == 'sat' and mk:
            cex_violation(nm, 'C03.floor.value', 'floor conversion differs from exact value at %s' % (mk(m),), [mk(m)], queries=1, solver_s=dt, bounds=bounds)
            floor_sym_ok = False
        else:
            floor_sym_ok = False
            rep.ob(nm + ' [symbolic rate]', 'witness', bounds, 1, dt, detail='symbolic-rate query %s after %.0fs; decided per concrete rate below' % (r, dt))
    novf = 0
    for i, (opn, cond) in enumerate(ex.ovf):
        r, m, dt = smt.prove(pc, cond, lem, sym_to, st)
        if r == 'unsat': novf += 1
        elif r == 'sat':
            case = ('floor', smt.mval(m, k), smt.mval(m, n), smt.mval(m, d))
            cex_violation('floor.no_wrap[%d:%s]' % (i, opn), 'C03.floor.wrap', '64-bit wrap in floor conversion at %s' % (case,), [case], bounds=bounds)
        else:
            floor_sym_ok = False
            rep.ob('floor.no_wrap[%d:%s] [symbolic rate]' % (i, opn), 'witness', bounds, 1, dt, detail='unknown; decided per rate')
    rep.ob('floor.no_wrap (all %d arithmetic ops)' % len(ex.ovf), 'discharged' if novf == len(ex.ovf) else 'witness', bounds, len(ex.ovf), 0, 1)
    # reachability witness (vacuity guard) + replay
    r, m = smt.solve(pc, [k > 10**9, n > 3, d > 7, R > 0, R2 > 0], 60, st)
    wit_cases = []
    if r == 'sat':
        wit_cases.append(('floor', smt.mval(m, k), smt.mval(m, n), smt.mval(m, d)))
        rep.ob('floor.witness (assumptions satisfiable, non-trivial)', 'witness', bounds, 1, 0, 1, sample={'witness': wit_cases[-1]})
    else:
        rep.ob('floor.witness', 'inconclusive', detail='no witness: ' + r)

    # ------------------------------------------------------------------ symbolic: ceil
    ex2 = Exec(mod, stubs); ex2.reset(); ex2.ovf_mode = 'obligation'; ex2.fp_exact = True
    s_, p_, n2, d2 = z3.Ints('s p n d')
    for c in [s_ >= 0, s_ < rates.Y9999, p_ >= 0, p_ < T12, n2 >= 1, n2 < 2**32, d2 >= 1, d2 <= 10**9, n2 * d2 < 2**64]: ex2.assume(c)
    ret2, out = run_ceil(ex2, s_, p_, n2, d2)
    QC, RC = ex2.udivrem((s_ * T12 + p_) * n2, d2 * T12)
    spec = QC + z3.If(RC != 0, 1, 0)
    ex2.assume(spec < 2**63)
    pc2 = list(ex2.pc)
    bounds2 = 's<year 9999, p<1e12, n<2^32, d<=1e9, n*d<2^64, result<2^63; all symbolic'
    ceil_sym_ok = True
    r, m, dt = smt.prove(pc2, out == spec, (), sym_to, st)
    mkc = lambda m: ('ceil', smt.mval(m, s_), smt.mval(m, p_), smt.mval(m, n2), smt.mval(m, d2))
    if r == 'unsat': rep.ob('ceil.index == ceil((s+p*1e-12)*n/d)', 'discharged', bounds2, 1, dt, 1, sample={'obligation': 'ceil == spec', 'bounds': bounds2})
    elif r == 'sat': cex_violation('ceil.index == ceil((s+p*1e-12)*n/d)', 'C03.ceil.value', 'ceil conversion differs at %s' % (mkc(m),), [mkc(m)], bounds=bounds2); ceil_sym_ok = False
    else:
        ceil_sym_ok = False
        rep.ob('ceil.value [symbolic rate]', 'witness', bounds2, 1, dt, detail='unknown; decided per rate')
    novf = 0
    for i, (opn, cond) in enumerate(ex2.ovf):
        r, m, dt = smt.prove(pc2, cond, (), min(sym_to, 30), st)
        if r == 'unsat': novf += 1
        elif r == 'sat':
            cex_violation('ceil.no_wrap[%d:%s]' % (i, opn), 'C03.ceil.wrap', '64-bit wrap in ceil conversion at %s' % (mkc(m),), [mkc(m)], bounds=bounds2)
        else:
            ceil_sym_ok = False
    rep.ob('ceil.no_wrap (all %d arithmetic ops)' % len(ex2.ovf), 'discharged' if novf == len(ex2.ovf) else 'witness', bounds2, len(ex2.ovf), 0, 1,
           detail=None if novf == len(ex2.ovf) else '%d of %d symbolic-rate no-wrap queries unknown; decided per rate' % (len(ex2.ovf) - novf, len(ex2.ovf)))
    r, m = smt.solve(pc2, [s_ > 1700000000, p_ > 5, n2 > 3, d2 > 7, RC > 0], 60, st)
    if r == 'sat':
        wit_cases.append(mkc(m)); rep.ob('ceil.witness', 'witness', bounds2, 1, 0, 1, sample={'witness': wit_cases[-1]})
    else:
        rep.ob('ceil.witness', 'inconclusive', detail='no witness: ' + r)

    # ------------------------------------------------------------------ per-rate linear twins (complete decision procedure)
    t_rates = time.time(); nr = 0; rate_fail = False; skipped = []
    qs0 = st.queries
    for (N, D) in rate_list:
        exr = Exec(mod, stubs); exr.reset(); exr.ovf_mode = 'obligation'; exr.fp_exact = True
        k1, k2 = z3.Ints('k1 k2')
        kmax = min(2**63 - 1, (rates.Y9999 * N) // D)
        for c in [k1 >= 0, k1 < k2, k2 <= kmax]: exr.assume(c)
        _, sec1, ps1 = run_floor(exr, k1, N, D)
        _, sec2, ps2 = run_floor(exr, k2, N, D)
        no = len(exr.ovf)
        Q1 = (k1 * D) / N; P1 = (((k1 * D) % N) * T12) / N
        # inverse: ceil(floor_ts(k1)) == k1 when one sample period >= 1 ps
        inv = None
        if D * T12 >= N:
            _, back = run_ceil(exr, sec1, ps1, N, D)
            inv = back == k1
        # ceil on an arbitrary timestamp
        sC, pC = z3.Ints('sC pC')
        exr.assume(z3.And(sC >= 0, sC < rates.Y9999, pC >= 0, pC < T12))
        _, outC = run_ceil(exr, sC, pC, N, D)
        numC = (sC * T12 + pC) * N; denC = D * T12
        specC = numC / denC + z3.If(numC % denC != 0, 1, 0)
        exr.assume(specC < 2**63)
        pcr = list(exr.pc)
        claims = [('floor.second', sec1 == Q1, lambda m: ('floor', smt.mval(m, k1), N, D)),
                  ('floor.picosecond', z3.And(ps1 == P1, ps1 < T12), lambda m: ('floor', smt.mval(m, k1), N, D)),
                  ('floor.monotone', z3.Or(sec1 < sec2, z3.And(sec1 == sec2, ps1 <= ps2)), lambda m: ('mono', smt.mval(m, k1), smt.mval(m, k2), N, D)),
                  ('ceil.value', outC == specC, lambda m: ('ceil', smt.mval(m, sC), smt.mval(m, pC), N, D)),
                  ('no_wrap', z3.And(*[c for _, c in exr.ovf]), lambda m: ('floor', smt.mval(m, k1), N, D))]
        if inv is not None:
            claims.append(('inverse ceil(floor(k))==k', inv, lambda m: ('inv', smt.mval(m, k1), N, D)))
        core = (N, D) in rates.QUICK_RATES
        for nm, claim, mk in claims:
            # the value obligations hold for ALL rates by the symbolic proofs above; for the extra (random) rates of the thorough tier only
            # the per-rate-only laws (monotone, inverse) are attempted, with a short cap: their linear twins get expensive for huge denominators
            if not core and floor_sym_ok and ceil_sym_ok and nm in ('floor.second', 'floor.picosecond', 'ceil.value', 'no_wrap'): continue
            r, m, dt = smt.prove(pcr, claim, (), 120 if core else 20, st)
            if r == 'unsat': continue
            if r != 'sat' and not core:
                skipped.append('%d/%d: %s' % (N, D, nm)); continue
            rate_fail = True
            if r == 'sat':
                case = mk(m)
                cex_violation('rate %d/%d: %s' % (N, D, nm), 'C03.%s' % nm.split()[0], '%s fails at %s' % (nm, case), [case], bounds='rate %d/%d, all k' % (N, D))
            else:
                rep.ob('rate %d/%d: %s' % (N, D, nm), 'inconclusive', detail='unknown after %.0fs' % dt)
        nr += 1
    if not rate_fail:
        rep.ob('per-rate twins: second, picosecond, monotone, ceil, inverse, no_wrap', 'discharged',
               '%d rates (n/d) x all k with time < year 9999, all (s,p)' % nr, st.queries - qs0, time.time() - t_rates, nr,
               sample={'rates': rate_list[:6], 'claims': ['floor.second', 'floor.picosecond', 'floor.monotone', 'ceil.value', 'inverse', 'no_wrap']})
    rep.extra['symbolic_rate_complete'] = {'floor': floor_sym_ok, 'ceil': ceil_sym_ok}
    if skipped:
        rep.extra['per_rate_undecided'] = skipped
        rep.outside_claim('monotone / inverse law for %d extra rates whose linear twin was not decided within 20 s: %s' % (len(skipped), ', '.join(skipped[:8])))

    # ------------------------------------------------------------------ get_unix_time_rational: glue
    tp = mod.funcs.get('@digital_rf_get_time_parts')
    own_calendar = tp is not None and not any('@gmtime' in ins.text for blk in tp.blocks.values() for ins in blk)
    summ = {}
    if own_calendar:
        # the calendar breakdown is the code's own arithmetic (no libc gmtime): decided separately below; here it is a recording stand-in
        def tp_summary(e, sec_, *ptrs):
            vals = [e.fresh('cal%d' % i, 31) for i in range(6)]
            for p_, v_ in zip(ptrs, vals): e.store(p_, v_)
            e.events.append(('time_parts', sec_, vals)); return 0
        summ['@digital_rf_get_time_parts'] = tp_summary
    ex3 = Exec(mod, stubs, summ)
    g, n3, d3 = z3.Ints('g n3 d3')
    paths = []
    def setup(e):
        e.ovf_mode = 'obligation'
        for c in domain(g, n3, d3): e.assume(c)
        e.user['outs'] = [e.new_region(nm) for nm in ('year', 'month', 'day', 'hour', 'minute', 'second', 'ps')]
        return [g, n3, d3] + [Ptr(o) for o in e.user['outs']]
    def on_path(e, status, ret):
        if status != 'ret':
            paths.append((status, ret, False)); return
        outs = e.user['outs']
        gm = [x for x in e.events if x[0] == 'gmtime']
        _, sec_ref, ps_ref = run_floor(e, g, n3, d3)        # same path, same inputs: reference outputs of the floor kernel
        tpe = [x for x in e.events if x[0] == 'time_parts']
        if not gm and tpe:
            ok = len(tpe) == 1 and e.valid(tpe[0][1] == sec_ref) and e.valid(e.peek(outs[6], ()) == ps_ref) and e.valid(ret == 0) and \
                all(e.valid(e.peek(outs[i], ()) == tpe[0][2][i]) for i in range(6))
            paths.append((status, ret, ok)); return
        ok = len(gm) == 1 and e.valid(gm[0][1] == sec_ref) and e.valid(e.peek(outs[6], ()) == ps_ref) and e.valid(ret == 0)
        if ok:
            tm = e.mem[[r_ for r_ in e.mem if r_.startswith('tm#')][0]]['cells']
            ok = all(e.valid(e.peek(outs[i], ()) == tm[(j,)] + off) for i, j, off in
                     [(0, 5, 1900), (1, 4, 1), (2, 3, 0), (3, 2, 0), (4, 1, 0), (5, 0, 0)])
        paths.append((status, ret, ok))
    cal_bad = []
    if not calendar_spec_selftest(rep.seed):
        rep.ob('calendar characterisation agrees with CPython datetime', 'inconclusive', detail='spec self-test failed')
    try:
        npth = ex3.explore('@digital_rf_get_unix_time_rational', setup, on_path)
        allok = bool(paths) and all(p[2] for p in paths)
        rep.ob('unix_time_rational: floor second -> gmtime unchanged; picosecond returned; y/m/d/h/m/s = tm fields (+1900,+1)',
               'discharged' if allok else 'inconclusive', 'all k, n, d in domain', ex3.nq, ex3.tq, npth, detail=None if allok else str(paths)[:400])
    except Inconclusive as e:
        rep.ob('unix_time_rational glue', 'inconclusive', detail=str(e))

    if own_calendar:
        own_calendar_obligation(rep, mod, stubs, st, tier)
    from checks import extglue
    extglue.run_unix_time(rep, st, tier)

    # ------------------------------------------------------------------ python get_unix_time: int(picosecond / 1e6) == picosecond // 10**6
    src = open(os.path.join(build.PYPKG, 'digital_rf_hdf5.py')).read()
    tree = ast.parse(src)
    fn = [x for x in tree.body if isinstance(x, ast.FunctionDef) and x.name == 'get_unix_time'][0]
    micro_expr = None; order_ok = False
    for node in ast.walk(fn):
        if isinstance(node, ast.Call) and getattr(node.func, 'attr', None) == 'datetime':
            argnames = [getattr(a, 'id', None) for a in node.args]
            order_ok = argnames == ['year', 'month', 'day', 'hour', 'minute', 'second']
            for kw in node.keywords:
                if kw.arg == 'microsecond': micro_expr = kw.value
    tgt_ok = False
    for node in ast.walk(fn):
        if isinstance(node, ast.Assign) and isinstance(node.targets[0], ast.Tuple):
            tgt_ok = [getattr(e, 'id', None) for e in node.targets[0].elts] == ['year', 'month', 'day', 'hour', 'minute', 'second', 'picosecond']
    ret_ok = any(isinstance(nd, ast.Return) and isinstance(nd.value, ast.Tuple) and [getattr(e, 'id', None) for e in nd.value.elts] == ['dt', 'picosecond'] for nd in ast.walk(fn))
    mtxt = ast.unparse(micro_expr) if micro_expr is not None else None
    rep.extra['python_microsecond_expr'] = mtxt
    if mtxt == 'int(picosecond / 1000000.0)':
        # IEEE double: ps < 2^53 is exact; q = RNE53(ps / 1e6); int() truncates.  Exact RNE-as-LIA, one query per binade.
        from vlib import fprne
        x = z3.Int('ps'); t0 = time.time(); nq = 0; bad = None; unk = 0
        for e in fprne.binades(Fraction(1, 10**6), Fraction(T12, 10**6)):
            Mq = z3.Int('Mq')
            cons = [x >= 1, x < T12] + fprne.rne_constraints(x, z3.IntVal(10**6), e, 53, Mq)
            r_, m_ = smt.solve(cons, [fprne.value_floor(Mq, e, 53) != x / 10**6], 60, st); nq += 1
            if r_ == 'sat': bad = m_[x].as_long(); break
            if r_ != 'unsat': unk += 1
        dt = time.time() - t0
        if bad is not None:
            body = 'ps=%d\nimport sys\nprint(int(ps/1e6), ps//10**6)\nsys.exit(1 if int(ps/1e6)!=ps//10**6 else 0)\n' % bad
            rep.violation('python get_unix_time microsecond', 'C03.py.microsecond', 'int(ps/1e6) != ps//10^6 at ps=%d' % bad, replay_body=body)
        elif unk:
            rep.ob('python get_unix_time microsecond', 'inconclusive', detail='%d binade queries unknown' % unk)
        else:
            # validate the rounding encoding itself against CPython floats on seeded operands
            rng = random.Random(rep.seed); okv = True
            for _ in range(300):
                v = rng.randrange(1, T12); q = v / 1e6
                import math
                mant, ee = math.frexp(q); e = ee - 1; Mi = int(mant * 2**53)
                okv &= smt.solve([x == v] + fprne.rne_constraints(x, z3.IntVal(10**6), e, 53, z3.Int('Mq')), [z3.Int('Mq') == Mi], 20)[0] == 'sat'
            rep.ob('python get_unix_time: int(ps/1e6) == ps // 10^6 (IEEE double RNE encoded in LIA, per binade)', 'discharged' if okv else 'inconclusive',
                   'all 0 <= ps < 1e12', nq, dt, nq, detail=None if okv else 'RNE encoding disagrees with CPython float')
    elif mtxt in ('picosecond // 1000000', 'int(picosecond // 1000000)', 'picosecond // 10 ** 6', 'int(picosecond // 10 ** 6)'):
        rep.ob('python get_unix_time: microsecond is exact integer floor division', 'discharged', 'all ps', 0, 0, 1)
    elif micro_expr is not None:
        # any other expression: translate it (and the local assignments it depends on) with the exact float model of E-AST and compare with
        # floor(ps / 10^6) for every picosecond value, one linear query per binade choice
        from vlib import astnum
        x = z3.Int('ps'); t0 = time.time(); nq = 0; bad = None; unk = 0; err = None
        try:
            ch = astnum.Choices()
            for run in ch.runs():
                cx = astnum.Ctx(run, {'picosecond': x}, {'ps': (0, T12 - 1)})
                for ln, nm, v in astnum.assignments(fn):
                    if nm in ('picosecond',): continue
                    try: cx.env[nm] = astnum.ev(v, cx)
                    except astnum.Unsupported: pass
                val = astnum.ev(micro_expr, cx)
                if isinstance(val, (astnum.LD, astnum.LDC)): raise astnum.Unsupported('microsecond is not an integer expression')
                r_, m_ = smt.solve([x >= 0, x < T12] + cx.cons, [val != x / 10**6], 60, st); nq += 1
                if r_ == 'sat': bad = m_[x].as_long(); break
                if r_ != 'unsat': unk += 1
        except astnum.Unsupported as e:
            err = str(e)
        if bad is not None:
            body = ('from vlib import build\nimport sys\ndrf = build.load_pkg()\nps = %d\n# a sample whose picosecond part is exactly ps: index ps at 10^12 Hz\n'
                    'dt, p = drf.get_unix_time(ps, 10**12, 1)\nprint(dt.microsecond, p, ps // 10**6)\nsys.exit(1 if (dt.microsecond != ps // 10**6 or p != ps) else 0)\n' % bad)
            rep.violation('python get_unix_time microsecond == floor(picosecond / 10^6)', 'C03.py.microsecond', '%s != ps // 10^6 at ps=%d' % (mtxt, bad), replay_body=body,
                          queries=nq, solver_s=time.time() - t0)
        elif err or unk:
            rep.ob('python get_unix_time microsecond', 'inconclusive', detail='microsecond expression %r: %s' % (mtxt, err or '%d queries unknown' % unk))
        else:
            rep.ob('python get_unix_time: microsecond expression %s == floor(picosecond / 10^6) (exact float model, per binade)' % mtxt, 'discharged', 'all 0 <= ps < 1e12', nq, time.time() - t0, nq)
    else:
        rep.ob('python get_unix_time microsecond', 'inconclusive', detail='microsecond argument of datetime() not found')
    rep.ob('python get_unix_time: tuple unpack order, datetime argument order, (dt, picosecond) returned',
           'discharged' if (order_ok and tgt_ok and ret_ok) else 'inconclusive', 'syntactic (AST)', 0, 0, 1,
           detail=None if (order_ok and tgt_ok and ret_ok) else 'order_ok=%s tgt_ok=%s ret_ok=%s' % (order_ok, tgt_ok, ret_ok))

    # ------------------------------------------------------------------ validation of encoding + witnesses on the real build
    rng = random.Random(rep.seed + 3)
    cases = list(wit_cases)
    for _ in range(200 if tier == 'quick' else 2000):
        N, D = rng.choice(rate_list)
        kk = rng.randrange(0, min(2**63, rates.Y9999 * N // D))
        cases.append(('floor', kk, N, D))
        if D * T12 >= N: cases.append(('inv', kk, N, D))
        cases.append(('ceil', rng.randrange(0, rates.Y2100), rng.randrange(0, T12), N, D))
        # boundary-forced cases: k on exact second boundaries
        j = rng.randrange(rates.Y1980, rates.Y2100)
        kb = -((-j * N) // D)
        cases += [('floor', kb, N, D), ('floor', kb - 1, N, D), ('ceil', j, 0, N, D)]
    # executor in concrete mode must agree with the real build on the same inputs (translator validation)
    mism = 0
    exc = Exec(mod, stubs)
    for c in cases[:150]:
        exc.reset()
        if c[0] == 'floor':
            _, a, b = run_floor(exc, c[1], c[2], c[3]); want = ((c[1] * c[3]) // c[2], (((c[1] * c[3]) % c[2]) * T12) // c[2])
            if (a, b) != want: mism += 1
        elif c[0] == 'ceil':
            _, o = run_ceil(exc, c[1], c[2], c[3], c[4]); want = -((-(c[1] * T12 + c[2]) * c[3]) // (c[4] * T12))
            if o != want: mism += 1
    path = rep.write_replay('witness_and_random', REPLAY % (cases,))
    ok, outp = rep.run_replay(path)
    rep.extra['real_build_cases'] = len(cases)
    if ok is False and mism == 0:
        rep.ob('witnesses + %d seeded concrete cases: real build (ctypes) == big-int spec == executor(concrete)' % len(cases), 'witness',
               None, 0, 0, 0, sample={'cases': cases[:4]})
        os.remove(path)
    else:
        rep.ob('real-build validation', 'inconclusive', detail='replay says %s, executor mismatches %d: %s' % (ok, mism, outp[-300:]))
    rep.extra['solver'] = {'queries': st.queries, 'seconds': round(st.seconds, 2)}
    rep.outside_claim('gmtime/datetime calendar arithmetic', 'deprecated long-double digital_rf_get_unix_time', 'PyArg_ParseTuple glue')
    return rep.finish()
