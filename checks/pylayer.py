"""Python-layer obligations of the writer (C05, C06, C19): CrossHair on the real DigitalRFWriter methods with the extension replaced
by a model stating what the E-LL checks prove about the C writer."""
from vlib import chx

TITLES = {
    '_rf_write_step': 'rf_write (inductive step from any state with written + gaps == next): ValueError and nothing touched iff next_sample < next '
                      'available; else returns one past the highest index written, written += n, gaps += skipped indices (zero-length writes included)',
    '_rf_write_blocks_1': 'rf_write_blocks, 1 block (inductive step): ValueError before the library is called and state untouched iff malformed; else '
                          'library receives well-formed blocks only, no partial commit, counters follow the recording',
    '_rf_write_blocks_2': 'rf_write_blocks, 2 blocks (inductive step, gapped and continuous block-by-block mode): same',
    '_rf_write_blocks_3': 'rf_write_blocks, 3 blocks (inductive step, gapped and continuous block-by-block mode): same',
    '_rf_write_blocks_mismatch': 'rf_write_blocks: index arrays of different lengths are always refused before the library is called',
    '_getters_after_close': 'last file / dir / timestamp and the counters remain available after close; writes after close raise IOError',
    '_blocks_witness': 'reachability: an accepted two-block call is reachable',
}

REPLAY = '''
from vlib import build
import numpy as np, tempfile, os, shutil, sys, warnings
warnings.simplefilter('ignore')
drf = build.load_pkg()
kw, kind = %r, %r
cont = bool(kw.get('continuous', False))
nxt, written = kw.get('nxt', 0), kw.get('written', kw.get('nxt', 0))
d = tempfile.mkdtemp(); os.makedirs(d + '/ch')
S = 10**10
w = drf.DigitalRFWriter(d + '/ch', 'i2', 3600, 1000, S, 10, 1, 'u', is_complex=False, is_continuous=cont, marching_periods=False)
bad = 0
try:
    if written > 0: w.rf_write(np.zeros((written, 1), dtype='i2'), next_sample=nxt - written)
    elif nxt > 0: print('state (next=%%d, written=0) is not constructible through the API; replaying from a fresh writer' %% nxt); nxt = 0
    pre = (w.get_next_available_sample(), w.get_total_samples_written(), w.get_total_gap_samples())
    n = kw['n']
    if kind == 'rf_write':
        G, B = [pre[0] if kw['ns'] is None else kw['ns']], [0]
        call = lambda: w.rf_write(np.ones((n, 1), dtype='i2'), kw['ns'])
    else:
        G = [kw[k] for k in ('g0', 'g1', 'g2') if k in kw]; B = [kw[k] for k in ('b0', 'b1', 'b2') if k in kw]
        call = lambda: w.rf_write_blocks(np.ones((n, 1), dtype='i2'), G, B)
    mal = len(G) != len(B) or G[0] < pre[0] or B[0] != 0 or any(B[i] >= max(n, 1) and n > 0 for i in range(len(B))) or \\
        any(B[i-1] >= B[i] or G[i-1] >= G[i] or B[i]-B[i-1] > G[i]-G[i-1] for i in range(1, min(len(G), len(B))))
    try:
        ret = call(); rejected = False
    except ValueError as e:
        rejected = True; print('ValueError:', e)
    except Exception as e:
        rejected = None; print('unexpected', type(e).__name__, e)
    post = (w.get_next_available_sample(), w.get_total_samples_written(), w.get_total_gap_samples())
    if rejected is None: bad = 1
    elif rejected: bad = (not mal) or post != pre
    else:
        new_next = (G[-1] + (n - B[-1])) if n > 0 else pre[0]
        want = (new_next, pre[1] + n, new_next - (pre[1] + n))
        print('returned', ret, 'counters', post, 'expected', want, 'malformed', mal)
        bad = mal or post != want or ret != new_next
finally:
    try: w.close()
    except Exception: pass
    shutil.rmtree(d)
sys.exit(1 if bad else 0)
'''


def _run(rep, tier, prefix):
    res = chx.run_module('writer', per_condition_timeout=120 if tier == 'quick' else 600)
    replays = {'_rf_write_step': lambda kw: REPLAY % (kw, 'rf_write')}
    for k in ('_rf_write_blocks_1', '_rf_write_blocks_2', '_rf_write_blocks_3', '_rf_write_blocks_mismatch'):
        replays[k] = lambda kw: REPLAY % (kw, 'blocks')
    sigs = {k: prefix + '.py.' + k.strip('_') for k in TITLES}
    chx.report(rep, res, {k: 'python writer: ' + v for k, v in TITLES.items()}, replays=replays, sigs=sigs)


def c05_part(rep, st, tier):
    rep.functions += ['DigitalRFWriter.rf_write', 'DigitalRFWriter.rf_write_blocks']
    rep.assume('python layer: the extension is modelled by the C-level facts decided above (cursor update, rejection rule, continuous-mode '
               'block-by-block writes); numpy index-array ops by a list-backed shim with uint64 wrap / int64 view; _cast_* helpers are identity')
    _run(rep, tier, 'C05')


def c19_part(rep, st, tier):
    rep.functions += ['DigitalRFWriter.rf_write', 'DigitalRFWriter.rf_write_blocks', 'DigitalRFWriter.close / getters']
    rep.assume('python layer: the extension is modelled by the C-level facts decided above; inductive step from any state with written + gaps == next')
    _run(rep, tier, 'C19')


def c06_part(rep, st, tier):
    pass
