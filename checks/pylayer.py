"""Python-layer obligations of the writer (C05, C06, C19): CrossHair on the real DigitalRFWriter methods with the extension replaced
by a model stating what the E-LL checks prove about the C writer."""
from vlib import chx

TITLES = {
    '_rf_write_step': 'rf_write (inductive step from any state with written + gaps == next): ValueError and nothing touched iff next_sample < next '
                      'available; else returns one past the highest index written, written += n, gaps += skipped indices (zero-length writes included)',
    '_rf_write_blocks_1': 'rf_write_blocks, 1 block (inductive step): ValueError before the library is called and state untouched iff malformed; else '
                          'library receives well-formed blocks only, no partial commit, counters follow the recording',
    '_rf_write_blocks_2': 'rf_write_blocks, 2 blocks (inductive step, gapped and continuous block-by-block mode): same',
    '_rf_write_blocks_3': 'rf_write_blocks, 3 blocks (inductive step, gapped and continuous block-by-block mode): same',
    '_rf_write_blocks_mismatch': 'rf_write_blocks: index arrays of different lengths are always refused before the library is called',
    '_rf_write_blocks_mismatch2': 'rf_write_blocks: ... also when the block index array is the longer one',
    '_getters_after_close': 'last file / dir / timestamp and the counters remain available after close; writes after close raise IOError',
    '_blocks_witness': 'reachability: an accepted two-block call is reachable',
}

REPLAY = '''
from vlib import build
import numpy as np, tempfile, os, shutil, sys, warnings
warnings.simplefilter('ignore')
drf = build.load_pkg()
kw, kind = %r, %r
cont = bool(kw.get('continuous', False))
nxt, written = kw.get('nxt', 0), kw.get('written', kw.get('nxt', 0))
d = tempfile.mkdtemp(); os.makedirs(d + '/ch')
S = 10**10
flat = kind == 'rf_write' and kw.get('raw') not in (None, kw.get('n'))      # caller's array longer than the samples it holds: flat interleaved I/Q
w = drf.DigitalRFWriter(d + '/ch', 'i2', 3600, 1000, S, 10, 1, 'u', is_complex=flat, is_continuous=cont, marching_periods=False)
bad = 0
try:
    if written > 0: w.rf_write(np.zeros((written, 2 if flat else 1), dtype='i2'), next_sample=nxt - written)
    elif nxt > 0: print('state (next=%%d, written=0) is not constructible through the API; replaying from a fresh writer' %% nxt); nxt = 0
    pre = (w.get_next_available_sample(), w.get_total_samples_written(), w.get_total_gap_samples())
    n = kw['n']
    if kind == 'rf_write':
        G, B = [pre[0] if kw['ns'] is None else kw['ns']], [0]
        call = (lambda: w.rf_write(np.ones(2 * n, dtype='i2'), kw['ns'])) if flat else (lambda: w.rf_write(np.ones((n, 1), dtype='i2'), kw['ns']))
    else:
        G = [kw[k] for k in ('g0', 'g1', 'g2') if k in kw]; B = [kw[k] for k in ('b0', 'b1', 'b2') if k in kw]
        call = lambda: w.rf_write_blocks(np.ones((n, 1), dtype='i2'), G, B)
    mal = len(G) != len(B) or G[0] < pre[0] or B[0] != 0 or any(B[i] >= max(n, 1) and n > 0 for i in range(len(B))) or \\
        any(B[i-1] >= B[i] or G[i-1] >= G[i] or B[i]-B[i-1] > G[i]-G[i-1] for i in range(1, min(len(G), len(B))))
    try:
        ret = call(); rejected = False
    except ValueError as e:
        rejected = True; print('ValueError:', e)
    except Exception as e:
        rejected = None; print('unexpected', type(e).__name__, e)
    post = (w.get_next_available_sample(), w.get_total_samples_written(), w.get_total_gap_samples())
    if rejected is None: bad = 1
    elif rejected: bad = (not mal) or post != pre
    else:
        new_next = (G[-1] + (n - B[-1])) if n > 0 else pre[0]
        want = (new_next, pre[1] + n, new_next - (pre[1] + n))
        print('returned', ret, 'counters', post, 'expected', want, 'malformed', mal)
        bad = mal or post != want or ret != new_next
finally:
    try: w.close()
    except Exception: pass
    shutil.rmtree(d)
sys.exit(1 if bad else 0)
'''


def _run(rep, tier, prefix):
    res = chx.run_module('writer', per_condition_timeout=120 if tier == 'quick' else 600)
    replays = {'_rf_write_step': lambda kw: REPLAY % (kw, 'rf_write')}
    for k in ('_rf_write_blocks_1', '_rf_write_blocks_2', '_rf_write_blocks_3', '_rf_write_blocks_mismatch', '_rf_write_blocks_mismatch2'):
        replays[k] = lambda kw: REPLAY % (kw, 'blocks')
    sigs = {k: prefix + '.py.' + k.strip('_') for k in TITLES}
    chx.report(rep, res, {k: 'python writer: ' + v for k, v in TITLES.items()}, replays=replays, sigs=sigs)


def c05_part(rep, st, tier):
    rep.functions += ['DigitalRFWriter.rf_write', 'DigitalRFWriter.rf_write_blocks']
    rep.assume('python layer: the extension is modelled by the C-level facts decided above (cursor update, rejection rule, continuous-mode '
               'block-by-block writes); numpy index-array ops by a list-backed shim with uint64 wrap / int64 view; _cast_* helpers are identity')
    _run(rep, tier, 'C05')
    from checks import extglue
    extglue.run(rep, st, tier)


def c19_part(rep, st, tier):
    rep.functions += ['DigitalRFWriter.rf_write', 'DigitalRFWriter.rf_write_blocks', 'DigitalRFWriter.close / getters']
    rep.assume('python layer: the extension is modelled by the C-level facts decided above; inductive step from any state with written + gaps == next')
    _run(rep, tier, 'C19')
    from checks import extglue
    extglue.run(rep, st, tier)
    extglue.run_getters(rep, st, tier)


REGEN = '''
from vlib import build
import numpy as np, tempfile, os, shutil, sys, glob, warnings
warnings.simplefilter('ignore')
drf = build.load_pkg()
import h5py
from digital_rf import digital_rf_hdf5 as H
bad = 0; nfiles = 0
for (dtype, cplx, nsub, cont, n, d) in (('i2', False, 1, False, 10, 1), ('<f4', True, 2, True, 200, 3), ('>i4', True, 1, False, 10, 1), ('u1', False, 3, True, 7, 1)):
    top = tempfile.mkdtemp(); ch = os.path.join(top, 'ch'); os.makedirs(ch)
    S = 10**9 * n // d + 3
    w = drf.DigitalRFWriter(ch, dtype, 2, 1000, S, n, d, 'uuid', is_complex=cplx, num_subchannels=nsub, is_continuous=cont, marching_periods=False)
    shape = (25 * n // d + 5, nsub) if not cplx else (25 * n // d + 5, nsub)
    dat = (np.arange(shape[0] * nsub).reshape(shape) % 100).astype(np.dtype(dtype).newbyteorder('=') if not cplx else 'c8')
    if cplx and np.dtype(dtype).kind != 'f': dat = np.zeros(shape, dtype=np.dtype([('r', dtype), ('i', dtype)]))
    w.rf_write(dat[:10]); w.rf_write(dat[10:], next_sample=30 * n // d)
    w.close()
    def snapshot():
        r = drf.DigitalRFReader(top)
        b = r.get_bounds('ch'); blocks = r.get_continuous_blocks(b[0], b[1], 'ch')
        props = {k: (v.tolist() if hasattr(v, 'tolist') else v) for k, v in r.get_properties('ch').items()}
        data = r.read(b[0], b[1], 'ch')
        return b, list(blocks.items()), props, {k: v.tobytes() for k, v in data.items()}, {k: str(v.dtype) for k, v in data.items()}
    ref = snapshot()
    pf = os.path.join(ch, 'drf_properties.h5')
    with h5py.File(pf, 'r') as f: ref_attrs = {k: (np.asarray(v).tolist(), str(np.asarray(v).dtype.kind)) for k, v in f.attrs.items()}
    files = sorted(glob.glob(os.path.join(ch, '*', 'rf@*.h5')))
    keep = os.path.join(top, 'keep.h5'); os.rename(pf, keep)
    for f in files:
        # regenerate from exactly this data file: a scratch channel holding only it
        t2 = tempfile.mkdtemp(); sd = os.path.join(t2, 'ch', os.path.basename(os.path.dirname(f))); os.makedirs(sd)
        os.link(f, os.path.join(sd, os.path.basename(f)))
        H.recreate_properties_file(os.path.join(t2, 'ch'))
        with h5py.File(os.path.join(t2, 'ch', 'drf_properties.h5'), 'r') as g:
            got = {k: (np.asarray(v).tolist(), str(np.asarray(v).dtype.kind)) for k, v in g.attrs.items()}
        norm = lambda a: {k: ((v[0].decode() if isinstance(v[0], bytes) else v[0]), 'S' if v[1] in 'SOU' else v[1]) for k, v in a.items()}
        if norm(got) != norm(ref_attrs):
            print('regenerated from', os.path.basename(f), 'differs:', {k: (norm(got).get(k), norm(ref_attrs).get(k)) for k in set(got) | set(ref_attrs) if norm(got).get(k) != norm(ref_attrs).get(k)}); bad = 1
        shutil.rmtree(t2); nfiles += 1
    # and the channel itself reads back identically after regeneration in place
    H.recreate_properties_file(ch)
    if snapshot() != ref: print('channel reads back differently after recreate_properties_file', dtype, cplx, nsub, cont); bad = 1
    try:
        H.recreate_properties_file(ch); print('an existing properties file was overwritten'); bad = 1
    except IOError: pass
    shutil.rmtree(top)
print('regenerated from', nfiles, 'data files')
sys.exit(1 if bad else 0)
'''


def c06_part(rep, st, tier):
    rep.functions += ['recreate_properties_file']
    rep.assume('recreate_properties_file: h5py / glob / os.access replaced by an in-memory store; attribute values are opaque integers')
    res = chx.run_module('recreate', per_condition_timeout=240 if tier == 'quick' else 900)
    titles = {'_recreate_witness': 'reachability: a regenerated properties file is reachable'}
    for o in (0, 1):
        for m in range(8):
            titles['_recreate_%d_%d' % (o, m)] = ('recreate_properties_file, subdirectories %s%s: existing properties never overwritten; otherwise the new file holds exactly the 15 channel '
                                                  'attributes with the values of a finalized data file of the channel (opened read-only, never a tmp. file), nothing else '
                                                  'written' % (''.join('x' if m & (1 << i) else '-' for i in range(3)), ', glob order reversed' if o else ''))
    chx.report(rep, res, titles, replays={k: (lambda kw: REGEN) for k in titles}, sigs={k: 'C06.recreate' for k in titles})
    path = rep.write_replay('C06-regenerate-from-every-file', REGEN)
    ok, out = rep.run_replay(path)
    if ok is False:
        rep.ob('real build: drf_properties.h5 regenerated from every data file == the original, channel reads back identically', 'witness', '4 channel configurations', 0, 0, 1, detail=out.strip()[-200:])
    else:
        rep.violation('real build: drf_properties.h5 regenerated from every data file == the original, channel reads back identically', 'C06.recreate.real',
                      out.strip()[-400:], replay_body=REGEN)
