"""Python-layer obligations of the writer (C05, C06, C19) -- filled in below."""


def c05_part(rep, st, tier): pass
def c06_part(rep, st, tier): pass
def c19_part(rep, st, tier): pass
