"""C04 Deterministic time-partitioned file layout.

E-LL on the real IR of digital_rf_get_subdir_file (callees digital_rf_get_timestamp_floor / _get_sample_ceil / _get_time_parts
executed from IR too) against the declarative layout spec, plus the cadence rule in both constructors.
"""
import ast, os, random, time
import z3
from vlib import build, common, smt, rates, spec, envstubs, kernels
from vlib.llsym import Module, Exec, Ptr, SymStr, Inconclusive, AssertFail, M
from vlib.wobj import WObj, F

FUNCS = ['digital_rf_get_subdir_file', 'digital_rf_get_timestamp_floor', 'digital_rf_get_sample_ceil', 'digital_rf_get_time_parts',
         'digital_rf_create_write_hdf5 (cadence rule; float instructions havoc)', 'DigitalRFWriter.__init__ (cadence rule, AST+solver)']

EXPECT_SUBDIR_FMT = ['i04', '-', 'i02', '-', 'i02', 'T', 'i02', '-', 'i02', '-', 'i02']
TM_ORDER = [5, 4, 3, 2, 1, 0]      # year, month, day, hour, minute, second  <- struct tm field numbers
TM_OFF = [1900, 1, 0, 0, 0, 0]

REPLAY = '''
from vlib import build, spec
import ctypes, sys
lib = build.clib()
u64 = ctypes.c_uint64
lib.digital_rf_get_subdir_file.restype = ctypes.c_int
class Obj(ctypes.Structure):
    pass
F = build.struct_fields()
# writer object as a raw buffer with the fields the kernel reads (offsets from the compiled header via a tiny C probe)
import subprocess, os, tempfile
d = tempfile.mkdtemp()
src = os.path.join(d, 'off.c')
open(src, 'w').write('#include <stddef.h>\\n#include <stdio.h>\\n#include "digital_rf.h"\\nint main(){printf("%%zu %%zu %%zu %%zu %%zu %%zu\\\\n", sizeof(Digital_rf_write_object), offsetof(Digital_rf_write_object, subdir_cadence_secs), offsetof(Digital_rf_write_object, file_cadence_millisecs), offsetof(Digital_rf_write_object, global_start_sample), offsetof(Digital_rf_write_object, sample_rate_numerator), offsetof(Digital_rf_write_object, sample_rate_denominator));return 0;}')
subprocess.check_call(['gcc', '-I' + build.CINC, '-I' + build.H5INC, src, '-o', os.path.join(d, 'off')])
size, o_sc, o_fc, o_st, o_n, o_d = map(int, subprocess.check_output([os.path.join(d, 'off')]).split())
import shutil; shutil.rmtree(d)
bad = 0
for (n, dd, sc, fc, start, gs) in %r:
    buf = ctypes.create_string_buffer(size)
    for off, v in ((o_sc, sc), (o_fc, fc), (o_st, start), (o_n, n), (o_d, dd)):
        ctypes.memmove(ctypes.addressof(buf) + off, ctypes.byref(u64(v)), 8)
    sub = ctypes.create_string_buffer(1024); base = ctypes.create_string_buffer(256); left = u64(); mx = u64()
    r = lib.digital_rf_get_subdir_file(buf, u64(gs), sub, base, ctypes.byref(left), ctypes.byref(mx))
    k = gs + start
    Fm = spec.file_ms(k, n, dd, fc); S = spec.dir_sec(k, n, dd, sc)
    want = (0, spec.subdir_name(S), 'tmp.' + spec.file_name(Fm), spec.first_of_ms(Fm + fc, n, dd) - k,
            spec.first_of_ms(Fm + fc, n, dd) - spec.first_of_ms(Fm, n, dd))
    got = (r, sub.value.decode(), base.value.decode(), left.value, mx.value)
    ok = got == want and 1 <= got[3] <= got[4]
    print((n, dd, sc, fc, start, gs), 'got', got, 'want', want, 'OK' if ok else 'MISMATCH')
    if not ok: bad += 1
sys.exit(1 if bad else 0)
'''


def time_parts_summary(ex, sec, py, pmo, pd, ph, pmi, ps):
    """stand-in for digital_rf_get_time_parts when it does its own calendar arithmetic (no libc gmtime): the breakdown is decided on its own
    (C03.own_calendar_obligation, run by this check as well); here it behaves like the gmtime stub -- fields are functions of the second"""
    rid = ex.new_region('secarg'); ex.store(Ptr(rid), sec)
    tmp = ex.stubs['@gmtime'](ex, Ptr(rid))
    tm = ex.mem[tmp.region]['cells']
    for p_, (j, off) in zip((py, pmo, pd, ph, pmi, ps), ((5, 1900), (4, 1), (3, 0), (2, 0), (1, 0), (0, 0))):
        ex.store(p_, tm[(j,)] + off)
    return 0


def kernel_obligations(mod, stubs, cfg, st, timeout, inline=False):
    """cfg: dict n,d,sc,fc (int or None=symbolic), tlo, thi (time range in seconds).  Returns (results, witness_case, paths, ex)"""
    res = []   # (name, verdict 'unsat'|'sat'|'unknown', model_case|None, dt)
    info = {}

    def setup(ex):
        ex.ovf_mode = 'obligation'
        # floating point (none in the unchanged kernel) is modelled exactly in the per-configuration twins; havoc in the all-symbolic run
        ex.fp_exact = cfg['n'] is not None
        sym = lambda nm, v: z3.Int(nm) if v is None else v
        n, d, sc, fc = sym('n', cfg['n']), sym('d', cfg['d']), sym('sc', cfg['sc']), sym('fc', cfg['fc'])
        start, gs = z3.Ints('start gs')
        pre = [start >= 0, gs >= 0, gs < 2**61, start < 2**61]
        if cfg['n'] is None: pre += [n >= 1, n < 2**32]
        if cfg['d'] is None: pre += [d >= 1, d <= 10**9, n * d < 2**64]
        if cfg['sc'] is None: pre += [sc >= 1, sc <= 10**8]
        if cfg['fc'] is None: pre += [fc >= 1, fc <= 10**11]
        if cfg['sc'] is None or cfg['fc'] is None:
            qq = z3.Int('cad_q'); pre += [sc * 1000 == qq * fc, qq >= 1]
        k = gs + start
        pre += [k * d >= cfg['tlo'] * n, k * d < cfg['thi'] * n]
        for c in pre: ex.assume(c)
        o = WObj(ex)
        for nm, v in (('sample_rate_numerator', n), ('sample_rate_denominator', d), ('subdir_cadence_secs', sc),
                      ('file_cadence_millisecs', fc), ('global_start_sample', start)):
            o.set(nm, v)
        regs = {nm: ex.new_region(nm) for nm in ('subdir', 'basename', 'left', 'max')}
        for nm in ('subdir', 'basename'): ex.mem[regs[nm]]['cells'][()] = SymStr([''])
        ex.user.update(dict(regs=regs, v=dict(n=n, d=d, sc=sc, fc=fc, start=start, gs=gs, k=k)))
        return [o.ptr, gs, Ptr(regs['subdir'], (0,)), Ptr(regs['basename'], (0,)), Ptr(regs['left']), Ptr(regs['max'])]

    def on_path(ex, status, ret):
        v = ex.user['v']; regs = ex.user['regs']
        n, d, sc, fc, k = v['n'], v['d'], v['sc'], v['fc'], v['k']
        mk = lambda m: tuple(smt.mval(m, v[x]) for x in ('n', 'd', 'sc', 'fc', 'start', 'gs'))
        info['paths'] = info.get('paths', 0) + 1
        if status != 'ret':
            res.append(('no assert/abort reachable', 'sat', mk(ex.model()), 0.0)); return
        sub = ex.mem[regs['subdir']]['cells'][()]; base = ex.mem[regs['basename']]['cells'][()]
        gm = [e for e in ex.events if e[0] == 'gmtime']
        left, mx = ex.peek(regs['left'], ()), ex.peek(regs['max'], ())
        claims = [('returns 0 (error path unreachable)', ret == 0)]
        # division-free characterisations (exact rational time of sample k is k*d/n seconds):
        #   S = dir second  <=>  S % sc == 0  and  S <= floor(k*d/n) < S+sc   <=>  S%sc==0 and S*n <= k*d and k*d < (S+sc)*n
        if len(gm) == 1:
            S = gm[0][1]
            _, srem = ex.udivrem(S, sc)
            claims.append(('subdir second S: S % sc == 0 and S <= k*d/n < S+sc (exact time)', z3.And(srem == 0, S * n <= k * d, k * d < (S + sc) * n)))
        else:
            claims.append(('subdir second S: S % sc == 0 and S <= k*d/n < S+sc (exact time)', False))
        sub_shape = [p if isinstance(p, str) else p[2] for p in sub.parts]
        shape_ok = sub_shape == EXPECT_SUBDIR_FMT
        if shape_ok and len(gm) == 1:
            tmr = [r_ for r_ in ex.mem if r_.startswith('tm#')]
            tm = ex.mem[tmr[0]]['cells']
            terms = [p[1] for p in sub.parts if not isinstance(p, str)]
            shape_ok = z3.And(*[t == tm[(j,)] + off for t, j, off in zip(terms, TM_ORDER, TM_OFF)])
        claims.append(('subdir name = %04i-%02i-%02iT%02i-%02i-%02i of (year,month,day,hour,minute,second)', shape_ok))
        bshape = [p if isinstance(p, str) else p[2] for p in base.parts]
        FMir = None
        if bshape == ['tmp.rf@', 'u', '.', 'u03', '.h5']:
            t1, t2 = [p[1] for p in base.parts if not isinstance(p, str)]
            FMir = t1 * 1000 + t2
            _, frem = ex.udivrem(FMir, fc)
            #   F = file ms  <=>  F % fc == 0  and  F <= k*d*1000/n < F+fc
            claims.append(('basename tmp.rf@S.mmm.h5 with F=S*1000+mmm, mmm<1000, F % fc == 0, F <= k*d*1000/n < F+fc (exact time)',
                           z3.And(t2 < 1000, frem == 0, FMir * n <= k * d * 1000, k * d * 1000 < (FMir + fc) * n)))
            #   c = first(F)  <=>  c*d*1000 >= F*n  and  (c-1)*d*1000 < F*n        (first sample at or after F ms)
            c2 = left + k; c1 = c2 - mx
            claims.append(('k+samples_left is the first sample at/after F+fc ms', z3.And(c2 * d * 1000 >= (FMir + fc) * n, (c2 - 1) * d * 1000 < (FMir + fc) * n)))
            claims.append(('k+samples_left-max is the first sample at/after F ms', z3.And(c1 * d * 1000 >= FMir * n, (c1 - 1) * d * 1000 < FMir * n)))
            claims.append(('1 <= samples_left <= max_samples_this_file', z3.And(left >= 1, left <= mx)))
        else:
            claims.append(('basename tmp.rf@S.mmm.h5 with F=S*1000+mmm, mmm<1000, F % fc == 0, F <= k*d*1000/n < F+fc (exact time)', False))
            info['bshape'] = bshape
        claims.append(('no 64-bit wrap in %d arithmetic ops' % len(ex.ovf), z3.And(*[c for _, c in ex.ovf]) if ex.ovf else True))
        pc = list(ex.pc)
        for nm, cl in claims:
            if cl is True: res.append((nm, 'unsat', None, 0.0)); continue
            if cl is False: res.append((nm, 'sat', mk(ex.model()), 0.0)); continue
            r, m, dt = smt.prove(pc, cl, (), timeout, st)
            res.append((nm, r, mk(m) if m is not None else None, dt))
        if 'wit' not in info and FMir is not None:
            r, m = smt.solve(pc, [k * d * 1000 > FMir * n + n], 30, st)
            if r == 'sat': info['wit'] = mk(m)
            # boundary witnesses: sample that is the first of its file, and the last of its file
            for extra in ([left == mx], [left == 1]):
                r, m = smt.solve(pc, extra, 30, st)
                if r == 'sat': info.setdefault('bwit', []).append(mk(m))

    summ = {} if inline else dict(kernels.TIME_SUMMARIES)       # inline: the real kernels are executed, not their specs
    from checks import C03
    if C03.has_own_calendar(mod): summ['@digital_rf_get_time_parts'] = time_parts_summary
    ex = Exec(mod, stubs, summaries=summ)
    ex.explore('@digital_rf_get_subdir_file', setup, on_path)
    return res, info, ex


def partition_lemma(cfg, st, timeout):
    """Partition lemma over the *characterisation* C(k; F, S, c1, c2) that kernel_obligations proves for the real kernel's outputs:
         F = q*fc,  F <= k*d*1000/n < F+fc,   S = p*sc,  S <= k*d/n < S+sc,   c1 = first sample at/after F ms,  c2 = ... F+fc ms
    For k1 < k2: the two files are identical (same F => same window, same subdirectory) or disjoint and ordered (c2_1 <= c1_2, F1 < F2,
    S1 <= S2).  Rate and cadences symbolic (cfg=None) or concrete.  This is what licenses the window abstraction in vlib/wpath.py.
    -> [(name, verdict, model, dt)]"""
    n, d, sc, fc = z3.Ints('n d sc fc')
    pre = [n >= 1, n < 2**32, d >= 1, d <= 10**9, n * d < 2**64, sc >= 1, sc <= 10**8, fc >= 1, fc <= 10**11]
    if cfg: pre += [n == cfg[0], d == cfg[1], sc == cfg[2], fc == cfg[3]]
    r_ = z3.Int('r'); pre += [sc * 1000 == r_ * fc, r_ >= 1]
    k1, k2 = z3.Ints('k1 k2'); pre += [k1 >= 0, k1 < k2, k2 < 2**61]
    V = []
    for i, k in ((1, k1), (2, k2)):
        q, p, c1, c2 = (z3.Int('%s%d' % (x, i)) for x in ('q', 'p', 'c1', 'c2'))
        Fm = q * fc; D = p * sc
        pre += [q >= 0, p >= 0, Fm * n <= k * d * 1000, k * d * 1000 < (Fm + fc) * n, D * n <= k * d, k * d < (D + sc) * n,
                c1 * d * 1000 >= Fm * n, (c1 - 1) * d * 1000 < Fm * n, c2 * d * 1000 >= (Fm + fc) * n, (c2 - 1) * d * 1000 < (Fm + fc) * n]
        V.append((q, p, c1, c2))
    (q1, p1, a1, b1), (q2, p2, a2, b2) = V
    steps = [('hint: p1*r <= q1 < (p1+1)*r', z3.And(p1 * r_ <= q1, q1 < (p1 + 1) * r_)),
             ('hint: p2*r <= q2 < (p2+1)*r', z3.And(p2 * r_ <= q2, q2 < (p2 + 1) * r_)),
             ('file time is monotone in the index (F1 <= F2)', q1 <= q2),
             ('same file => same window', z3.Implies(q1 == q2, z3.And(a1 == a2, b1 == b2))),
             ('different files => windows disjoint and ordered (c2_1 <= c1_2)', z3.Implies(q1 < q2, b1 <= a2)),
             ('subdirectory time is monotone in the index (S1 <= S2)', p1 <= p2),
             ('same file => same subdirectory (cadence rule)', z3.Implies(q1 == q2, p1 == p2))]
    out = []; proven = []
    for nm, cl in steps:
        r, m, dt = smt.prove(pre, cl, proven, timeout, st)
        out.append(('partition lemma: ' + nm, r, None if m is None else tuple(smt.mval(m, x) for x in (n, d, sc, fc, k1, k2)), dt))
        if r == 'unsat': proven.append(cl)
    return out


def ctor_cadence(mod, stubs, rep, st):
    """digital_rf_create_write_hdf5: returns NULL before touching the channel when the cadence rule is broken; stores cadences unchanged."""
    out = []

    def setup(ex):
        sc, fc, start, n, d = z3.Ints('sc fc start n d')
        for c in [sc >= 0, sc < 2**40, fc >= 0, fc < 2**40, start >= 0, start < 2**62, n >= 0, n < 2**32, d >= 0, d < 2**32]: ex.assume(c)
        comp, nsub, cont = z3.Ints('comp nsub cont')
        for c in [comp >= 0, comp < 2**32, nsub >= 0, nsub < 2**32, cont >= 0, cont <= 1]: ex.assume(c)
        dr = ex.new_region('dir'); ex.mem[dr]['cells'][()] = SymStr(['/data/ch'])
        uu = ex.new_region('uuid'); ex.mem[uu]['cells'][()] = SymStr(['UUID'])
        ex.user['v'] = dict(sc=sc, fc=fc, start=start, n=n, d=d, comp=comp, nsub=nsub)
        ex.summaries['@digital_rf_check_hdf5_directory'] = lambda e, p: z3.If(z3.Bool('dir_ok'), z3.IntVal(0), z3.IntVal(M(32) - 1))
        def sfv(e, o):
            e.events.append(('set_fill_value',)); return z3.If(z3.Bool('fill_ok'), z3.IntVal(0), z3.IntVal(M(32) - 1))
        def hmd(e, o):
            e.events.append(('handle_metadata',)); e.user['obj_at_md'] = o
            return z3.If(z3.Bool('md_ok'), z3.IntVal(0), z3.IntVal(M(32) - 1))
        def closew(e, o):
            e.events.append(('close_write',)); return 0
        ex.summaries['@digital_rf_set_fill_value'] = sfv
        ex.summaries['@digital_rf_handle_metadata'] = hmd
        ex.summaries['@digital_rf_close_write_hdf5'] = closew
        return [Ptr(dr, (0,)), 7001, sc, fc, start, n, d, Ptr(uu, (0,)), comp, 0, 0, nsub, cont, 0]

    def on_path(ex, status, ret):
        v = ex.user['v']
        if status != 'ret':
            if 'exit()' in str(ret): return      # malloc failure branch (malloc never fails in the model) – unreachable anyway
            out.append(('ctor path ends in %s' % ret, False)); return
        sc, fc = v['sc'], v['fc']
        bad_cad = z3.Or(sc < 1, fc < 1, (sc * 1000) % fc != 0) if False else None
        isnull = (not isinstance(ret, Ptr)) or ret.region is None
        touched = any(e[0] == 'handle_metadata' for e in ex.events)
        # cadence rule: on every path that reaches handle_metadata, the rule holds; on paths where it fails, NULL is returned
        q, r = (None, None)
        rule = z3.And(sc >= 1, fc >= 1)
        if touched or not isnull:
            ok = ex.valid(rule)
            if ok:
                qq, rr = ex.udivrem(sc * 1000, fc)
                ok = ex.valid(rr == 0)
            out.append(('ctor: channel touched only if sc>=1, fc>=1, sc*1000 %% fc == 0', ok))
            o = WObj(ex, ex.user['obj_at_md'])
            same = all(ex.valid(o.get(f_) == v[x]) for f_, x in (('subdir_cadence_secs', 'sc'), ('file_cadence_millisecs', 'fc'),
                                                                ('global_start_sample', 'start'), ('sample_rate_numerator', 'n'),
                                                                ('sample_rate_denominator', 'd'), ('num_subchannels', 'nsub')))
            out.append(('ctor: cadences, start, rate, subchannels stored unchanged', same))
            out.append(('ctor: fresh cursor (global_index=0, present_seq=-1, has_failure=0, no file)',
                        all(ex.valid(o.get(f_) == val) for f_, val in (('global_index', 0), ('present_seq', M(32) - 1), ('has_failure', 0),
                                                                        ('dataset_index', 0), ('block_index', 0)))))
            out.append(('ctor: compression 0..9 and num_subchannels >= 1 enforced', ex.valid(z3.And(v['comp'] <= 9, v['nsub'] >= 1, v['nsub'] < 2**31))))
        else:
            out.append(('ctor: rejected path returns NULL without creating/verifying channel properties', isnull and not touched))

    ex = Exec(mod, stubs)
    n = ex.explore('@digital_rf_create_write_hdf5', setup, on_path)
    # completeness: some path accepts (witness) and the rule-violating inputs are all rejected (covered by 'touched only if')
    names = sorted(set(nm for nm, _ in out))
    for nm in names:
        oks = [ok for x, ok in out if x == nm]
        rep.ob(nm, 'discharged' if all(oks) else 'inconclusive', 'sc,fc<2^40 symbolic; float-derived fields havoc', ex.nq, ex.tq, len(oks),
               detail=None if all(oks) else 'fails on %d of %d paths' % (oks.count(False), len(oks)))
    if not any(nm.startswith('ctor: channel touched') for nm in names):
        rep.ob('ctor: accepting path exists (witness)', 'inconclusive', detail='no path reaches handle_metadata')
    return n


def py_ctor_cadence(rep, st):
    """DigitalRFWriter.__init__: the cadence ValueError guards precede the extension call (AST order) and their conditions, read from
    the AST, are equivalent (z3) to  sc>=1 & fc>=1 & sc*1000 % fc == 0  for integer arguments."""
    src = open(os.path.join(build.PYPKG, 'digital_rf_hdf5.py')).read()
    tree = ast.parse(src)
    cls = [x for x in tree.body if isinstance(x, ast.ClassDef) and x.name == 'DigitalRFWriter'][0]
    init = [x for x in cls.body if isinstance(x, ast.FunctionDef) and x.name == '__init__'][0]
    sc, fc = z3.Ints('sc fc')
    env = {'subdir_cadence_secs': sc, 'file_cadence_millisecs': fc, 'self.subdir_cadence_secs': sc, 'self.file_cadence_millisecs': fc}

    def tr(e):
        if isinstance(e, ast.BoolOp):
            xs = [tr(v) for v in e.values]
            return z3.Or(*xs) if isinstance(e.op, ast.Or) else z3.And(*xs)
        if isinstance(e, ast.Compare) and len(e.ops) == 1:
            a, b = tr(e.left), tr(e.comparators[0]); op = e.ops[0]
            return {ast.Lt: lambda: a < b, ast.LtE: lambda: a <= b, ast.Gt: lambda: a > b, ast.GtE: lambda: a >= b,
                    ast.Eq: lambda: a == b, ast.NotEq: lambda: a != b}[type(op)]()
        if isinstance(e, ast.BinOp):
            a, b = tr(e.left), tr(e.right)
            return {ast.Mult: lambda: a * b, ast.Mod: lambda: a % b, ast.Add: lambda: a + b, ast.Sub: lambda: a - b, ast.FloorDiv: lambda: a / b}[type(e.op)]()
        if isinstance(e, ast.Constant) and isinstance(e.value, int): return z3.IntVal(e.value)
        if isinstance(e, ast.Call) and getattr(e.func, 'id', None) == 'int' and len(e.args) == 1: return tr(e.args[0])
        if isinstance(e, (ast.Name, ast.Attribute)):
            k = ast.unparse(e)
            if k in env: return env[k]
        raise ValueError('unsupported: ' + ast.unparse(e))

    guards = []; ext_line = None
    for node in ast.walk(init):
        if isinstance(node, ast.Call) and ast.unparse(node.func) == '_py_rf_write_hdf5.init':
            ext_line = node.lineno
    for node in init.body:
        if isinstance(node, ast.If) and any(isinstance(x, ast.Raise) for x in node.body):
            txt = ast.unparse(node.test)
            if 'cadence' in txt:
                try:
                    guards.append((node.lineno, tr(node.test), txt))
                except ValueError as e:
                    rep.ob('python ctor cadence guard translate', 'inconclusive', detail=str(e)); return
    if not guards or ext_line is None:
        rep.ob('python ctor cadence guards', 'inconclusive', detail='guards/ext call not found'); return
    before = all(ln < ext_line for ln, _, _ in guards)
    reject = z3.Or(*[g for _, g, _ in guards])
    rule = z3.And(sc >= 1, fc >= 1, (sc * 1000) % fc == 0)
    # guards are evaluated in order; later guards assume earlier ones passed (fc >= 1 when the modulus is taken)
    r, m, dt = smt.prove([], reject == z3.Not(rule), (), 60, st)
    if r == 'unsat' and before:
        rep.ob('python ctor: raises ValueError before calling the extension iff not (sc>=1 & fc>=1 & sc*1000 % fc == 0)', 'discharged',
               'all integer sc, fc', 1, dt, 1, sample={'guards': [t for _, _, t in guards]})
    elif r == 'sat':
        s_, f_ = smt.mval(m, sc), smt.mval(m, fc)
        body = ('from vlib import build\nimport tempfile, os, sys, numpy as np, shutil\ndrf = build.load_pkg()\nd = tempfile.mkdtemp(); os.makedirs(d + "/ch")\n'
                'sc, fc = %d, %d\nrule = sc >= 1 and fc >= 1 and (sc * 1000) %% fc == 0\ntry:\n    w = drf.DigitalRFWriter(d + "/ch", "i2", sc, fc, 10**9, 100, 1, "u", marching_periods=False)\n    acc = True; w.close()\n'
                'except ValueError:\n    acc = False\nshutil.rmtree(d)\nprint("accepted", acc, "rule", rule)\nsys.exit(1 if acc != rule else 0)\n') % (s_, f_)
        rep.violation('python ctor cadence rule', 'C04.py.cadence', 'DigitalRFWriter accepts/rejects cadences (%d,%d) against the rule' % (s_, f_), replay_body=body)
    else:
        rep.ob('python ctor cadence rule', 'inconclusive', detail='order=%s solver=%s' % (before, r))


def main(tier):
    rep = common.Report('C04', tier, 'model_checking', functions=FUNCS)
    st = smt.Stats()
    mod = Module(build.c_ir()); stubs = envstubs.mk_stubs()
    rep.extra['source_sha'] = {'rf_write_hdf5.c': build.sha(build.CSRC)}
    rep.assume('gmtime: function of its argument, injective on seconds; calendar breakdown trusted',
               'snprintf modelled from the format string constants found in the IR; buffer sizes not modelled',
               'float-derived fields of the constructor (sample_rate, init_utc_timestamp, max_chunk_size) havoc')
    rate_list = (rates.QUICK_RATES if tier == 'quick' else rates.thorough_rates(60)) + rates.HIGH_RATES
    cad_list = rates.QUICK_CADENCES if tier == 'quick' else rates.thorough_cadences()
    viol_cases = []

    def report(tag, cfg, res, info, ex, t0):
        names = {}
        for nm, r, case, dt in res:
            names.setdefault(nm, []).append((r, case, dt))
        allok = True
        for nm, lst in names.items():
            if all(r == 'unsat' for r, _, _ in lst): continue
            allok = False
            sat = [c for r, c, _ in lst if r == 'sat' and c is not None]
            if sat:
                rep.violation('%s: %s' % (tag, nm), 'C04.kernel.' + nm.split()[0], '%s fails at (n,d,sc,fc,start,gs)=%s' % (nm, sat[0]),
                              replay_body=REPLAY % ([sat[0]],), bounds=tag)
            else:
                rep.ob('%s: %s' % (tag, nm), 'inconclusive', detail='solver unknown')
        return allok, names

    from checks import C03
    if C03.has_own_calendar(mod):
        # the calendar breakdown used for the subdirectory name is the code's own arithmetic: decided here exactly as in C03
        C03.own_calendar_obligation(rep, mod, stubs, st, tier)
    # ---- 0. the two time kernels are replaced by their specifications only if those are re-proved on this IR now
    kp = kernels.prove_time_kernels(mod, stubs, st, 60)
    nk = len(kp['floor']) + len(kp['ceil'])
    if kp['ok']:
        rep.ob('time kernels == their specs on the full domain (gate for using them as summaries)', 'discharged',
               'k<2^63,n<2^32,d<=1e9,n*d<2^64,year<9999; all symbolic', nk, sum(x[3] for x in kp['floor'] + kp['ceil']), 2)
    else:
        bad = [x[0] for x in kp['floor'] + kp['ceil'] if x[1] != 'unsat']
        # the kernels cannot stand in for their specs: decide the layout obligations with the REAL kernels executed inline, per configuration
        found = False; tried = 0; t1 = time.time()
        for (n, d) in [r_ for r_ in rate_list if r_[1] > 1] + [r_ for r_ in rate_list if r_[1] == 1]:
            for (sc, fc) in cad_list:
                if fc * n < 1000 * d or found or time.time() - t1 > (240 if tier == 'quick' else 1800): continue
                cfg = dict(n=n, d=d, sc=sc, fc=fc, tlo=rates.Y1980, thi=rates.Y2100)
                try:
                    res, info, ex = kernel_obligations(mod, stubs, cfg, st, 60, inline=True)
                except Inconclusive:
                    continue
                tried += 1
                ok_, _names = report('rate %d/%d cadence %ds/%dms (kernels inline)' % (n, d, sc, fc), cfg, res, info, ex, t1)
                found = found or bool(rep.violations)
        rep.ob('time kernels == their specs (gate)', 'inconclusive', detail='not proved: %s (see C03); layout decided with the kernels inline for %d configurations' % (bad[:4], tried))
        return rep.finish()
    # ---- 1. everything symbolic (rate, cadences, start, sample): attempted; restricted claim if the solver gives up
    t0 = time.time()
    cfg = dict(n=None, d=None, sc=None, fc=None, tlo=0, thi=rates.Y9999 - 2 * 10**8)
    try:
        res, info, ex = kernel_obligations(mod, stubs, cfg, st, 40 if tier == 'quick' else 240)
        sym_done = [nm for nm, r, _, _ in res if r == 'unsat']; sym_unk = [nm for nm, r, _, _ in res if r == 'unknown']
        for nm, r, case, dt in res:
            if r == 'unsat':
                rep.ob('symbolic rate+cadence: ' + nm, 'discharged', 'n<2^32,d<=1e9,n*d<2^64,sc<=1e8,fc<=1e11,sc*1000%fc==0, time<year 9999; all symbolic', 1, dt, 1, sample={'symbolic_witness': info.get('wit'), 'boundary_witnesses': info.get('bwit')})
            elif r == 'sat' and case is not None:
                rep.violation('symbolic: ' + nm, 'C04.kernel.' + nm.split()[0], '%s fails at (n,d,sc,fc,start,gs)=%s' % (nm, case),
                              replay_body=REPLAY % ([case],))
        rep.extra['symbolic_unknown'] = sym_unk
        if sym_unk:
            rep.ob('symbolic rate+cadence: %d obligations left to the per-configuration twins' % len(sym_unk), 'witness', None, len(sym_unk), 0, 0,
                   detail='NIA unknown for: ' + '; '.join(sym_unk))
    except Inconclusive as e:
        rep.ob('symbolic rate+cadence kernel', 'witness', detail='not decided symbolically (%s); per-configuration twins below' % e)
    part_sym = False
    try:
        pres = partition_lemma(None, st, 40 if tier == 'quick' else 240)
        part_sym = bool(pres) and all(r == 'unsat' for _, r, _, _ in pres)
        for nm, r, case, dt in pres:
            if r == 'unsat': rep.ob('symbolic rate+cadence: ' + nm, 'discharged', 'all rates/cadences, all k1<k2, time<year 9999', 1, dt, 1)
            elif r == 'sat' and case is not None:
                rep.violation('symbolic: ' + nm, 'C04.partition', '%s fails at (n,d,sc,fc,k1,k2)=%s' % (nm, case),
                              replay_body=REPLAY % ([case[:4] + (0, case[4]), case[:4] + (0, case[5])],))
            else:
                rep.ob('symbolic rate+cadence: ' + nm, 'witness', None, 1, dt, 0, detail='NIA unknown; decided per configuration below')
    except Inconclusive as e:
        rep.ob('symbolic partition lemma', 'witness', detail='not decided symbolically (%s); per-configuration twins below' % e)

    # ---- 2. concrete (rate, cadence) twins: linear, complete
    t0 = time.time(); ncfg = 0; q0 = st.queries; all_ok = True; paths = 0; wits = []
    for (n, d) in rate_list:
        for (sc, fc) in cad_list:
            if fc * n < 1000 * d: continue      # fewer than one sample per file: outside the property's configurations
            if rep.violations and time.time() - t0 > 120: continue      # a replay-confirmed violation is reported already: no need to collect more of them
            cfg = dict(n=n, d=d, sc=sc, fc=fc, tlo=rates.Y1980, thi=rates.Y2100)
            try:
                res, info, ex = kernel_obligations(mod, stubs, cfg, st, 120)
            except Inconclusive as e:
                rep.ob('rate %d/%d cadence %d s/%d ms' % (n, d, sc, fc), 'inconclusive', detail=str(e)); all_ok = False; continue
            if not part_sym:
                res = res + partition_lemma((n, d, sc, fc), st, 120)
            ok, names = report('rate %d/%d cadence %ds/%dms' % (n, d, sc, fc), cfg, res, info, ex, t0)
            all_ok &= ok; ncfg += 1; paths += info.get('paths', 0)
            if 'wit' in info: wits.append(info['wit'])
            wits += info.get('bwit', [])
    if all_ok:
        rep.ob('layout kernel == spec (return, subdir second+format, basename, samples_left, max, window, no-wrap) + partition lemma', 'discharged',
               '%d (rate, cadence) configurations x all start/sample with time in [1980,2100)' % ncfg, st.queries - q0, time.time() - t0, paths,
               sample={'configs': [(r_, c_) for r_ in rate_list[:3] for c_ in cad_list[:2]], 'witnesses': wits[:3]})
    # ---- 3. constructors
    try:
        ctor_cadence(mod, stubs, rep, st)
    except Inconclusive as e:
        rep.ob('ctor cadence rule (C)', 'inconclusive', detail=str(e))
    py_ctor_cadence(rep, st)
    # ---- 4. witnesses (incl. file-boundary samples) + seeded cases on the real build
    rng = random.Random(rep.seed + 4)
    cases = wits[:40]
    for _ in range(60 if tier == 'quick' else 600):
        n, d = rng.choice(rate_list); sc, fc = rng.choice(cad_list)
        if fc * n < 1000 * d: continue
        j = rng.randrange(rates.Y1980 * 1000 // fc, rates.Y2100 * 1000 // fc)
        kb = spec.first_of_ms(j * fc, n, d)
        for k in (kb, kb - 1, kb + 1, rng.randrange(rates.Y1980 * n // d, rates.Y2100 * n // d)):
            start = rng.randrange(0, k + 1)
            cases.append((n, d, sc, fc, start, k - start))
    path = rep.write_replay('witness_and_boundary', REPLAY % (cases,))
    ok, outp = rep.run_replay(path)
    if ok is False:
        rep.ob('solver witnesses (incl. first/last sample of a file) + %d seeded boundary cases: real build == spec' % len(cases), 'witness',
               None, 0, 0, 0, sample={'cases': cases[:3]})
        os.remove(path)
    else:
        rep.ob('real-build validation of witnesses', 'inconclusive', detail='replay says %s: %s' % (ok, outp[-400:]))
    rep.outside_claim('calendar arithmetic of gmtime', 'file-open-on-name-change and no-duplicate-index are decided under C01/C05 (write path)')
    return rep.finish()
