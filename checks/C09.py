"""C09 Concurrent reader isolation and monotone visibility -- by reduction, not by schedule exploration.
Free-running two-process schedules are not enumerated.  The property is reduced to obligations under which the schedule does not matter, each
decided by a solver on the real code:
 (i)  publication protocol (C02 P1-P4) on every prefix of every write-path trace: the set of finalized files only grows, each finalized file is
      complete and never touched again, tmp files are never final-named, a finalized name is never created or renamed over;
 (ii) the reader's observations are per-file and independent: _read / _get_bounds / listing tolerate files that vanish or fail to open and
      return exactly the blocks of the files actually opened (CrossHair);
 (iii) tmp. names are outside every reader / lister grammar.
(i)-(iii) give: any reader pass returns Blocks(F) for some F_before <= F <= F_after, monotone in time, complete after close."""
import time
from vlib import common, smt, wrun, chx
from checks import wcommon, C01, C02

FUNCS = C01.FUNCS + ['_top_level_dir_properties._read', '_top_level_dir_properties._get_bounds', 'list_drf._yield_matching_files']
READER = {'_two_files': 'a reader pass opens only files that are readable at that moment, skips vanished ones, returns exactly their blocks',
          '_cache_sequence': 'a long-lived reader: a pass over file names that do not exist (any more / yet) between two reads of a file leaves the second read equal to the first (no stale cached handle)',
          '_appearing_file': 'a long-lived reader sees a file that was not finalized yet when an earlier pass probed it as soon as it exists (monotone visibility: nothing about a failed probe is remembered)',
          '_bounds_scan': 'bounds skip files that vanished or cannot be read yet, never raise',
          '_read_lengths': 'per-file block extraction depends only on that file (index + length)'}
LISTING = {'_listing_fwd_rf_gone1': 'listing tolerates a subdirectory vanishing between the scan and the listing',
           '_listing_rev_rf_gone2': 'reverse listing (used for the upper bound) tolerates a vanishing subdirectory',
           '_listing_fwd_rf_none_stray': "the listing the reader's bounds and file scans are built on never yields the tmp. file a concurrent writer has open",
           '_listing_rev_rf_none_stray': "reverse listing (upper bound): never yields the tmp. file a concurrent writer has open"}


def main(tier):
    rep = common.Report('C09', tier, 'other', functions=FUNCS)
    st = smt.Stats()
    rep.assume('rename is atomic and a file is complete once H5Fclose returned (the writer closes before it renames: C02)',
               'reduction: with (i)-(iii) every interleaving of reader queries with writer operations observes a prefix-closed, growing set of complete files')
    rep.outside_claim('free-running two-process schedules are not explored; the claim is the reduction argument plus its solver-decided premises')
    if not wcommon.gate(rep, st): return rep.finish()
    specs = [s for s in wcommon.valid_specs(tier) if ('2 calls' in s['name'] or '3 calls' in s['name'] or 'then 1 block' in s['name']) and 'regular' not in s['name']] + wcommon.session_specs(tier)[:2]
    t0 = time.time()
    results = wrun.run_all(specs)
    keep = C02.KEEP + ('a data file is created only if its final name does not exist', 'a tmp file is renamed only onto', 'the existing finalized file is neither')
    tot = wcommon.report(rep, specs, results, lambda nm: nm.startswith(keep))
    rep.ob('(i) publication protocol on every prefix of %d write-path configurations' % len(specs), 'witness', None, tot['q'], tot['s'], tot['paths'])
    T = 150 if tier == 'quick' else 900
    from checks import readerside
    chx.report(rep, chx.run_module('reader', names=list(READER), per_condition_timeout=T), {k: '(ii) ' + v for k, v in READER.items()},
               replays=readerside.READ_REPLAYS, sigs={k: 'C09.reader.' + k.strip('_') for k in READER})
    from checks import C14
    lrep = {}
    for nm_ in LISTING:
        parts = nm_.split('_')      # _listing_<dir>_rf_<none|goneN>[_stray]
        g_ = -1 if parts[4] == 'none' else int(parts[4][4:])
        lrep[nm_] = (lambda g2, r2, st2: (lambda kw: C14.REPLAY_LISTING % (dict(kw, kind=0, gone=g2, stray=st2), r2)))(g_, parts[2] == 'rev', nm_.endswith('_stray'))
    chx.report(rep, chx.run_module('listing', names=list(LISTING), per_condition_timeout=900 if tier == 'quick' else 2400), {k: '(ii) ' + v for k, v in LISTING.items()},
               replays=lrep, sigs={k: 'C09.listing.' + k.strip('_') for k in LISTING})
    C02.grammar_p5(rep, st)
    rep.extra['explanation'] = 'reduction of schedule quantification to per-file protocol + per-file reader independence; see module docstring'
    return rep.finish()
