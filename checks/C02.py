"""C02 Kill-safe publication of data files (protocol level).
A kill is the death of the process between two operations of the writer; the writer's operations are the stub events of the E-LL run, so
every crash point of every path is a prefix of a recorded trace.  Obligations decided by z3 on every path of the write-path histories:
P1 a data file comes into existence only under dir/<subdir>/tmp.<name> (exclusive create, after the final name was seen absent);
P2 it is renamed tmp.X -> X exactly once, after all its handles and the file are closed, and never touched again;
P3 (content) = C01/C06 obligations;  P4 after close no tmp file created by this writer is left;
P5 'tmp.' names are outside every reader/lister/watcher grammar (z3 regex emptiness), reader candidate names start with 'rf@'.
The channel properties file is NOT staged (known finding).  A real writer run under strace validates the event model."""
import os, re, subprocess, sys, tempfile, time, shutil
import z3
from vlib import build, common, smt, wrun, rx, chload, envstubs
from vlib.llsym import Module, Exec
from vlib.wobj import WObj
from checks import wcommon, C01

FUNCS = C01.FUNCS + ['digital_rf_handle_metadata', 'list_drf RE_* / watchdog regexes (tmp exclusion)']
KEEP = ('no C assert', 'event trace is well formed', 'data file is created exclusively', 'a file is renamed tmp.X', "after close no 'tmp.'",
        'close releases the open file', 'no two files of the session')

STRACE_PROG = '''
import sys; sys.path.insert(0, %r)
from vlib import build, refmodel
cfg = dict(n=10, d=1, sc=2, fc=1000, start=10**10, cont=0, chunk=1)
import os
rw = refmodel.RealWriter(build, sys.argv[1], cfg['n'], cfg['d'], cfg['sc'], cfg['fc'], cfg['start'], cfg['cont'])
import numpy as np
for g in (0, 7, 25):
    rw.write_blocks([g], [0], np.arange(6, dtype=np.int16).reshape(-1, 1))
rw.close()
'''


def props_staging(rep):
    """digital_rf_handle_metadata create branch: is drf_properties.h5 created under its final name with writes before the close?"""
    mod = Module(build.c_ir()); stubs = envstubs.mk_stubs()
    ex = Exec(mod, stubs); found = []
    def setup(e):
        o = WObj(e); o.fresh_open_state(10, 1, 2, 1000, z3.Int('start'), 0, 1)
        e.user['fs_init'] = lambda e_, s: False
        return [o.ptr]
    def on_path(e, status, ret):
        fc = [x for x in e.events if x[0] == 'H5Fcreate']
        if fc:
            name = fc[0][1]
            lit = ''.join(p for p in name.parts if isinstance(p, str))
            aw = [i for i, x in enumerate(e.events) if x[0] == 'H5Awrite']
            cl = [i for i, x in enumerate(e.events) if x[0] == 'H5Fclose']
            ren = [x for x in e.events if x[0] == 'rename']
            found.append((lit, len(aw), bool(cl) and bool(aw) and min(aw) < max(cl), bool(ren)))
    try:
        ex.explore('@digital_rf_handle_metadata', setup, on_path)
    except Exception as e:
        rep.ob('channel properties file publication', 'inconclusive', detail=str(e)[:200]); return
    unstaged = [f for f in found if not f[0].rsplit('/', 1)[-1].startswith('tmp.') and f[1] > 0 and not f[3]]
    if not found:
        rep.ob('channel properties file publication', 'inconclusive', detail='create branch not reached'); return
    if not unstaged:
        rep.ob('the channel properties file is staged under a tmp. name and renamed after it is closed', 'discharged', 'create branch of digital_rf_handle_metadata', ex.nq, ex.tq, len(found))
        return
    body = ('from vlib import build, refmodel\nimport subprocess, sys, tempfile, os, shutil, re\n'
            'top = tempfile.mkdtemp(); ch = os.path.join(top, "ch"); os.makedirs(ch)\n'
            'prog = os.path.join(top, "p.py"); open(prog, "w").write(%r)\n'
            'build.clib()\n'
            'out = os.path.join(top, "trace")\n'
            'subprocess.run(["strace", "-f", "-e", "trace=openat,rename,renameat,renameat2", "-o", out, sys.executable, prog, ch], env=dict(os.environ, VERIF_SCRATCH_BASE=top), stdout=subprocess.DEVNULL, stderr=subprocess.DEVNULL)\n'
            'tr = open(out).read()\n'
            'created = re.findall(r\'openat\\([^,]+, "([^"]*drf_properties\\.h5)", [^)]*O_CREAT\', tr)\n'
            'renamed = re.findall(r\'rename[a-z0-9]*\\(.*"([^"]*drf_properties\\.h5)"\\)\', tr)\n'
            'print("created directly:", created, "renamed into place:", renamed)\n'
            'shutil.rmtree(top)\nsys.exit(1 if created and not renamed else 0)\n') % (STRACE_PROG % (common.VERIF,),)
    rep.violation('the channel properties file is staged under a tmp. name and renamed after it is closed', 'C02.P1.properties_file_not_staged',
                  'digital_rf_handle_metadata creates %s under its final name and writes %d attributes before closing it: a kill in between leaves a '
                  'final-named, incomplete properties file' % (os.path.basename(unstaged[0][0]), unstaged[0][1]), replay_body=body,
                  queries=ex.nq, solver_s=ex.tq, paths=len(found), sample={'create': unstaged[0][0], 'attribute_writes_before_close': unstaged[0][1]})


def grammar_p5(rep, st):
    drf = chload.load()
    from digital_rf import list_drf as L, watchdog_drf as W
    tmp = z3.Concat(z3.Re('tmp.'), rx.SIGSTAR)
    langs = [('list_drf.%s' % n, rx.match_lang(getattr(L, n).pattern, getattr(L, n).flags)) for n in ('_RE_FILE', '_RE_DRFFILE', '_RE_DMDFILE')]
    ok = True
    for nm, lg in langs:
        r, w = rx.empty(z3.Intersect(lg, tmp), 60, st)
        if r != 'unsat': ok = False
    comp = z3.Plus(z3.Intersect(rx.ANYCHAR, z3.Complement(z3.Union(z3.Re('/'), rx.NL))))
    wl = z3.Union(*[rx.match_lang(r_.pattern, r_.flags) for r_ in W.DigitalRFEventHandler().regexes])
    r, w = rx.empty(z3.Intersect(wl, z3.Concat(z3.Re('/w/ch0/'), comp, z3.Re('/tmp.'), z3.Star(z3.Intersect(rx.ANYCHAR, z3.Complement(z3.Re('/')))))), 60, st)
    if r != 'unsat': ok = False
    rep.ob("P5: no reader / lister / watcher grammar accepts a 'tmp.'-prefixed file name", 'discharged' if ok else 'inconclusive', 'all names', 4, 0, 4,
           detail=None if ok else 'a tmp. name is accepted (see C14/C15 for the witness)')


STRACE_REPLAY = '''
# a real 3-call recording under strace: the publication protocol is checked on the syscall trace (a kill between any two of these
# syscalls leaves what the trace shows at that point)
from vlib import build, common
import os, re, shutil, subprocess, sys, tempfile
top = tempfile.mkdtemp(prefix='drfstrace-'); ch = os.path.join(top, 'ch'); os.makedirs(ch)
prog = os.path.join(top, 'p.py'); open(prog, 'w').write(%r %% (common.VERIF,))
out = os.path.join(top, 'trace')
build.clib()
problems = []
for cont in ('0', '1'):
    shutil.rmtree(ch, ignore_errors=True); os.makedirs(ch)
    r = subprocess.run(['strace', '-f', '-e', 'trace=openat,rename,renameat,renameat2,close,unlink,mkdir', '-o', out, sys.executable, prog, ch, cont],
                       env=dict(os.environ, VERIF_SCRATCH_BASE=top), stdout=subprocess.DEVNULL, stderr=subprocess.PIPE, text=True, timeout=300)
    tr = open(out).read() if os.path.exists(out) else ''
    fds = {}; renames = 0; creates = 0
    for ln in tr.splitlines():
        m = re.search(r'openat\\([^,]+, "([^"]+)", ([^)]*)\\)\\s+= (\\d+)', ln)
        if m and ch in m.group(1) and 'O_CREAT' in m.group(2):
            base = os.path.basename(m.group(1)); creates += 1
            if not base.startswith('tmp.'): problems.append('created under final name: ' + base)
            if 'O_EXCL' not in m.group(2) and base.startswith('tmp.rf@'): problems.append('data file created without O_EXCL: ' + base)
            fds[m.group(3)] = m.group(1)
            continue
        m = re.search(r'close\\((\\d+)\\)', ln)
        if m and m.group(1) in fds: fds.pop(m.group(1)); continue
        m = re.search(r'rename[a-z0-9]*\\((?:[^,"]+, )?"([^"]+)", (?:[^,"]+, )?"([^"]+)"', ln)
        if m and ch in m.group(1):
            renames += 1
            a, b = m.group(1), m.group(2)
            if os.path.basename(a) != 'tmp.' + os.path.basename(b) or os.path.dirname(a) != os.path.dirname(b): problems.append('rename %%s -> %%s' %% (a, b))
            if a in fds.values(): problems.append('renamed while still open (a kill now leaves an incomplete file under its final name): ' + os.path.basename(a))
    left = [f for d_, _, fs in os.walk(ch) for f in fs if f.startswith('tmp.')]
    if left: problems.append('tmp file left after close: %%s' %% left[:2])
    if renames < 3 or creates < 4: problems.append('trace incomplete (%%d creates, %%d renames): %%s' %% (creates, renames, r.stderr[-200:])); print('\\n'.join(problems)); shutil.rmtree(top, ignore_errors=True); sys.exit(3)
    print('cont=%%s: %%d creates, %%d renames' %% (cont, creates, renames))
shutil.rmtree(top, ignore_errors=True)
for p_ in problems: print('PROBLEM:', p_)
sys.exit(1 if problems else 0)
''' % (STRACE_PROG.replace("cfg['cont'])", "int(sys.argv[2]))"),)


def strace_validation(rep):
    """run real recordings under strace and check the protocol on the syscall trace (validates the event model / stubs)"""
    path = rep.write_replay('strace_protocol', STRACE_REPLAY)
    ok, out = rep.run_replay(path, timeout=600)
    title = 'real writer under strace (gapped and continuous): files are created only as tmp.* (O_EXCL), closed before rename tmp.X -> X in the same directory, no tmp file left after close'
    if ok is False:
        rep.ob(title, 'witness', None, 0, 0, 1, detail=out.strip().replace(chr(10), '; ')[-160:]); os.remove(path)
    elif ok is True:
        rep.violation(title, 'C02.strace.protocol', out.strip()[-400:], replay_body=STRACE_REPLAY)
    else:
        rep.ob(title, 'inconclusive', detail=out[-300:])


def main(tier):
    rep = common.Report('C02', tier, 'model_checking', functions=FUNCS)
    st = smt.Stats()
    rep.assume('a kill is the death of the process between two HDF5 / libc calls of the writer; the page cache is not lost',
               'HDF5 writes only to the file it was asked to create and the file is complete once H5Fclose returned; rename is atomic',
               'environment stubs of vlib/envstubs.py; fresh channel; no I/O faults (C10)')
    rep.outside_claim("the order of HDF5's own syscalls inside one library call (they only touch the tmp. file)", 'index_len > 3, > 3 files per call, > 3 calls')
    if not wcommon.gate(rep, st): return rep.finish()
    specs = wcommon.valid_specs(tier) + [s_ for s_ in wcommon.session_specs(tier) if s_.get('stale_tmp')]
    t0 = time.time()
    results = wrun.run_all(specs)
    tot = wcommon.report(rep, specs, results, lambda nm: nm.startswith(KEEP + ('only files this writer created and closed', 'a tmp file is renamed only onto')))
    rep.extra['write_path'] = dict(configurations=len(specs), paths=tot['paths'], queries=tot['q'], solver_s=round(tot['s'], 1), wall_s=round(time.time() - t0, 1))
    rep.ob('write path explored: every prefix of every recorded trace is a crash point', 'witness', '%d configurations' % len(specs), tot['q'], tot['s'], tot['paths'])
    grammar_p5(rep, st)
    props_staging(rep)
    strace_validation(rep)
    return rep.finish()
