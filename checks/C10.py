"""C10 I/O fault containment in the writer (library-call granularity).
E-LL in fault mode: every fallible stub (mkdir, H5Fcreate, H5Dcreate2, H5Dset_extent, H5Dwrite x2 sites, H5Dclose, H5Fclose, rename, remove)
returns a symbolic status under two single-fault schedules (one call fails once / every call from a point on fails); the fault position is
a solver variable.  Counterexamples are replayed on the real build with an LD_PRELOAD fault injector (vlib/native/faultfs.c)."""
import os, time
from vlib import common, smt, wrun, build
from checks import wcommon, C01

FUNCS = C01.FUNCS

REPLAY = '''
from vlib import build, common
import os, subprocess, sys, tempfile, shutil, glob, re
import h5py
top = tempfile.mkdtemp(prefix='drffault-')
so = os.path.join(top, 'faultfs.so')
subprocess.check_call(['gcc', '-shared', '-fPIC', '-O1', os.path.join(common.VERIF, 'vlib/native/faultfs.c'), '-o', so, '-ldl'])
prog = os.path.join(top, 'rec.py')
open(prog, 'w').write("""
import sys, os; sys.path.insert(0, %%r)
from vlib import build, refmodel
import numpy as np
N = int(sys.argv[3])          # samples per call == samples per file (N = 10: everything stays in HDF5's caches until close; N large: H5Dwrite reaches the OS directly)
rw = refmodel.RealWriter(build, sys.argv[1], N, 1, 3600, 1000, 10**10, int(sys.argv[2]))
rets = []
for g in (0, N, 2 * N):
    rets.append(rw.write_blocks([g], [0], ((np.arange(N, dtype=np.int64) + g) %%%% 30000).astype(np.int16).reshape(-1, 1)))
rw.close()
print('RETS', rets)
""" %% common.VERIF)
build.clib()
kinds = %r
bad = 0
import numpy as np
for N in (10, 300000):
  for cont in (0, 1):
    for op in (kinds if N == 10 else [k for k in kinds if k == 'write']):
        for after in range(0, 17 if N == 10 else 12):
            for persist in (0, 1):
                ch = os.path.join(top, 'ch'); shutil.rmtree(ch, ignore_errors=True); os.makedirs(ch)
                env = dict(os.environ, LD_PRELOAD=so, FAULTFS_MATCH='rf@', FAULTFS_OP=op, FAULTFS_AFTER=str(after), FAULTFS_PERSIST=str(persist), VERIF_SCRATCH_BASE=top)
                r = subprocess.run([sys.executable, prog, ch, str(cont), str(N)], env=env, stdout=subprocess.PIPE, stderr=subprocess.DEVNULL, text=True)
                m = re.search(r'RETS \\[(.*)\\]', r.stdout)
                if not m: continue          # the recorder died (e.g. fault during channel creation): nothing was acknowledged
                rets = [int(x) for x in m.group(1).split(',')]
                tag = 'N=%%d op=%%s after=%%d persist=%%d cont=%%d' %% (N, op, after, persist, cont)
                readable = np.zeros(3 * N, dtype=bool)
                for f in glob.glob(os.path.join(ch, '*', 'rf@*.h5')):
                    try:
                        with h5py.File(f, 'r') as h:
                            idx = h['rf_data_index'][...]; d = h['rf_data'][...][:, 0].astype(np.int64)
                        for (s_, o), nxt in zip(idx, list(idx[1:, 1]) + [d.shape[0]]):
                            rel = int(s_) - 10**10 + np.arange(int(nxt) - int(o))
                            v = d[int(o):int(nxt)]
                            ok = (v == rel %% 30000)
                            if not np.all(ok | (v == -32768)): print(tag + ': WRONG VALUE in', f); bad = 1
                            inr = (rel >= 0) & (rel < 3 * N)
                            readable[rel[inr & ok]] = True
                    except Exception as e:
                        print(tag + ': published file %%s is unreadable (%%s); returns %%s' %% (os.path.basename(f), type(e).__name__, rets)); bad = 1
                for i, rv in enumerate(rets):
                    if rv == 0:
                        if not readable[i * N:(i + 1) * N].all() and all(x == 0 for x in rets[i:i + 2]) and i + 1 < len(rets):
                            print(tag + ': call %%d accepted, its samples are not readable, and the next call reported no error: %%s' %% (i, rets)); bad = 1
                first_fail = next((j for j, x in enumerate(rets) if x != 0), None)
                if first_fail is not None and any(x == 0 for x in rets[first_fail + 1:]):
                    print(tag + ': a write was accepted after a reported I/O failure: %%s' %% (rets,)); bad = 1
shutil.rmtree(top, ignore_errors=True)
sys.exit(1 if bad else 0)
'''

KIND_TO_OP = {'mkdir': ['mkdir'], 'rename': ['rename'], 'remove': ['write']}


def main(tier):
    rep = common.Report('C10', tier, 'fault_enumeration', functions=FUNCS)
    st = smt.Stats()
    rep.assume('an OS-level failure surfaces as the failure of some HDF5 / libc call made by the writer (HDF5 defers most I/O to close, which is why the '
               'close calls are fault points)', 'environment stubs; fresh channel', 'single-fault schedules: one call fails once, or every fallible call from one point on fails')
    rep.outside_claim('faults that HDF5 swallows', 'faults during channel creation (digital_rf_create_write_hdf5)', 'more than 2 (thorough: 3) calls per history')
    if not wcommon.gate(rep, st): return rep.finish()
    specs = wcommon.fault_specs(tier)
    t0 = time.time()
    results = wrun.run_all(specs)
    # fold results: violations carry their own signature and need the fault-injection replay
    by_ob = {}; tot = dict(paths=0, q=0, s=0.0)
    for sp, r in zip(specs, results):
        tot['paths'] += r['paths']; tot['q'] += r['queries']; tot['s'] += r['solver_s']
        if r['error']: rep.ob('fault configuration "%s" explored completely' % sp['name'], 'inconclusive', detail=r['error'][-300:])
        for nm, (v, m) in r['results'].items():
            by_ob.setdefault(nm, []).append((sp, v, m, r['counts'].get(nm, 0)))
    for nm, lst in sorted(by_ob.items()):
        bad = [(sp, v, m) for sp, v, m, _ in lst if v != 'unsat']
        n = sum(c for _, _, _, c in lst)
        if not bad:
            rep.ob(nm, 'discharged', '%d configurations (3 modes x 2 schedules; fault position symbolic over every fallible call)' % len(lst), 0, 0, n,
                   sample={'obligation': nm, 'configurations': [sp['name'] for sp, _, _, _ in lst][:3]})
            continue
        sp, v, m = bad[0]
        sig = (m or {}).get('sig', 'C10.' + nm[:30]) if isinstance(m, dict) else 'C10.' + nm[:30]
        kind = (m or {}).get('fault', 'write') if isinstance(m, dict) else 'write'
        ops = KIND_TO_OP.get(kind, ['write'])
        rep.violation(nm, sig, 'fails in "%s" with a fault in %s: %s' % (sp['name'], kind, str((m or {}).get('model'))[:300]),
                      replay_body=REPLAY % (ops,), bounds=sp['name'], sample={'fault': kind, 'model': (m or {}).get('model') if isinstance(m, dict) else m})
    rep.extra['write_path'] = dict(configurations=len(specs), paths=tot['paths'], queries=tot['q'], solver_s=round(tot['s'], 1), wall_s=round(time.time() - t0, 1))
    rep.ob('fault schedules explored', 'witness', '%d configurations' % len(specs), tot['q'], tot['s'], tot['paths'],
           sample={'schedules': ['one call fails once', 'every call from a point on fails'], 'fault_points': ['mkdir', 'H5Fcreate', 'H5Dcreate2', 'H5Dset_extent', 'H5Dwrite (data)', 'H5Dwrite (index)', 'H5Dclose', 'H5Fclose', 'rename', 'remove']})
    # validation of the fault model on the real build: sweep of injected OS faults (write / rename / mkdir) over a 3-call recording
    path = rep.write_replay('fault_sweep_validation', REPLAY % (['write', 'rename', 'mkdir'],))
    ok, out = rep.run_replay(path, timeout=900)
    if ok is False:
        rep.ob('real build under injected OS faults (write / rename / mkdir failing at each position, once or persistently; 3-call recordings, gapped and continuous): '
               'no unreadable or wrong file is published and no accepted sample is lost silently', 'witness', None, 0, 0, 1)
        os.remove(path)
    elif ok is True:
        rep.violation('real build under injected OS faults', 'C10.real_sweep', out[-400:], reproduced=True)
    else:
        rep.ob('real build under injected OS faults', 'inconclusive', detail=out[-300:])
    return rep.finish()
