"""C05 Write-once, forward-only recording with atomic rejection.
E-LL: W0 (reject <=> Malformed) + whole C write path with ARBITRARY block arrays after zero or one accepted call; the Python pre-validation
is decided in checks/pylayer.py (guards read from the real rf_write / rf_write_blocks)."""
import time
from vlib import common, smt, wrun
from checks import wcommon, C01

FUNCS = C01.FUNCS + ['DigitalRFWriter.rf_write / rf_write_blocks (python pre-validation)']
W0_SELECT = ('rejected call returns NULL', 'rows_to_write == -1', 'Malformed(')


def main(tier):
    rep = common.Report('C05', tier, 'model_checking', functions=FUNCS)
    st = smt.Stats()
    rep.assume('environment stubs of vlib/envstubs.py; fresh channel; no I/O faults (C10)',
               'the C code is deterministic in (object state, arguments, environment answers): unchanged state => later calls behave as if the '
               'rejected call had never been made',
               'chunk_size may be fixed by a rejected first call; it is not among the observable items of the property and is excluded')
    rep.outside_claim('index_len > 3 (quick: > 2 after a prior call)', 'the private extension module called directly (not part of the property)')
    if not wcommon.gate(rep, st): return rep.finish()
    C01.w0_part(rep, st, tier, select=lambda nm: nm.startswith(W0_SELECT) or nm.startswith('no C assert'))
    specs = wcommon.reject_specs(tier)
    t0 = time.time()
    results = wrun.run_all(specs)
    keep = ('no C assert', 'rejected (non-zero return) only if', 'a rejected call', 'a malformed call is never accepted', 'a zero-length call',
            'return value is determined', 'next-sample cursor', 'representation invariant Inv_W')
    tot = wcommon.report(rep, specs, results, lambda nm: nm.startswith(keep), label='rejection')
    rep.extra['write_path'] = dict(configurations=len(specs), paths=tot['paths'], queries=tot['q'], solver_s=round(tot['s'], 1), wall_s=round(time.time() - t0, 1),
                                   per_config=[(r['name'], r['paths'], round(r['wall'], 1)) for r in results])
    rep.ob('rejection histories explored', 'witness', '%d configurations' % len(specs), tot['q'], tot['s'], tot['paths'])
    from checks import pylayer
    pylayer.c05_part(rep, st, tier)
    return rep.finish()
