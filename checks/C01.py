"""C01 RF write/read round-trip fidelity (compositional):
  W0  digital_rf_create_rf_data_index / digital_rf_get_global_sample == CutSpec          (E-LL, every argument symbolic)
  W1  the whole C write path over call histories: each sample lands exactly once, in the file of its window, at a row the file's
      index maps back to its index                                                         (E-LL over an abstract HDF5/POSIX env)
  N1  reader candidate file list contains the file of every sample of the range           (see checks/readerside.py)
  R1  per-file block extraction == Blocks(Sem(index))                                     (CrossHair on the real _read)
  R2  cross-file merge == maximal merge of adjacent blocks                                 (CrossHair on the real _combine_blocks)
  X   solver witnesses replayed on the real build: writer (C API) -> files -> real reader == reference model
"""
import time
from vlib import build, common, smt, envstubs, w0, wrun
from vlib.llsym import Module
from checks import wcommon

SELECT = ('no C assert', 'event trace is well formed', 'a valid call on a healthy writer returns 0', 'every vector position is written exactly once',
          'sample at vector position j lands', 'representation invariant Inv_W')

FUNCS = ['digital_rf_write_hdf5', 'digital_rf_write_blocks_hdf5', 'digital_rf_write_samples_to_file', 'digital_rf_create_rf_data_index',
         'digital_rf_get_global_sample', 'digital_rf_create_hdf5_file', 'digital_rf_write_rf_data_index', 'digital_rf_extend_dataset',
         'digital_rf_write_metadata', 'digital_rf_close_hdf5_file', 'digital_rf_close_write_hdf5', 'digital_rf_create_new_directory',
         'digital_rf_get_subdir_file (by its C04-proved specification)']


def w0_part(rep, st, tier, select=None):
    mod = Module(build.c_ir()); stubs = envstubs.mk_stubs()
    ok = True
    for L in ((1, 2, 3) if tier == 'quick' else (1, 2, 3, 4)):
        try:
            r = w0.run(mod, stubs, L, st)
        except Exception as e:
            rep.ob('W0 index_len=%d' % L, 'inconclusive', detail=str(e)[:300]); ok = False; continue
        for nm, v, m in r['results']:
            if select and not select(nm): continue
            name = 'W0[index_len=%d] %s' % (L, nm)
            if v == 'unsat':
                rep.ob(name, 'discharged', 'all 12 arguments + 4 object fields symbolic (< 2^40)', r['queries'], r['solver_s'], r['paths'],
                       sample={'obligation': nm, 'index_len': L, 'witness': r['witness']})
            elif v == 'sat':
                ok = False
                body = W0_REPLAY % (m,)
                sig = 'C06.W0.dangling_row_at_next_file_start' if 'signature' in nm else 'W0.' + nm[:40]
                rep.violation(name, sig, 'create_rf_data_index deviates from CutSpec at %s' % (m,), replay_body=body, bounds='index_len=%d' % L, sample=m)
            else:
                ok = False; rep.ob(name, 'inconclusive', detail='solver unknown')
    return ok


W0_REPLAY = '''
from vlib import build
import ctypes, subprocess, os, tempfile, shutil, sys
m = %r
lib = build.clib()
d = tempfile.mkdtemp()
src = os.path.join(d, 'off.c')
open(src, 'w').write('#include <stddef.h>\\n#include <stdio.h>\\n#include "digital_rf.h"\\nint main(){printf("%%zu %%zu %%zu %%zu %%zu\\\\n", sizeof(Digital_rf_write_object), offsetof(Digital_rf_write_object, global_index), offsetof(Digital_rf_write_object, global_start_sample), offsetof(Digital_rf_write_object, needs_chunking), offsetof(Digital_rf_write_object, is_continuous));return 0;}')
subprocess.check_call(['gcc', '-I' + build.CINC, '-I' + build.H5INC, src, '-o', os.path.join(d, 'off')])
size, o_gi, o_gs, o_ch, o_co = map(int, subprocess.check_output([os.path.join(d, 'off')]).split()); shutil.rmtree(d)
u64 = ctypes.c_uint64
buf = ctypes.create_string_buffer(size)
for off, v, ty in ((o_gi, m['gidx'], u64), (o_gs, m['gstart'], u64), (o_ch, m['chunk'], ctypes.c_int), (o_co, m['cont'], ctypes.c_int)):
    ctypes.memmove(ctypes.addressof(buf) + off, ctypes.byref(ty(v)), ctypes.sizeof(ty))
L = len(m['g']); G = (u64 * L)(*m['g']); B = (u64 * L)(*m['b'])
lib.digital_rf_get_global_sample.restype = u64
nxt = lib.digital_rf_get_global_sample(u64(m['sw']), G, B, u64(L))
rows = ctypes.c_int(); stw = u64()
lib.digital_rf_create_rf_data_index.restype = ctypes.POINTER(u64)
ret = lib.digital_rf_create_rf_data_index(buf, u64(m['sw']), u64(m['left']), u64(m['maxf']), G, B, u64(L), u64(m['vlen']), u64(nxt), ctypes.byref(rows), ctypes.byref(stw), ctypes.c_int(m['fex']))
g, b, V, sw = m['g'], m['b'], m['vlen'], m['sw']
mal = (sw == 0 and g[0] < m['gidx']) or any(b[i] >= V or (i > 0 and (b[i-1] >= b[i] or g[i-1] >= g[i] or b[i]-b[i-1] > g[i]-g[i-1])) for i in range(L))
def pos(j):
    i = max(x for x in range(L) if b[x] <= j); return g[i] + j - b[i]
bad = 0
if mal:
    print('malformed input; rows_to_write =', rows.value); bad = rows.value != -1
elif rows.value == -1:
    print('well-formed input rejected'); bad = 1
else:
    last = nxt + m['left']
    want_stw = sum(1 for j in range(sw, min(V, sw + m['left'] + 1)) if pos(j) < last) if V - sw < 10**6 else None
    want_rows = []
    if (not m['fex']) or m['chunk']:
        want_rows.append(((nxt + m['gstart'] - ((m['maxf'] - m['left']) if (m['cont'] and not m['chunk']) else 0)) %% 2**64, 0))
    if want_stw is not None:
        want_rows += [(g[i] + m['gstart'], b[i] - sw) for i in range(1, L) if sw < b[i] < sw + want_stw]
        got_rows = [(ret[2*i], ret[2*i+1]) for i in range(rows.value)]
        print('samples_to_write', stw.value, 'want', want_stw, 'rows', got_rows, 'want', want_rows)
        bad = stw.value != want_stw or got_rows != want_rows
    else:
        print('vector too long for the concrete oracle'); bad = 0
sys.exit(1 if bad else 0)
'''


REPLAY_DTYPE = '''
# element representation: a writer for the given dtype cell, fed through the given input form, must read back the values written
from vlib import build
import numpy as np, tempfile, os, shutil, sys, warnings
warnings.simplefilter('ignore')
drf = build.load_pkg()
kw = %r
KINDS = ['i', 'u', 'f', 'c']
k = KINDS[kw.get('kind', 0)]; size = kw.get('size', 2); order = '<>='[kw.get('order', 0)]; form = kw.get('form', 0); ic = bool(kw.get('is_complex', False)); inp = kw.get('inp', 0)
base = np.dtype(order + k + str(size))
dt = np.dtype([('r', base), ('i', base)]) if (form == 1 and k != 'c') else base
comp = np.dtype('f%%d' %% (size // 2)) if k == 'c' else np.dtype(k + str(size))
cplx = k == 'c' or form == 1 or ic
d = tempfile.mkdtemp(); os.makedirs(d + '/ch')
w = drf.DigitalRFWriter(d + '/ch', dt, 3600, 1000, 10**10, 10, 1, 'u', is_complex=ic, is_continuous=True, marching_periods=False)
N = 6
re_ = (np.arange(N) + 1).astype(comp); im_ = (np.arange(N) + 11).astype(comp)
if inp == 0:
    if cplx:
        if comp.kind != 'f' or comp.itemsize > 16: print('no native complex type for this cell'); shutil.rmtree(d); sys.exit(0)
        a = (re_.astype('f16' if comp.itemsize == 16 else 'f8') + 1j * im_).astype('c%%d' %% (2 * comp.itemsize))
    else: a = re_
elif inp == 1:
    if not cplx: shutil.rmtree(d); sys.exit(0)
    a = np.zeros(N, dtype=[('r', comp), ('i', comp)]); a['r'] = re_; a['i'] = im_
else:
    if cplx:
        a = np.zeros(2 * N, dtype=comp); a[0::2] = re_; a[1::2] = im_
    else: a = re_
bad = 0
try:
    w.rf_write(a); w.close()
    out = drf.DigitalRFReader(d).read_vector_raw(10**10, N, 'ch')
    if cplx:
        gr = out['r'] if out.dtype.names else out.real; gi = out['i'] if out.dtype.names else out.imag
        ok = np.array_equal(np.asarray(gr, dtype=comp.newbyteorder('=')), re_) and np.array_equal(np.asarray(gi, dtype=comp.newbyteorder('=')), im_)
    else:
        ok = np.array_equal(np.asarray(out, dtype=comp.newbyteorder('=')), re_)
    print('writer dtype', dt, 'complex' if cplx else 'real', 'input form', inp, '-> read back', out.dtype, out[:2], 'OK' if ok else 'DIFFERENT FROM WHAT WAS WRITTEN')
    bad = not ok
except Exception as e:
    print('raised', type(e).__name__, e); bad = 1
shutil.rmtree(d)
sys.exit(1 if bad else 0)
'''


def dtype_part(rep, st, tier):
    """python layer of the element representation: DigitalRFWriter.__init__ + _cast_input_array executed by CrossHair over every dtype
    descriptor, numpy replaced by a descriptor-level stand-in that is compared with real numpy here first"""
    import numpy as np, sys as _sys
    from vlib import chx
    from checks.ch import dtype as D
    diffs = []
    for k in D.KINDS:
        for size in D.VALID[k]:
            for o in '<>=':
                try: real = np.dtype(o + k + str(size))
                except TypeError: continue
                f = D.FDType(k, size, o)
                if (f.kind, f.itemsize, f.byteorder) != (real.kind, real.itemsize, real.byteorder): diffs.append((k, size, o, 'attributes'))
                s_real = np.dtype([('r', real), ('i', real)]); s_f = D.FNP.dtype([('r', f), ('i', f)])
                if s_real.names != s_f.names or s_real.itemsize != s_f.itemsize or s_real['r'].byteorder != s_f['r'].byteorder: diffs.append((k, size, o, 'struct'))
                for m, mf in ((np.complexfloating, D.FNP.complexfloating), (np.floating, D.FNP.floating)):
                    if bool(np.issubdtype(real, m)) != bool(D.FNP.issubdtype(f, mf)): diffs.append((k, size, o, 'issubdtype'))
                for no in '<>=S':
                    r2 = real.newbyteorder(no); f2 = f.newbyteorder(no)
                    if r2.byteorder != f2.byteorder: diffs.append((k, size, o, 'newbyteorder ' + no))
    for txt in ('f4', 'c8', 'c16', 'f2', 'c32', 'f16'):
        a, b = np.dtype(txt), D.FNP.dtype(txt)
        if (a.kind, a.itemsize, a.byteorder) != (b.kind, b.itemsize, b.byteorder): diffs.append((txt, 'parse'))
    for txt in ('c4', 'f3', 'c64'):
        for mod, nm in ((np, 'numpy'), (D.FNP, 'stand-in')):
            try: mod.dtype(txt); diffs.append((txt, nm + ' accepts'))
            except TypeError: pass
    if diffs:
        rep.ob('numpy stand-in of the dtype harness agrees with real numpy on every descriptor', 'inconclusive', detail=str(diffs[:6])); return
    rep.ob('numpy stand-in of the dtype harness agrees with real numpy on every descriptor (attributes, structured pairs, issubdtype, newbyteorder, '
           'type strings)', 'witness', None, 0, 0, 1)
    res = chx.run_module('dtype', per_condition_timeout=240 if tier == 'quick' else 900)
    titles = {'_writer_representation': 'python writer: for every element type (int / uint / float / complex x size x byte order, real, is_complex, structured (r, i)) and '
                                        'every input form (native complex or real array, structured (r, i) array, flat interleaved reals) the array handed to the extension '
                                        'has exactly the representation declared to the C library at init (kind, size, byte order of the components, (r, i) pairs), by '
                                        'value-converting casts or views of identical representation only',
              '_dtype_witness': 'reachability: a complex floating point writer is constructed'}
    chx.report(rep, res, titles, replays={'_writer_representation': lambda kw: REPLAY_DTYPE % (kw,)}, sigs={'_writer_representation': 'C01.py.dtype_representation'})


def main(tier):
    rep = common.Report('C01', tier, 'model_checking', functions=FUNCS)
    st = smt.Stats()
    rep.assume('HDF5 stores what H5Dwrite is given at the selected hyperslab and returns it on read; element values pass through unchanged '
               '(type conversion, compression, checksums are the library\'s)',
               'environment stubs of vlib/envstubs.py (fresh channel directory: no pre-existing files; no I/O faults -- those are C10/C11)',
               'file windows: abstraction licensed by the C04 lemmas re-proved in this run')
    rep.outside_claim('index_len > 3, more than 3 files touched by one call, more than 3 calls per history',
                      'bit-level element fidelity through HDF5 conversion/filters', "the extension's continuous-mode block splitting loop (C05/C19)")
    if not wcommon.gate(rep, st): return rep.finish()
    w0_part(rep, st, tier)
    specs = wcommon.valid_specs(tier)
    t0 = time.time()
    results = wrun.run_all(specs)
    tot = wcommon.report(rep, specs, results, lambda nm: nm.startswith(SELECT))
    rep.extra['write_path'] = dict(configurations=len(specs), paths=tot['paths'], queries=tot['q'], solver_s=round(tot['s'], 1),
                                   wall_s=round(time.time() - t0, 1), per_config=[(r['name'], r['paths'], round(r['wall'], 1)) for r in results])
    rep.ob('write path explored', 'witness', '%d configurations' % len(specs), tot['q'], tot['s'], tot['paths'])
    # X: witnesses on the real build
    n, bad = wrun.replay_witnesses(results, specs)
    if bad:
        nm, cfgd, hist, d = bad[0]
        rep.violation('X: real build == reference model on solver witnesses', 'C01.X.' + d[0][:40], 'history %s on %s: %s' % (hist, cfgd, d[:2]),
                      replay_body=wrun.REPLAY_BODY % (cfgd, hist), sample={'config': cfgd, 'history': hist})
    else:
        rep.replays += n
        rep.ob('X: %d solver witnesses (one per explored path shape of the regular-window twins) run on the real build: C writer -> files -> '
               'real DigitalRFReader == reference model (names, rows, index semantics, values, blocks, bounds)' % n,
               'witness' if n else 'inconclusive', None, 0, 0, n, detail=None if n else 'no witnesses produced')
    from checks import readerside
    readerside.c01_part(rep, st, tier)
    from checks import extglue
    dtype_part(rep, st, tier)
    extglue.run(rep, st, tier)       # the Python extension hands the caller's arrays to the library unchanged (data pointers, strides)
    return rep.finish()
