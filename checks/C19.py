"""C19 Writer bookkeeping matches the recording.
E-LL: cursor and last-file/last-dir getters after every accepted call of the write-path histories (and unchanged after rejected ones);
python counters in checks/pylayer.py."""
import time
from vlib import common, smt, wrun
from checks import wcommon, C01

FUNCS = C01.FUNCS + ['digital_rf_get_last_file_written', 'digital_rf_get_last_dir_written', 'digital_rf_get_last_write_time',
                     'DigitalRFWriter counters (python)']


def main(tier):
    rep = common.Report('C19', tier, 'model_checking', functions=FUNCS)
    st = smt.Stats()
    rep.assume('environment stubs of vlib/envstubs.py; fresh channel; no I/O faults (state after an I/O failure is not claimed)')
    rep.outside_claim('index_len > 3, > 3 files per call, > 3 calls')
    if not wcommon.gate(rep, st): return rep.finish()
    specs = wcommon.valid_specs(tier) + [s for s in wcommon.reject_specs(tier) if 'then arbitrary' in s['name'] or 'zero-length' in s['name']]
    t0 = time.time()
    results = wrun.run_all(specs)
    keep = ('no C assert', 'representation invariant Inv_W', 'next-sample cursor', 'has_failure stays 0', 'last file / last directory', 'a rejected call leaves the writer cursor',
            'a zero-length call leaves')
    tot = wcommon.report(rep, specs, results, lambda nm: nm.startswith(keep))
    rep.extra['write_path'] = dict(configurations=len(specs), paths=tot['paths'], queries=tot['q'], solver_s=round(tot['s'], 1), wall_s=round(time.time() - t0, 1))
    rep.ob('write path explored', 'witness', '%d configurations' % len(specs), tot['q'], tot['s'], tot['paths'])
    n, bad = wrun.replay_witnesses(results, specs, limit=15)
    if bad:
        nm, cfgd, hist, d = bad[0]
        rep.violation('real build == reference model on solver witnesses', 'C19.X.' + d[0][:40], 'history %s on %s: %s' % (hist, cfgd, d[:2]),
                      replay_body=wrun.REPLAY_BODY % (cfgd, hist))
    else:
        rep.replays += n
        rep.ob('%d solver witnesses run on the real build: last file written names the file of the last sample after every call' % n,
               'witness' if n else 'inconclusive', None, 0, 0, n)
    from checks import pylayer
    pylayer.c19_part(rep, st, tier)
    return rep.finish()
