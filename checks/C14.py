"""C14 Listing is sound, complete, ordered and window-exact.
E-RX: file-name grammar languages; E-CH: CrossHair on the real _decorated_list_slice / _yield_matching_files over an in-memory channel
with symbolic existence bits, windows, vanishing subdirectories; ilsdrf tree walk over small symbolic trees."""
import time
import z3
from vlib import common, smt, rx, chx, chload

FUNCS = ['list_drf._decorated_list_slice', 'list_drf._yield_matching_files', 'list_drf._decorate_drf_files', 'list_drf.ilsdrf', 'list_drf RE_* patterns']

TITLES = {
    '_slice3': 'window slice of 3 sorted (time, x) entries (ties allowed) == entries with start <= time <= end (inclusive, every tie); with forward fill and no entry at start, plus the latest entry before start',
    '_slice_small': 'window slice of 0..2 entries: same',
    '_slice_witness': 'reachability: a forward-filled slice is reachable',
    '_listing_witness': 'reachability: a two-file listing is reachable',
    '_ilsdrf_tree_witness': 'reachability: a channel below a timestamp-named non-channel directory is listed',
}

REPLAY_SLICE = '''
from vlib import build
import sys
drf = build.load_pkg()
from digital_rf import list_drf as L
kw = %r
dec, start, end, ffill = [tuple(x) for x in kw['dec']], kw['start'], kw['end'], kw['ffill']
sel = dec[L._decorated_list_slice(dec, start, end, ffill)]
inwin = [x for x in dec if (start is None or x[0] >= start) and (end is None or x[0] <= end)]
want = inwin
if ffill and start is not None:
    before = [x for x in dec if x[0] < start]; exact = [x for x in dec if x[0] == start]
    if before and not exact: want = [before[-1]] + inwin
print('selected', sel, 'expected', want)
sys.exit(1 if sel != want else 0)
'''

REPLAY_LISTING = '''
from vlib import build
import sys, os, tempfile, shutil, datetime
drf = build.load_pkg()
from digital_rf import list_drf as L
kw, reverse = %r, %r
SUBS = ['2001-09-09T01-00-00', '2001-09-09T02-00-00', '2001-09-09T03-00-00']; T0 = 999997200
kind, gone, start, end = kw['kind'], kw['gone'], kw['start'], kw['end']
present = [kw['p%%d' %% i] for i in range(4)]
top = tempfile.mkdtemp(); ch = os.path.join(top, 'ch'); os.makedirs(ch)
allf = []; k = 0
for i, sd in enumerate(SUBS):
    if gone != i: os.makedirs(os.path.join(ch, sd))
    for off in ((2790, 2810) if i == 0 else (10,)):
        t = T0 + 3600 * i + off
        name = ('rf@%%d.000.h5' %% t) if kind == 0 else ('metadata@%%d.h5' %% t)
        if present[k] and gone != i:
            open(os.path.join(ch, sd, name), 'w').close(); allf.append((t - T0, os.path.join(ch, sd, name)))
        k += 1
if kw.get('stray') and gone != 1: open(os.path.join(ch, SUBS[1], ('tmp.metadata@%%d.h5' if kind == 1 else 'tmp.rf@%%d.000.h5') %% (T0 + 3605)), 'w').close()
st = None if start is None else datetime.timedelta(seconds=T0 + start)
en = None if end is None else datetime.timedelta(seconds=T0 + end)
props = ['drf_properties.h5'] if kind == 0 else ['dmd_properties.h5']
try:
    got = list(L._yield_matching_files(ch, list(SUBS) + ['other'], props, kind == 0, kind == 1, starttime=st, endtime=en, reverse=reverse))
except Exception as e:
    print('raised', type(e).__name__, e); shutil.rmtree(top); sys.exit(1)
allf.sort()
inwin = [x for x in allf if (start is None or x[0] >= start) and (end is None or x[0] <= end)]
want = inwin
if kind == 1 and start is not None:
    before = [x for x in allf if x[0] < start]; exact = [x for x in allf if x[0] == start]
    if before and not exact: want = [before[-1]] + inwin
want = [p for _, p in want]
if reverse: want = want[::-1]
print('got', [os.path.relpath(p, top) for p in got]); print('expected', [os.path.relpath(p, top) for p in want])
shutil.rmtree(top)
sys.exit(1 if got != want else 0)
'''


for _k, _kn in ((0, 'RF'), (1, 'metadata')):
    for _g in (-1, 0, 1, 2):
        _tag = '%s_%s' % ('rf' if _k == 0 else 'md', 'none' if _g < 0 else 'gone%d' % _g)
        _gs = 'no subdirectory vanishes' if _g < 0 else 'subdirectory %d vanishes (OSError)' % _g
        TITLES['_listing_fwd_' + _tag] = ('%s channel listing, %s: exactly the in-window files ascending%s, never raises, timestamped subdirs pruned from the walk'
                                          % (_kn, _gs, ' + latest earlier file for forward fill' if _k else ''))
        TITLES['_listing_rev_' + _tag] = '%s channel, %s: reverse listing == forward listing reversed (same set)' % (_kn, _gs)
        if (_k == 1 and _g != 1) or (_k == 0 and _g < 0):
            for _d in ('fwd', 'rev'):
                TITLES['_listing_%s_%s_stray' % (_d, _tag)] = TITLES['_listing_%s_%s' % (_d, _tag)] + "; a stray 'tmp.' file lies in subdirectory 1"


REPLAY_TREE = '''
import os, tempfile, shutil, sys
from checks.ch import listing as H           # oracle + tree description; H.L is the real list_drf module of the tree under test
kw, start, recursive, reverse = %r, %r, %r, %r
tree = H._mk_tree(kw.get('pA', True), kw.get('pM', True), kw.get('pB', True), kw.get('pL', True), kw.get('fA1', True), kw.get('fM', True))
top = tempfile.mkdtemp()
for d, (dirs, files) in tree.items():
    os.makedirs(top + d, exist_ok=True)
    for f in files: open(top + d + '/' + f, 'w').close()
args = (kw.get('inc_drf', True), kw.get('inc_dmd', True), kw.get('p_drf'), kw.get('p_dmd'))
try:
    got = [p[len(top):] for p in H.L.ilsdrf(top + start, recursive=recursive, reverse=reverse, include_drf=args[0], include_dmd=args[1],
                                            include_drf_properties=args[2], include_dmd_properties=args[3])]
except Exception as e:
    print('raised', type(e).__name__, e); shutil.rmtree(top); sys.exit(1)
want = H._expected_tree(tree, start, recursive, reverse, *args)
print('got', got); print('expected', want)
shutil.rmtree(top)
sys.exit(1 if (got != want or len(set(got)) != len(got)) else 0)
'''

REPLAY_WINDOW = '''
import os, tempfile, shutil, sys, datetime
from checks.ch import listing as H           # H.L is the real list_drf module of the tree under test
kw = %r
def mk(w, off, aware):
    return datetime.datetime(1970, 1, 1, tzinfo=datetime.timezone(datetime.timedelta(seconds=off)) if aware else None) + datetime.timedelta(seconds=w)
st = mk(kw.get('ws', 0), kw.get('offs', 0), kw.get('aws', False)) if kw.get('has_s', False) else None
en = mk(kw.get('we', 0), kw.get('offe', 0), kw.get('awe', False)) if kw.get('has_e', False) else None
top = tempfile.mkdtemp(); ch = os.path.join(top, 'ch'); os.makedirs(ch); open(os.path.join(ch, 'drf_properties.h5'), 'w').close()
rec = []
orig = H.L._yield_matching_files
def spy(root, dirs, props, a, b, starttime=None, endtime=None, reverse=False):
    rec.append((starttime, endtime)); return orig(root, dirs, props, a, b, starttime=starttime, endtime=endtime, reverse=reverse)
H.L._yield_matching_files = spy
try:
    list(H.L.ilsdrf(top, starttime=st, endtime=en))
finally:
    H.L._yield_matching_files = orig; shutil.rmtree(top)
es = None if st is None else datetime.timedelta(seconds=kw.get('ws', 0) - (kw.get('offs', 0) if kw.get('aws') else 0))
ee = None if en is None else datetime.timedelta(seconds=kw.get('we', 0) - (kw.get('offe', 0) if kw.get('awe') else 0))
print('window handed to the channel listing:', rec, 'expected instants', (es, ee))
sys.exit(1 if (not rec or any(r != (es, ee) for r in rec)) else 0)
'''
TITLES['_ilsdrf_window'] = ('ilsdrf: starttime / endtime datetimes (naive = UTC, aware with any UTC offset, or None) reach the per-channel listing as the '
                            'instants they denote (seconds since the epoch)')

for _si, _st in enumerate(('/t', '/t/chA', '/t/chA/2020-01-01T00-00-00')):
    for _rec in (1, 0):
        if _si == 0 and not _rec: continue
        for _rev in (0, 1):
            TITLES['_ilsdrf_tree_%d_%d_%d' % (_si, _rec, _rev)] = (
                'ilsdrf(%s, recursive=%s, reverse=%s) over a tree with nested / legacy / timestamp-nested channels, stray and tmp. files, symbolic '
                'presence of properties and data files, all include-flag combinations: exactly the qualifying files of every channel, once, '
                'properties per their own flags, directories in sorted order' % (_st.replace('/t', '<top>', 1), bool(_rec), bool(_rev)))


def grammar(rep, st):
    drf = chload.load()
    from digital_rf import list_drf as L
    D = rx.match_lang('^' + L.RE_DRFFILE); M = rx.match_lang('^' + L.RE_DMDFILE); F = rx.match_lang('^' + L.RE_FILE)
    digits = z3.Plus(z3.Range('0', '9')); d3 = z3.Loop(z3.Range('0', '9'), 3, 3)
    nonl = z3.Intersect(rx.ANYCHAR, z3.Complement(rx.NL))
    name = z3.Intersect(z3.Plus(nonl), z3.Complement(z3.Concat(z3.Re('tmp.'), rx.SIGSTAR)))
    tail = z3.Union(rx.EPS, rx.NL)      # `$` also matches before one trailing newline
    want_d = z3.Concat(name, z3.Re('@'), digits, z3.Re('.'), d3, z3.Re('.h5'), tail)
    want_m = z3.Concat(name, z3.Re('@'), digits, z3.Re('.h5'), tail)
    facts = [('RF file grammar == <name not starting with tmp.>@<digits>.<3 digits>.h5', [(D, want_d), (want_d, D)]),
             ('metadata file grammar == <name not starting with tmp.>@<digits>.h5', [(M, want_m), (want_m, M)]),
             ('combined grammar == RF files U metadata files', [(F, z3.Union(D, M)), (z3.Union(D, M), F)]),
             ('RF and metadata grammars are disjoint', [(z3.Intersect(D, M), z3.Empty(rx.RS))]),
             ("no grammar accepts a 'tmp.'-prefixed name", [(z3.Intersect(z3.Union(D, M, F), z3.Concat(z3.Re('tmp.'), rx.SIGSTAR)), z3.Empty(rx.RS))]),
             ('properties grammars: drf -> {drf_properties,metadata}.h5, dmd -> {dmd_properties,metadata}.h5, either -> union',
              [(rx.match_lang('^' + L.RE_PROPFILE), z3.Union(rx.match_lang('^' + L.RE_DRFPROPFILE), rx.match_lang('^' + L.RE_DMDPROPFILE))),
               (z3.Union(rx.match_lang('^' + L.RE_DRFPROPFILE), rx.match_lang('^' + L.RE_DMDPROPFILE)), rx.match_lang('^' + L.RE_PROPFILE)),
               (rx.match_lang('^' + L.RE_DRFPROPFILE), z3.Concat(z3.Union(z3.Re('drf_properties'), z3.Re('metadata')), z3.Re('.h5'), tail)),
               (z3.Concat(z3.Union(z3.Re('drf_properties'), z3.Re('metadata')), z3.Re('.h5'), tail), rx.match_lang('^' + L.RE_DRFPROPFILE)),
               (rx.match_lang('^' + L.RE_DMDPROPFILE), z3.Concat(z3.Union(z3.Re('dmd_properties'), z3.Re('metadata')), z3.Re('.h5'), tail)),
               (z3.Concat(z3.Union(z3.Re('dmd_properties'), z3.Re('metadata')), z3.Re('.h5'), tail), rx.match_lang('^' + L.RE_DMDPROPFILE))]),
             ('subdirectory grammar == YYYY-MM-DDTHH-MM-SS (digits)',
              [(rx.fullmatch_lang(L._RE_SUBDIR.pattern), z3.Concat(z3.Loop(z3.Range('0', '9'), 4, 4), z3.Re('-'), z3.Loop(z3.Range('0', '9'), 2, 2), z3.Re('-'), z3.Loop(z3.Range('0', '9'), 2, 2), z3.Re('T'),
                                                                    z3.Loop(z3.Range('0', '9'), 2, 2), z3.Re('-'), z3.Loop(z3.Range('0', '9'), 2, 2), z3.Re('-'), z3.Loop(z3.Range('0', '9'), 2, 2), tail)),
               (z3.Concat(z3.Loop(z3.Range('0', '9'), 4, 4), z3.Re('-'), z3.Loop(z3.Range('0', '9'), 2, 2), z3.Re('-'), z3.Loop(z3.Range('0', '9'), 2, 2), z3.Re('T'),
                          z3.Loop(z3.Range('0', '9'), 2, 2), z3.Re('-'), z3.Loop(z3.Range('0', '9'), 2, 2), z3.Re('-'), z3.Loop(z3.Range('0', '9'), 2, 2)), rx.fullmatch_lang(L._RE_SUBDIR.pattern))])]
    for nm, incl in facts:
        t0 = time.time(); ok = True; wit = None; unk = False
        for A, B in incl:
            r, w = rx.empty(z3.Intersect(A, z3.Complement(B)), 60, st)
            if r == 'sat': ok = False; wit = rx.unescape(w); break
            if r != 'unsat': unk = True
        if unk: rep.ob(nm, 'inconclusive', detail='regex query unknown')
        elif ok: rep.ob(nm, 'discharged', 'all strings', len(incl), time.time() - t0, len(incl))
        else:
            body = ('from vlib import build\nimport sys, re\ndrf = build.load_pkg()\nfrom digital_rf import list_drf as L\ns = %r\n'
                    'print({n: bool(getattr(L, n).match(s)) for n in ("_RE_FILE", "_RE_DRFFILE", "_RE_DMDFILE", "_RE_PROPFILE", "_RE_DRFPROPFILE", "_RE_DMDPROPFILE", "_RE_SUBDIR")})\nsys.exit(1)\n') % wit
            rep.violation(nm, 'C14.grammar.' + nm[:30], 'string %r separates the languages' % wit, replay_body=body)


def main(tier):
    rep = common.Report('C14', tier, 'model_checking', functions=FUNCS)
    st = smt.Stats()
    rep.assume('os.listdir / os.walk replaced by an in-memory tree (existence bits symbolic, one subdirectory may vanish = OSError)',
               'file and subdirectory names in the harness trees are concrete (their grammar is decided separately by the regex obligations)')
    rep.outside_claim('more than 3 subdirectories / 2 files per subdirectory per harness', 'symlink loops, permission errors')
    grammar(rep, st)
    T = 900 if tier == 'quick' else 2400
    res = chx.run_module('listing', per_condition_timeout=T, nproc=16)
    replays = {'_slice3': lambda kw: REPLAY_SLICE % (dict(dec=[(kw['t0'], 'a'), (kw['t0'] + kw['d1'], 'b'), (kw['t0'] + kw['d1'] + kw['d2'], 'c')], start=kw['start'], end=kw['end'], ffill=kw['ffill']),),
               '_slice_small': lambda kw: REPLAY_SLICE % (dict(dec=[(kw['t0'], 'a'), (kw['t0'] + kw['d1'], 'b')][:kw['n']], start=kw['start'], end=kw['end'], ffill=kw['ffill']),)}
    sigs = {'_slice3': 'C14.slice.window', '_slice_small': 'C14.slice.window'}
    for k_ in (0, 1):
        for g_ in (-1, 0, 1, 2):
            tag = '%s_%s' % ('rf' if k_ == 0 else 'md', 'none' if g_ < 0 else 'gone%d' % g_)
            for rev in (False, True):
                nm = '_listing_%s_%s' % ('rev' if rev else 'fwd', tag)
                replays[nm] = (lambda k2, g2, r2: (lambda kw: REPLAY_LISTING % (dict(kw, kind=k2, gone=g2), r2)))(k_, g_, rev)
                sigs[nm] = 'C14.listing.%s' % ('reverse_set' if rev else 'forward')
                replays[nm + '_stray'] = (lambda k2, g2, r2: (lambda kw: REPLAY_LISTING % (dict(kw, kind=k2, gone=g2, stray=True), r2)))(k_, g_, rev)
                sigs[nm + '_stray'] = sigs[nm]
    for si_, st_ in enumerate(('/t', '/t/chA', '/t/chA/2020-01-01T00-00-00')):
        for rec_ in (1, 0):
            for rev_ in (0, 1):
                nm = '_ilsdrf_tree_%d_%d_%d' % (si_, rec_, rev_)
                replays[nm] = (lambda a, b, c: (lambda kw: REPLAY_TREE % (kw, a, bool(b), bool(c))))(st_, rec_, rev_)
                sigs[nm] = 'C14.tree_walk'
    replays['_ilsdrf_window'] = lambda kw: REPLAY_WINDOW % (kw,); sigs['_ilsdrf_window'] = 'C14.window_conversion'
    chx.report(rep, res, TITLES, replays=replays, sigs=sigs)
    return rep.finish()
