#!/verif/.venv/bin/python
# replay for property C06 obligation real_build_reference_model_on_solver_witnesses -- exits 1 if the violation reproduces on /repo's current tree
import sys; sys.path.insert(0, '/verif')

from vlib import build, refmodel
import sys
cfg = {'n': 2, 'd': 1, 'sc': 2, 'fc': 1000, 'start': 2000000003, 'cont': 0, 'chunk': 1}
history = [{'g': [0, 1], 'b': [0, 1], 'vlen': 2}, {'g': [8], 'b': [0], 'vlen': 2}]
d = refmodel.run_history(build, cfg, history)
for x in d: print('DISCREPANCY:', x)
print('real build vs reference model:', 'MISMATCH' if d else 'agree')
sys.exit(1 if d else 0)
