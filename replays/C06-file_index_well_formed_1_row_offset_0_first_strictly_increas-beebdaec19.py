#!/verif/.venv/bin/python
# replay for property C06 obligation file_index_well_formed_1_row_offset_0_first_strictly_increas -- exits 1 if the violation reproduces on /repo's current tree
import sys; sys.path.insert(0, '/verif')

from vlib import build, refmodel
import sys
cfg = {'n': 1, 'd': 1, 'sc': 2, 'fc': 1000, 'start': 315532801, 'cont': 0, 'chunk': 1}
history = [{'g': [0, 1], 'b': [0, 1], 'vlen': 3}]
d = refmodel.run_history(build, cfg, history)
for x in d: print('DISCREPANCY:', x)
print('real build vs reference model:', 'MISMATCH' if d else 'agree')
sys.exit(1 if d else 0)
