#!/verif/.venv/bin/python
# replay for property C12 obligation write_dict_form_3_samples_length-3_lists_distributed_per_sam -- exits 1 if the violation reproduces on /repo's current tree
import sys; sys.path.insert(0, '/verif')

from vlib import build
import numpy as np, tempfile, os, shutil, sys, warnings
warnings.simplefilter('ignore')
drf = build.load_pkg()
kw, mode = {'a': 0, 'd1': 100, 'd2': 100, 'slen': 3}, 'write'
top = tempfile.mkdtemp(); md = os.path.join(top, 'md'); os.makedirs(md)
w = drf.DigitalMetadataWriter(md, 1000, 100, 1, 1, 'md')
bad = 0
if mode == 'read':
    a = kw['a']; samples = [a] + ([a + kw['d1']] if 'd1' in kw and kw.get('n', 3) >= 2 else []) + ([a + kw['d1'] + kw['d2']] if 'd2' in kw and kw.get('n', 3) >= 3 else [])
    base = 10**6
    w.write([base + s for s in samples], [{'v': s} for s in samples])
    r = drf.DigitalMetadataReader(md)
    b = r.get_bounds()
    if b != (base + samples[0], base + samples[-1]): print('bounds', b, 'expected', (base + samples[0], base + samples[-1])); bad = 1
    lo, hi = kw.get('lo', 0), kw.get('hi', 320)
    for method in (None, 'ffill'):
        got = [int(k) - base for k in r.read(base + lo, base + hi, method=method).keys()]
        want = [s for s in samples if lo <= s <= hi]
        if method:
            before = [s for s in samples if s <= lo]
            want = ([before[-1]] if before else []) + [s for s in samples if lo < s <= hi]
        if got != want: print('read(%d, %d, method=%s) keys %s expected %s' % (lo, hi, method, got, want)); bad = 1
else:
    a = kw.get('a', 0); d1 = kw.get('d1', 1); d2 = kw.get('d2', 1); slen = kw.get('slen', 3)
    samples = [a, a + d1, a + d1 + d2]; text = 'abcd'[:slen]
    w.write(samples, {'per': [10, 20, 30], 'all': 7, 'txt': text, 'sub': {'x': [4, 5, 6], 't': text}})
    r = drf.DigitalMetadataReader(md)
    got = r.read(samples[0], samples[-1])
    for i, s in enumerate(samples):
        g = got.get(s)
        want = {'per': [10, 20, 30][i], 'all': 7, 'txt': text, 'sub': {'x': [4, 5, 6][i], 't': text}}
        if g != want: print('sample', s, 'read back', g, 'expected', want); bad = 1
shutil.rmtree(top)
sys.exit(1 if bad else 0)
