#!/verif/.venv/bin/python
# replay for property C01 obligation sample_at_vector_position_j_lands_in_the_file_whose_window_c -- exits 1 if the violation reproduces on /repo's current tree
import sys; sys.path.insert(0, '/verif')

from vlib import build, refmodel
import sys
cfg = {'n': 1, 'd': 1, 'sc': 2, 'fc': 1000, 'start': 315532800, 'cont': 0, 'chunk': 1}
history = [{'g': [2], 'b': [0], 'vlen': 2}, {'g': [3], 'b': [0], 'vlen': 1}]
d = refmodel.run_history(build, cfg, history)
for x in d: print('DISCREPANCY:', x)
print('real build vs reference model:', 'MISMATCH' if d else 'agree')
sys.exit(1 if d else 0)
