#!/verif/.venv/bin/python
# replay for property C04 obligation symbolic_subdir_second_S_S_sc_0_and_S_k_d_n_S_sc_exact_time_ -- exits 1 if the violation reproduces on /repo's current tree
import sys; sys.path.insert(0, '/verif')

from vlib import build, spec
import ctypes, sys
lib = build.clib()
u64 = ctypes.c_uint64
lib.digital_rf_get_subdir_file.restype = ctypes.c_int
class Obj(ctypes.Structure):
    pass
F = build.struct_fields()
# writer object as a raw buffer with the fields the kernel reads (offsets from the compiled header via a tiny C probe)
import subprocess, os, tempfile
d = tempfile.mkdtemp()
src = os.path.join(d, 'off.c')
open(src, 'w').write('#include <stddef.h>\n#include <stdio.h>\n#include "digital_rf.h"\nint main(){printf("%zu %zu %zu %zu %zu %zu\\n", sizeof(Digital_rf_write_object), offsetof(Digital_rf_write_object, subdir_cadence_secs), offsetof(Digital_rf_write_object, file_cadence_millisecs), offsetof(Digital_rf_write_object, global_start_sample), offsetof(Digital_rf_write_object, sample_rate_numerator), offsetof(Digital_rf_write_object, sample_rate_denominator));return 0;}')
subprocess.check_call(['gcc', '-I' + build.CINC, '-I' + build.H5INC, src, '-o', os.path.join(d, 'off')])
size, o_sc, o_fc, o_st, o_n, o_d = map(int, subprocess.check_output([os.path.join(d, 'off')]).split())
import shutil; shutil.rmtree(d)
bad = 0
for (n, dd, sc, fc, start, gs) in [(2, 2, 3, 2, 6442450944, 0)]:
    buf = ctypes.create_string_buffer(size)
    for off, v in ((o_sc, sc), (o_fc, fc), (o_st, start), (o_n, n), (o_d, dd)):
        ctypes.memmove(ctypes.addressof(buf) + off, ctypes.byref(u64(v)), 8)
    sub = ctypes.create_string_buffer(1024); base = ctypes.create_string_buffer(256); left = u64(); mx = u64()
    r = lib.digital_rf_get_subdir_file(buf, u64(gs), sub, base, ctypes.byref(left), ctypes.byref(mx))
    k = gs + start
    Fm = spec.file_ms(k, n, dd, fc); S = spec.dir_sec(k, n, dd, sc)
    want = (0, spec.subdir_name(S), 'tmp.' + spec.file_name(Fm), spec.first_of_ms(Fm + fc, n, dd) - k,
            spec.first_of_ms(Fm + fc, n, dd) - spec.first_of_ms(Fm, n, dd))
    got = (r, sub.value.decode(), base.value.decode(), left.value, mx.value)
    ok = got == want and 1 <= got[3] <= got[4]
    print((n, dd, sc, fc, start, gs), 'got', got, 'want', want, 'OK' if ok else 'MISMATCH')
    if not ok: bad += 1
sys.exit(1 if bad else 0)
