#!/verif/.venv/bin/python
# replay for property C07 obligation fill_value_handed_to_HDF5_read_in_the_declared_byte_order_of -- exits 1 if the violation reproduces on /repo's current tree
import sys; sys.path.insert(0, '/verif')

from vlib import build
import numpy as np, tempfile, os, shutil, sys, glob, warnings, h5py
warnings.simplefilter('ignore')
drf = build.load_pkg()
cls, size, sign, order, cplx = (0, 4, 1, 1, 1)
kind = 'f' if cls == 1 else ('i' if sign == 1 else 'u')
dt = ('>' if order == 1 else '<') + kind + str(size)
top = tempfile.mkdtemp(); os.makedirs(top + '/ch')
bad = 0
try:
    w = drf.DigitalRFWriter(top + '/ch', dt, 3600, 1000, 10**10, 10, 1, 'u', is_complex=bool(cplx), is_continuous=True, marching_periods=False)
    arr = np.ones((3, 2) if cplx else (3,), dtype=dt)
    w.rf_write(arr, next_sample=2); w.close()
    f = glob.glob(top + '/ch/*/*.h5')[0]
    with h5py.File(f, 'r') as h: d = h['rf_data'][...]
    gap = d[0, 0]
    comps = [gap['r'], gap['i']] if cplx else [gap]
    for c in comps:
        if kind == 'f': ok = bool(np.isnan(c))
        elif kind == 'i': ok = int(c) == -(1 << (8 * size - 1))
        else: ok = int(c) == 0
        print(dt, 'complex' if cplx else 'real', 'unwritten slot reads', c, 'OK' if ok else 'WRONG'); bad |= (not ok)
finally:
    shutil.rmtree(top)
sys.exit(1 if bad else 0)
