#!/verif/.venv/bin/python
# replay for property C06 obligation constructor_the_session_start_timestamp_init_utc_timestamp_s -- exits 1 if the violation reproduces on /repo's current tree, 0 if not,
# 3 if the replay itself fails (an uncaught exception is a harness error, never a reproduction)
import sys; sys.path.insert(0, '/verif')
def _hook(t, v, tb):
    # an exception escaping from the code under test is part of the observed behaviour (exit 1); one raised by the replay
    # script or the harness library alone is a harness error (exit 3)
    import traceback, os; traceback.print_exception(t, v, tb)
    repo = os.path.join(os.environ.get('VERIF_REPO', '/repo'), 'python', 'digital_rf')
    inreal = any(os.path.abspath(f.filename).startswith(repo) for f in traceback.extract_tb(tb))
    print('uncaught %s %s' % (t.__name__, 'raised while the code under test was running' if inreal else 'in the replay harness'))
    sys.stdout.flush(); sys.stderr.flush(); os._exit(1 if inreal else 3)
sys.excepthook = _hook

from vlib import build, refmodel
import ctypes, tempfile, os, shutil, sys
bad = 0
for (n, d, start) in [(1000000, 3, 43690666667000000), (1000000, 3, 21845333334000000), (1000000, 3, 10922666667000000), (1000000, 3, 5461333334000000), (1000000, 3, 2730666667000000), (1000000, 3, 1365333334000000)]:
    top = tempfile.mkdtemp(); ch = os.path.join(top, 'ch'); os.makedirs(ch)
    rw = refmodel.RealWriter(build, ch, n, d, 3600, 1000, start, 0)
    if not rw.obj: print('constructor refused', (n, d, start)); shutil.rmtree(top); continue
    rw.lib.verif_peek_init_utc_timestamp.restype = ctypes.c_uint64; rw.lib.verif_peek_init_utc_timestamp.argtypes = [ctypes.c_void_p]
    got = int(rw.lib.verif_peek_init_utc_timestamp(rw.obj)); want = start * d // n
    rw.close(); shutil.rmtree(top)
    print('rate %d/%d start index %d: init_utc_timestamp %d, exact second of the first sample %d' % (n, d, start, got, want))
    if got != want: bad = 1
sys.exit(1 if bad else 0)
