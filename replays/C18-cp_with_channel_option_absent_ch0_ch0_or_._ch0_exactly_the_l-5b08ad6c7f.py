#!/verif/.venv/bin/python
# replay for property C18 obligation cp_with_channel_option_absent_ch0_ch0_or_._ch0_exactly_the_l -- exits 1 if the violation reproduces on /repo's current tree, 0 if not,
# 3 if the replay itself fails (an uncaught exception is a harness error, never a reproduction)
import sys; sys.path.insert(0, '/verif')
def _hook(t, v, tb):
    # an exception escaping from the code under test is part of the observed behaviour (exit 1); one raised by the replay
    # script or the harness library alone is a harness error (exit 3)
    import traceback, os; traceback.print_exception(t, v, tb)
    repo = os.path.join(os.environ.get('VERIF_REPO', '/repo'), 'python', 'digital_rf')
    inreal = any(os.path.abspath(f.filename).startswith(repo) for f in traceback.extract_tb(tb))
    print('uncaught %s %s' % (t.__name__, 'raised while the code under test was running' if inreal else 'in the replay harness'))
    sys.stdout.flush(); sys.stderr.flush(); os._exit(1 if inreal else 3)
sys.excepthook = _hook

from vlib import build
import os, tempfile, shutil, sys, argparse
drf = build.load_pkg()
from digital_rf import list_drf as L
kw = {'ch_style': 0, 'present0': False, 'present1': False, 'cmd': 0}
top = tempfile.mkdtemp(); src = top + '/s'; dst = top + '/d'
chd = src + '/ch0'; os.makedirs(chd + '/2020-01-01T00-00-00')
open(chd + '/drf_properties.h5', 'w').write('props'); open(chd + '/2020-01-01T00-00-00/rf@1577836810.000.h5', 'w').write('data')
chs = [[], ['ch0'], ['ch0/'], ['./ch0']][kw.get('ch_style', 0)]
cmd = ['cp', 'mv', 'ln'][kw.get('cmd', 0)]
listed = [os.path.relpath(p, src) for p in L.lsdrf(src)]
if kw.get('dst_pre'):
    dpre = dst + '/ch0/2020-01-01T00-00-00/rf@1577836810.000.h5'; os.makedirs(os.path.dirname(dpre)); open(dpre, 'w').write('old!')
    t = os.path.getmtime(chd + '/2020-01-01T00-00-00/rf@1577836810.000.h5'); os.utime(dpre, (t + 5, t + 5))
srcdata = {r: open(os.path.join(src, r)).read() for r in listed}
a = argparse.Namespace(src=src, dest=dst, chs=[','.join(chs)] if chs else [], starttime=None, endtime=None, func=None, recursive=True, reverse=False,
                       include_drf=True, include_dmd=True, include_drf_properties=None, include_dmd_properties=None)
if cmd == 'ln': a.symbolic = bool(kw.get('symbolic'))
{'cp': L._run_cp, 'mv': L._run_mv, 'ln': L._run_ln}[cmd](a)
got = sorted(os.path.relpath(os.path.join(d_, f), dst) for d_, _, fs in os.walk(dst) for f in fs)
print('listed', sorted(listed)); print('at destination', got)
bad = got != sorted(listed)
for r in listed:
    p = os.path.join(dst, r)
    if os.path.isfile(p) and open(p).read() != srcdata[r]: print('destination', r, 'holds', repr(open(p).read()), 'instead of', repr(srcdata[r])); bad = True
    if cmd == 'mv' and os.path.exists(os.path.join(src, r)): print('mv left', r, 'in the source'); bad = True
shutil.rmtree(top)
sys.exit(1 if bad else 0)
