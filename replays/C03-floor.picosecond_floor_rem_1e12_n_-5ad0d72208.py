#!/verif/.venv/bin/python
# replay for property C03 obligation floor.picosecond_floor_rem_1e12_n_ -- exits 1 if the violation reproduces on /repo's current tree
import sys; sys.path.insert(0, '/verif')

from vlib import build
import ctypes
lib = build.clib()
u64 = ctypes.c_uint64
def floor_c(k, n, d):
    s, p = u64(), u64()
    lib.digital_rf_get_timestamp_floor(u64(k), u64(n), u64(d), ctypes.byref(s), ctypes.byref(p)); return s.value, p.value
def ceil_c(s, p, n, d):
    o = u64(); lib.digital_rf_get_sample_ceil(u64(s), u64(p), u64(n), u64(d), ctypes.byref(o)); return o.value
def floor_spec(k, n, d): return (k * d) // n, (((k * d) % n) * 10**12) // n
def ceil_spec(s, p, n, d): return -((-(s * 10**12 + p) * n) // (d * 10**12))
bad = 0
for case in [('floor', 7, 6, 2)]:
    kind = case[0]
    if kind == 'floor':
        _, k, n, d = case
        got, want = floor_c(k, n, d), floor_spec(k, n, d)
    elif kind == 'ceil':
        _, s, p, n, d = case
        got, want = ceil_c(s, p, n, d), ceil_spec(s, p, n, d)
    elif kind == 'mono':
        _, k1, k2, n, d = case
        got, want = floor_c(k1, n, d) <= floor_c(k2, n, d), True
    elif kind == 'inv':
        _, k, n, d = case
        got, want = ceil_c(*floor_c(k, n, d), n, d), k
    print(case, 'got', got, 'want', want)
    if got != want: bad += 1
import sys; sys.exit(1 if bad else 0)
