#!/verif/.venv/bin/python
# replay for property C10 obligation after_a_reported_fatal_I_O_error_has_failure_the_writer_refu -- exits 1 if the violation reproduces on /repo's current tree
import sys; sys.path.insert(0, '/verif')

from vlib import build, common
import os, subprocess, sys, tempfile, shutil, glob, re
import h5py
top = tempfile.mkdtemp(prefix='drffault-')
so = os.path.join(top, 'faultfs.so')
subprocess.check_call(['gcc', '-shared', '-fPIC', '-O1', os.path.join(common.VERIF, 'vlib/native/faultfs.c'), '-o', so, '-ldl'])
prog = os.path.join(top, 'rec.py')
open(prog, 'w').write("""
import sys, os; sys.path.insert(0, %r)
from vlib import build, refmodel
import numpy as np
rw = refmodel.RealWriter(build, sys.argv[1], 10, 1, 3600, 1000, 10**10, int(sys.argv[2]))
rets = []
for g in (0, 10, 20):
    rets.append(rw.write_blocks([g], [0], (np.arange(10, dtype=np.int16) + g).reshape(-1, 1)))
rw.close()
print('RETS', rets)
""" % common.VERIF)
build.clib()
kinds = ['mkdir']
bad = 0
for cont in (0, 1):
    for op in kinds:
        for after in range(0, 14):
            for persist in (0, 1):
                ch = os.path.join(top, 'ch'); shutil.rmtree(ch, ignore_errors=True); os.makedirs(ch)
                env = dict(os.environ, LD_PRELOAD=so, FAULTFS_OP=op, FAULTFS_AFTER=str(after), FAULTFS_PERSIST=str(persist), VERIF_SCRATCH_BASE=top)
                r = subprocess.run([sys.executable, prog, ch, str(cont)], env=env, stdout=subprocess.PIPE, stderr=subprocess.DEVNULL, text=True)
                m = re.search(r'RETS \[(.*)\]', r.stdout)
                if not m: continue          # the recorder died (e.g. fault during channel creation): nothing was acknowledged
                rets = [int(x) for x in m.group(1).split(',')]
                readable = set()
                for f in glob.glob(os.path.join(ch, '*', 'rf@*.h5')):
                    try:
                        with h5py.File(f, 'r') as h:
                            idx = h['rf_data_index'][...]; d = h['rf_data'][...]
                            for (s, o), nxt in zip(idx, list(idx[1:, 1]) + [d.shape[0]]):
                                for j in range(int(o), int(nxt)):
                                    if int(d[j, 0]) != -32768: readable.add(int(s) + j - int(o))
                                    if int(d[j, 0]) not in (-32768, (int(s) + j - int(o)) - 10**10): print('WRONG VALUE in', f); bad = 1
                    except Exception as e:
                        print('op=%s after=%d persist=%d cont=%d: published file %s is unreadable (%s); returns %s' % (op, after, persist, cont, os.path.basename(f), type(e).__name__, rets)); bad = 1
                for i, rv in enumerate(rets):
                    if rv == 0:
                        want = set(range(10**10 + 10 * i, 10**10 + 10 * i + 10))
                        if not want <= readable and all(x == 0 for x in rets[i:i + 2]) and i + 1 < len(rets):
                            print('op=%s after=%d persist=%d cont=%d: call %d accepted, its samples are not readable, and the next call reported no error: %s' % (op, after, persist, cont, i, rets)); bad = 1
                    first_fail = next((j for j, x in enumerate(rets) if x != 0), None)
                if first_fail is not None and any(x == 0 for x in rets[first_fail + 1:]) and rets[first_fail] in (-6,):
                    pass
shutil.rmtree(top, ignore_errors=True)
sys.exit(1 if bad else 0)
