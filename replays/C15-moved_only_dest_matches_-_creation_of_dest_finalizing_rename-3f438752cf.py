#!/verif/.venv/bin/python
# replay for property C15 obligation moved_only_dest_matches_-_creation_of_dest_finalizing_rename -- exits 1 if the violation reproduces on /repo's current tree
import sys; sys.path.insert(0, '/verif')

from vlib import build
import sys, datetime
drf = build.load_pkg()
from digital_rf import watchdog_drf as W
from watchdog.events import FileCreatedEvent, FileModifiedEvent, FileDeletedEvent, FileMovedEvent
kw, mode = {'src_ok': False, 'dst_ok': True, 's_secs': 0, 'd_secs': 172800, 'frac': None, 'start': 172800000, 'end': 1000}, 'moved'
EPOCH = datetime.datetime(1970, 1, 1, tzinfo=datetime.timezone.utc)
def name(ok, secs, frac):
    if not ok: return '/w/ch/2020-01-01T00-00-00/notes.txt'
    return '/w/ch/2020-01-01T00-00-00/' + ('rf@%d.%03d.h5' % (secs, frac) if frac is not None else 'metadata@%d.h5' % secs)
def tm(ms): return None if ms is None else EPOCH + datetime.timedelta(milliseconds=ms)
got = []
class H(W.DigitalRFEventHandler):
    def on_created(self, e): got.append(('created', e.src_path))
    def on_modified(self, e): got.append(('modified', e.src_path))
    def on_deleted(self, e): got.append(('deleted', e.src_path))
    def on_moved(self, e): got.append(('moved', e.src_path, e.dest_path))
h = H(starttime=tm(kw.get('start')), endtime=tm(kw.get('end')))
inwin = lambda secs, frac: (kw.get('start') is None or secs * 1000 + (frac or 0) >= kw['start']) and (kw.get('end') is None or secs * 1000 + (frac or 0) <= kw['end'])
if mode == 'simple':
    p = name(kw['ok'], kw['secs'], kw['frac'])
    ev = [FileCreatedEvent, FileModifiedEvent, FileDeletedEvent][kw['kind']](p)
    h.dispatch(ev)
    want = [(['created', 'modified', 'deleted'][kw['kind']], p)] if kw['ok'] and inwin(kw['secs'], kw['frac']) else []
else:
    src = name(kw['src_ok'], kw['s_secs'], kw['frac']); dst = name(kw['dst_ok'], kw['d_secs'], kw['frac'])
    if not kw['src_ok']: src = src.replace('notes', 'tmp.rf@1.000')
    h.dispatch(FileMovedEvent(src, dst))
    if kw['dst_ok'] and not kw['src_ok']: want = [('created', dst)] if inwin(kw['d_secs'], kw['frac']) else []
    elif kw['src_ok'] and not kw['dst_ok']: want = [('deleted', src)] if inwin(kw['s_secs'], kw['frac']) else []
    elif kw['src_ok'] and kw['dst_ok']: want = [('moved', src, dst)] if inwin(kw['d_secs'], kw['frac']) else []
    else: want = []
print('delivered', got, 'expected', want)
sys.exit(1 if got != want else 0)
