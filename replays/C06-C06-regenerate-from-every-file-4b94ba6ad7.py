#!/verif/.venv/bin/python
# replay for property C06 obligation C06-regenerate-from-every-file -- exits 1 if the violation reproduces on /repo's current tree, 0 if not,
# 3 if the replay itself fails (an uncaught exception is a harness error, never a reproduction)
import sys; sys.path.insert(0, '/verif')
def _hook(t, v, tb):
    # an exception escaping from the code under test is part of the observed behaviour (exit 1); one raised by the replay
    # script or the harness library alone is a harness error (exit 3)
    import traceback, os; traceback.print_exception(t, v, tb)
    repo = os.path.join(os.environ.get('VERIF_REPO', '/repo'), 'python', 'digital_rf')
    inreal = any(os.path.abspath(f.filename).startswith(repo) for f in traceback.extract_tb(tb))
    print('uncaught %s %s' % (t.__name__, 'raised while the code under test was running' if inreal else 'in the replay harness'))
    sys.stdout.flush(); sys.stderr.flush(); os._exit(1 if inreal else 3)
sys.excepthook = _hook

from vlib import build
import numpy as np, tempfile, os, shutil, sys, glob, warnings
warnings.simplefilter('ignore')
drf = build.load_pkg()
import h5py
from digital_rf import digital_rf_hdf5 as H
bad = 0; nfiles = 0
for (dtype, cplx, nsub, cont, n, d) in (('i2', False, 1, False, 10, 1), ('<f4', True, 2, True, 200, 3), ('>i4', True, 1, False, 10, 1), ('u1', False, 3, True, 7, 1)):
    top = tempfile.mkdtemp(); ch = os.path.join(top, 'ch'); os.makedirs(ch)
    S = 10**9 * n // d + 3
    w = drf.DigitalRFWriter(ch, dtype, 2, 1000, S, n, d, 'uuid', is_complex=cplx, num_subchannels=nsub, is_continuous=cont, marching_periods=False)
    shape = (25 * n // d + 5, nsub) if not cplx else (25 * n // d + 5, nsub)
    dat = (np.arange(shape[0] * nsub).reshape(shape) % 100).astype(np.dtype(dtype).newbyteorder('=') if not cplx else 'c8')
    if cplx and np.dtype(dtype).kind != 'f': dat = np.zeros(shape, dtype=np.dtype([('r', dtype), ('i', dtype)]))
    w.rf_write(dat[:10]); w.rf_write(dat[10:], next_sample=30 * n // d)
    w.close()
    def snapshot():
        r = drf.DigitalRFReader(top)
        b = r.get_bounds('ch'); blocks = r.get_continuous_blocks(b[0], b[1], 'ch')
        props = {k: (v.tolist() if hasattr(v, 'tolist') else v) for k, v in r.get_properties('ch').items()}
        data = r.read(b[0], b[1], 'ch')
        return b, list(blocks.items()), props, {k: v.tobytes() for k, v in data.items()}, {k: str(v.dtype) for k, v in data.items()}
    ref = snapshot()
    pf = os.path.join(ch, 'drf_properties.h5')
    with h5py.File(pf, 'r') as f: ref_attrs = {k: (np.asarray(v).tolist(), str(np.asarray(v).dtype.kind)) for k, v in f.attrs.items()}
    files = sorted(glob.glob(os.path.join(ch, '*', 'rf@*.h5')))
    keep = os.path.join(top, 'keep.h5'); os.rename(pf, keep)
    for f in files:
        # regenerate from exactly this data file: a scratch channel holding only it
        t2 = tempfile.mkdtemp(); sd = os.path.join(t2, 'ch', os.path.basename(os.path.dirname(f))); os.makedirs(sd)
        os.link(f, os.path.join(sd, os.path.basename(f)))
        H.recreate_properties_file(os.path.join(t2, 'ch'))
        with h5py.File(os.path.join(t2, 'ch', 'drf_properties.h5'), 'r') as g:
            got = {k: (np.asarray(v).tolist(), str(np.asarray(v).dtype.kind)) for k, v in g.attrs.items()}
        norm = lambda a: {k: ((v[0].decode() if isinstance(v[0], bytes) else v[0]), 'S' if v[1] in 'SOU' else v[1]) for k, v in a.items()}
        if norm(got) != norm(ref_attrs):
            print('regenerated from', os.path.basename(f), 'differs:', {k: (norm(got).get(k), norm(ref_attrs).get(k)) for k in set(got) | set(ref_attrs) if norm(got).get(k) != norm(ref_attrs).get(k)}); bad = 1
        shutil.rmtree(t2); nfiles += 1
    # and the channel itself reads back identically after regeneration in place
    H.recreate_properties_file(ch)
    if snapshot() != ref: print('channel reads back differently after recreate_properties_file', dtype, cplx, nsub, cont); bad = 1
    try:
        H.recreate_properties_file(ch); print('an existing properties file was overwritten'); bad = 1
    except IOError: pass
    shutil.rmtree(top)
print('regenerated from', nfiles, 'data files')
sys.exit(1 if bad else 0)
