#!/verif/.venv/bin/python
# replay for property C06 obligation W0_index_len_2_index_rows_CutSpec_rows_signature_told_block_ -- exits 1 if the violation reproduces on /repo's current tree
import sys; sys.path.insert(0, '/verif')

from vlib import build
import ctypes, subprocess, os, tempfile, shutil, sys
m = {'sw': 0, 'left': 1, 'maxf': 1, 'vlen': 2, 'gidx': 0, 'gstart': 0, 'chunk': 1, 'cont': 1, 'fex': 1, 'g': [0, 1], 'b': [0, 1]}
lib = build.clib()
d = tempfile.mkdtemp()
src = os.path.join(d, 'off.c')
open(src, 'w').write('#include <stddef.h>\n#include <stdio.h>\n#include "digital_rf.h"\nint main(){printf("%zu %zu %zu %zu %zu\\n", sizeof(Digital_rf_write_object), offsetof(Digital_rf_write_object, global_index), offsetof(Digital_rf_write_object, global_start_sample), offsetof(Digital_rf_write_object, needs_chunking), offsetof(Digital_rf_write_object, is_continuous));return 0;}')
subprocess.check_call(['gcc', '-I' + build.CINC, '-I' + build.H5INC, src, '-o', os.path.join(d, 'off')])
size, o_gi, o_gs, o_ch, o_co = map(int, subprocess.check_output([os.path.join(d, 'off')]).split()); shutil.rmtree(d)
u64 = ctypes.c_uint64
buf = ctypes.create_string_buffer(size)
for off, v, ty in ((o_gi, m['gidx'], u64), (o_gs, m['gstart'], u64), (o_ch, m['chunk'], ctypes.c_int), (o_co, m['cont'], ctypes.c_int)):
    ctypes.memmove(ctypes.addressof(buf) + off, ctypes.byref(ty(v)), ctypes.sizeof(ty))
L = len(m['g']); G = (u64 * L)(*m['g']); B = (u64 * L)(*m['b'])
lib.digital_rf_get_global_sample.restype = u64
nxt = lib.digital_rf_get_global_sample(u64(m['sw']), G, B, u64(L))
rows = ctypes.c_int(); stw = u64()
lib.digital_rf_create_rf_data_index.restype = ctypes.POINTER(u64)
ret = lib.digital_rf_create_rf_data_index(buf, u64(m['sw']), u64(m['left']), u64(m['maxf']), G, B, u64(L), u64(m['vlen']), u64(nxt), ctypes.byref(rows), ctypes.byref(stw), ctypes.c_int(m['fex']))
g, b, V, sw = m['g'], m['b'], m['vlen'], m['sw']
mal = (sw == 0 and g[0] < m['gidx']) or any(b[i] >= V or (i > 0 and (b[i-1] >= b[i] or g[i-1] >= g[i] or b[i]-b[i-1] > g[i]-g[i-1])) for i in range(L))
def pos(j):
    i = max(x for x in range(L) if b[x] <= j); return g[i] + j - b[i]
bad = 0
if mal:
    print('malformed input; rows_to_write =', rows.value); bad = rows.value != -1
elif rows.value == -1:
    print('well-formed input rejected'); bad = 1
else:
    last = nxt + m['left']
    want_stw = sum(1 for j in range(sw, min(V, sw + m['left'] + 1)) if pos(j) < last) if V - sw < 10**6 else None
    want_rows = []
    if (not m['fex']) or m['chunk']:
        want_rows.append(((nxt + m['gstart'] - ((m['maxf'] - m['left']) if (m['cont'] and not m['chunk']) else 0)) % 2**64, 0))
    if want_stw is not None:
        want_rows += [(g[i] + m['gstart'], b[i] - sw) for i in range(1, L) if sw < b[i] < sw + want_stw]
        got_rows = [(ret[2*i], ret[2*i+1]) for i in range(rows.value)]
        print('samples_to_write', stw.value, 'want', want_stw, 'rows', got_rows, 'want', want_rows)
        bad = stw.value != want_stw or got_rows != want_rows
    else:
        print('vector too long for the concrete oracle'); bad = 0
sys.exit(1 if bad else 0)
