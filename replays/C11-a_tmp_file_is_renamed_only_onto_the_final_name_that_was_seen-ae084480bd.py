#!/verif/.venv/bin/python
# replay for property C11 obligation a_tmp_file_is_renamed_only_onto_the_final_name_that_was_seen -- exits 1 if the violation reproduces on /repo's current tree
import sys; sys.path.insert(0, '/verif')

from vlib import build, refmodel
import sys
cfg = {'n': 1, 'd': 1, 'sc': 2, 'fc': 1000, 'start': 315532800, 'cont': 0, 'chunk': 1}
history = [{'g': [0], 'b': [0], 'vlen': 2}, {'g': [2], 'b': [0], 'vlen': 2}]
d = refmodel.run_history(build, cfg, history)
for x in d: print('DISCREPANCY:', x)
print('real build vs reference model:', 'MISMATCH' if d else 'agree')
sys.exit(1 if d else 0)
