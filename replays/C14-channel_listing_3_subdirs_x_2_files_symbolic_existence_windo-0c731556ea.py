#!/verif/.venv/bin/python
# replay for property C14 obligation channel_listing_3_subdirs_x_2_files_symbolic_existence_windo -- exits 1 if the violation reproduces on /repo's current tree
import sys; sys.path.insert(0, '/verif')

from vlib import build
import sys, os, tempfile, shutil, datetime
drf = build.load_pkg()
from digital_rf import list_drf as L
kw, reverse = {'kind': 1, 'p0': True, 'p1': True, 'p2': True, 'p3': True, 'p4': False, 'p5': True, 'gone': 1, 'start': 3600, 'end': None}, False
SUBS = ['2020-01-01T00-00-00', '2020-01-01T01-00-00', '2020-01-01T02-00-00']; T0 = 1577836800
kind, gone, start, end = kw['kind'], kw['gone'], kw['start'], kw['end']
present = [kw['p%d' % i] for i in range(6)]
top = tempfile.mkdtemp(); ch = os.path.join(top, 'ch'); os.makedirs(ch)
allf = []; k = 0
for i, sd in enumerate(SUBS):
    if gone != i: os.makedirs(os.path.join(ch, sd))
    for off in (10, 20):
        t = T0 + 3600 * i + off
        name = ('rf@%d.000.h5' % t) if kind == 0 else ('metadata@%d.h5' % t)
        if present[k] and gone != i:
            open(os.path.join(ch, sd, name), 'w').close(); allf.append((t - T0, os.path.join(ch, sd, name)))
        k += 1
st = None if start is None else datetime.timedelta(seconds=T0 + start)
en = None if end is None else datetime.timedelta(seconds=T0 + end)
props = ['drf_properties.h5'] if kind == 0 else ['dmd_properties.h5']
try:
    got = list(L._yield_matching_files(ch, list(SUBS) + ['other'], props, kind == 0, kind == 1, starttime=st, endtime=en, reverse=reverse))
except Exception as e:
    print('raised', type(e).__name__, e); shutil.rmtree(top); sys.exit(1)
allf.sort()
inwin = [x for x in allf if (start is None or x[0] >= start) and (end is None or x[0] <= end)]
want = inwin
if kind == 1 and start is not None:
    before = [x for x in allf if x[0] < start]; exact = [x for x in allf if x[0] == start]
    if before and not exact: want = [before[-1]] + inwin
want = [p for _, p in want]
if reverse: want = want[::-1]
print('got', [os.path.relpath(p, top) for p in got]); print('expected', [os.path.relpath(p, top) for p in want])
shutil.rmtree(top)
sys.exit(1 if got != want else 0)
