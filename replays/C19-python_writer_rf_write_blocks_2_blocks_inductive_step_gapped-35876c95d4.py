#!/verif/.venv/bin/python
# replay for property C19 obligation python_writer_rf_write_blocks_2_blocks_inductive_step_gapped -- exits 1 if the violation reproduces on /repo's current tree
import sys; sys.path.insert(0, '/verif')

from vlib import build
import numpy as np, tempfile, os, shutil, sys, warnings
warnings.simplefilter('ignore')
drf = build.load_pkg()
kw, kind = {'nxt': 0, 'written': 0, 'n': 2, 'g0': 0, 'g1': 1, 'b0': 0, 'b1': 1, 'continuous': False}, 'blocks'
cont = bool(kw.get('continuous', False))
nxt, written = kw.get('nxt', 0), kw.get('written', kw.get('nxt', 0))
d = tempfile.mkdtemp(); os.makedirs(d + '/ch')
S = 10**10
w = drf.DigitalRFWriter(d + '/ch', 'i2', 3600, 1000, S, 10, 1, 'u', is_complex=False, is_continuous=cont, marching_periods=False)
bad = 0
try:
    if written > 0: w.rf_write(np.zeros((written, 1), dtype='i2'), next_sample=nxt - written)
    elif nxt > 0: print('state (next=%d, written=0) is not constructible through the API; replaying from a fresh writer' % nxt); nxt = 0
    pre = (w.get_next_available_sample(), w.get_total_samples_written(), w.get_total_gap_samples())
    n = kw['n']
    if kind == 'rf_write':
        G, B = [pre[0] if kw['ns'] is None else kw['ns']], [0]
        call = lambda: w.rf_write(np.ones((n, 1), dtype='i2'), kw['ns'])
    else:
        G = [kw[k] for k in ('g0', 'g1', 'g2') if k in kw]; B = [kw[k] for k in ('b0', 'b1', 'b2') if k in kw]
        call = lambda: w.rf_write_blocks(np.ones((n, 1), dtype='i2'), G, B)
    mal = len(G) != len(B) or G[0] < pre[0] or B[0] != 0 or any(B[i] >= max(n, 1) and n > 0 for i in range(len(B))) or \
        any(B[i-1] >= B[i] or G[i-1] >= G[i] or B[i]-B[i-1] > G[i]-G[i-1] for i in range(1, min(len(G), len(B))))
    try:
        ret = call(); rejected = False
    except ValueError as e:
        rejected = True; print('ValueError:', e)
    except Exception as e:
        rejected = None; print('unexpected', type(e).__name__, e)
    post = (w.get_next_available_sample(), w.get_total_samples_written(), w.get_total_gap_samples())
    if rejected is None: bad = 1
    elif rejected: bad = (not mal) or post != pre
    else:
        new_next = (G[-1] + (n - B[-1])) if n > 0 else pre[0]
        want = (new_next, pre[1] + n, new_next - (pre[1] + n))
        print('returned', ret, 'counters', post, 'expected', want, 'malformed', mal)
        bad = mal or post != want or ret != new_next
finally:
    try: w.close()
    except Exception: pass
    shutil.rmtree(d)
sys.exit(1 if bad else 0)
