#!/verif/.venv/bin/python
"""Single entry point: run_check.py <Cxx> [quick|thorough] [--replay <path>]

exit 0 = every obligation discharged within its stated bounds (known findings allowed)
exit 1 = a solver counterexample reproduced on the real build (VIOLATION line printed)
exit 2 = inconclusive / harness error (never reported as success or as a violation)
"""
import importlib, os, subprocess, sys, traceback

HERE = os.path.dirname(os.path.abspath(__file__))
sys.path.insert(0, HERE)
sys.dont_write_bytecode = True


def main(argv):
    if len(argv) < 2:
        print(__doc__)
        return 2
    pid = argv[1]
    tier = os.environ.get('VERIF_TIER', 'quick')
    rest = argv[2:]
    if '--replay' in rest:
        path = rest[rest.index('--replay') + 1]
        return subprocess.call([sys.executable, path])
    if rest and rest[0] in ('quick', 'thorough'):
        tier = rest[0]
    try:
        mod = importlib.import_module('checks.' + pid)
        return mod.main(tier)
    except SystemExit:
        raise
    except BaseException:
        traceback.print_exc()
        print('INCONCLUSIVE property=%s harness error' % pid)
        return 2


if __name__ == '__main__':
    sys.exit(main(sys.argv))
